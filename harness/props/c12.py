"""C12 - discriminated unions pick exactly the tagged class in any definition order.

Flow: theorems (coq/props/C12_discr.v) -> (M) correspondence of the executable model
`Discr.run` with the real library on random define/decode histories (real, dynamically
created classes; Config / Annotated-holder / codec wirings) -> direct oracle of the
property text on the same and on further histories (always runs).
"""
from __future__ import annotations

import dataclasses
import json
import sys
import types

from harness import vlib

# formats (Discr.DecodeF): id -> (entry point, encoder of the input); the dispatcher compiled for format f calls the
# variants' OWN `__mashumaro_from_dict_<f>__`, compiled on demand; class-level dispatchers share one registry across formats
FMT_MIXINS = "DataClassMessagePackMixin, DataClassORJSONMixin"
FMT_CALL = {1: "from_msgpack", 2: "from_json"}
FMT_KEYS = {"F1": 1, "F2": 2}


def fmt_encode(f: int, arg):
    if f == 1:
        import msgpack
        return msgpack.packb(arg)
    import orjson
    return orjson.dumps(arg)


FIELDS = ["type", "kind", "shape"]     # discriminator key names; id = position
FIELD = FIELDS[0]
N_ENUM = 200         # members of the StrEnum used for enum-styled tags
KERR_MARKER = 999    # Discr.kerr_marker: the input carries the key "kerr"
AERR_MARKER = 998    # Discr.aerr_marker: the input carries the key "aerr"

PREAMBLE = """
from dataclasses import dataclass, field
from enum import IntEnum, StrEnum
from typing import Annotated, Any, ClassVar, Dict, Final, List, Literal, Optional, Tuple, Union
from mashumaro import DataClassDictMixin
from mashumaro.config import ADD_DIALECT_SUPPORT, BaseConfig
from mashumaro.dialect import Dialect
from mashumaro.types import Discriminator
from mashumaro.codecs import BasicDecoder
from mashumaro.mixins.msgpack import DataClassMessagePackMixin
from mashumaro.mixins.orjson import DataClassORJSONMixin

class D1(Dialect):
    serialization_strategy = {}

class D2(Dialect):
    omit_none = True

E = StrEnum("E", {f"T{i}": f"t{i}" for i in range(%d)})
E.__module__ = __name__
IE = IntEnum("IE", {"Z0": 0, "Z1": 1, "Z2": 2})
IE.__module__ = __name__
SE = StrEnum("SE", {"EMPTY": "", "T": "t"})
SE.__module__ = __name__
TAGS = [{}, {}]          # one table per tagger function

def tagger0(cls):
    return TAGS[0].get(cls.__name__, [])

def tagger1(cls):
    return TAGS[1].get(cls.__name__, [])

def kerr_hook(cls, d):
    # a variant whose own from_dict leaks a KeyError (e.g. a hook indexing a mapping) on inputs carrying the marker
    if "kerr" in d:
        raise KeyError("kerr:" + cls.__name__)
    if "aerr" in d:
        raise AttributeError("aerr:" + cls.__name__)
    return d
""" % N_ENUM


# ---------------------------------------------------------------------------
# tag rendering
# ---------------------------------------------------------------------------

NOJSON = object()      # spelling usable as a class attribute / tagger result only (enum members)

# The tag VALUE spectrum.  One entry = one abstract tag (a class of Python values that are == and hash-equal, i.e. the
# same dict key for the registry); its spellings = (source, source of its type, JSON-able input value | NOJSON).
# Different entries are never ==.  Falsy values, None as a value (key present!), bool/int/float/IntEnum collisions,
# strings that merely look falsy.
SPECIAL = [
    [("0", "int", 0), ("False", "bool", False), ("0.0", "float", 0.0), ("IE.Z0", "IE", NOJSON)],
    [("1", "int", 1), ("True", "bool", True), ("1.0", "float", 1.0), ("IE.Z1", "IE", NOJSON)],
    [("''", "str", ""), ("SE.EMPTY", "SE", NOJSON)],
    [("None", "None", None)],
    [("'0'", "str", "0")],
    [("-1", "int", -1), ("-1.0", "float", -1.0)],
    [("'t'", "str", "t"), ("SE.T", "SE", NOJSON)],
    [("2", "int", 2), ("2.0", "float", 2.0), ("IE.Z2", "IE", NOJSON)],
    [("'False'", "str", "False")],
    [("' '", "str", " ")],
]


def spellings(style: str, k: int) -> list:
    """all spellings of abstract tag k under a style; style 'spectrum:<perm>' maps the first ids onto SPECIAL"""
    if style.startswith("spectrum:"):
        perm = [int(x) for x in style.split(":")[1].split(",")]
        if k < len(perm):
            return SPECIAL[perm[k]]
        v = f"t{k}" if k % 2 == 0 else 100 + k
        return [(repr(v), type(v).__name__, v)]
    if style == "str":
        v = f"t{k}"
    elif style == "enum":
        return [(f"E.T{k}", "E", NOJSON), (repr(f"t{k}"), "str", f"t{k}")]
    elif style == "int":
        v = 100 + k
    else:
        v = f"t{k}" if k % 2 == 0 else 100 + k          # mixed
    return [(repr(v), type(v).__name__, v)]


def tag_value(style: str, k: int, j: int = 0):
    """Python value of abstract tag k as it appears in the *input* (always JSON-able): the j-th JSON-able spelling"""
    vals = [sp[2] for sp in spellings(style, k) if sp[2] is not NOJSON]
    return vals[j % len(vals)]


def tag_src(style: str, k: int, attr: bool, j: int = 0) -> tuple[str, str]:
    """(source of the value, source of its type) for a class attribute / tagger result: the j-th spelling"""
    sps = spellings(style, k)
    if style == "enum" and not attr:
        sps = sps[1:]                 # the tagger of an enum-styled history returns the plain strings
    sp = sps[j % len(sps)]
    return sp[0], sp[1]


# ---------------------------------------------------------------------------
# history generation (pure; everything random comes from rng)
# ---------------------------------------------------------------------------

@dataclasses.dataclass
class Hist:
    kind: str                 # "field" | "nofield"
    style: str
    sites: list               # dicts: wiring, bases, sub, sup, field, tagger, config, name
    ops: list                 # model ops: ("define", parents, {key id: tag}, ttags, own_req) | ("decode", site, {key id: tag}, present)
    script: list              # executable steps (JSON-able), see run_script
    op_of_step: list          # for every script step: index into ops or None
    meta: dict


DECLS = ["field", "classvar", "plain", "literal", "final"]


def disc_src(s: dict) -> str:
    args = []
    if s["field"]:
        args.append(f"field={FIELDS[s.get('fid', 0)]!r}")
    if s["sub"]:
        args.append("include_subtypes=True")
    if s["sup"]:
        args.append("include_supertypes=True")
    if s["tagger"]:
        args.append(f"variant_tagger_fn=tagger{s.get('tgid', 0)}")
    return "Discriminator(" + ", ".join(args) + ")"


def class_src(c: dict, style: str, kind: str) -> str:
    if c["parents"]:
        bases = ", ".join(f"C{p}" for p in c["parents"])
    else:
        bases = "" if c["plain"] else (FMT_MIXINS if c.get("fmtmix") else "DataClassDictMixin")
    lines = ["@dataclass", f"class C{c['id']}({bases}):" if bases else f"class C{c['id']}:"]
    body = []
    if kind in ("field", "mixed"):
        for fid, tg in sorted(c["own_tags"].items()):
            v, t = tag_src(style, tg, True, c.get("own_js", {}).get(fid, 0))
            d = c["decl"]
            fname = FIELDS[fid]
            if style.startswith("spectrum:") and d in ("field", "final", "classvar"):
                t = "Any"             # the spellings of one tag have different types
            if d == "field":
                body.append(f"{fname}: {t} = {v}")
            elif d == "classvar":
                body.append(f"{fname}: ClassVar[{t}] = {v}")
            elif d == "plain":
                body.append(f"{fname} = {v}")
            elif d == "literal":
                body.append(f"{fname}: Literal[{v}] = {v}")
            else:
                body.append(f"{fname}: Final[{t}] = {v}")
        if kind == "mixed":               # tags AND required fields: no defaulted field anywhere
            for f in c["own_req"]:
                body.append(f"f{f}: int")
        else:
            if not c["parents"]:
                body.append("x: int = 0")
            for f in c["own_req"]:
                body.append(f"y{f}: int = {f}")
    else:
        for f in c["own_req"]:
            body.append(f"f{f}: int")
    if c.get("kerr"):
        body.append("__pre_deserialize__ = classmethod(kerr_hook)")
    if c["config"] is not None:
        body.append("class Config(BaseConfig):")
        if c["config"].get("dialects"):
            body.append("    code_generation_options = [ADD_DIALECT_SUPPORT]")
        body.append("    discriminator = " + disc_src(c["config"]))
    if not body:
        body.append("pass")
    src = "\n".join(lines + ["    " + b for b in body]) + "\n"
    for g, tgs in sorted((c["ttags"] or {}).items()):
        js = (c.get("ttag_js") or {}).get(g) or [0] * len(tgs)
        vals = [tag_src(style, k, False, j)[0] for k, j in zip(tgs, js)]
        if c["ttag_bare"] and len(vals) == 1:
            src += f"TAGS[{g}]['C{c['id']}'] = {vals[0]}\n"
        else:
            src += f"TAGS[{g}]['C{c['id']}'] = [{', '.join(vals)}]\n"
    return src


# Where the Discriminator annotation sits relative to containers (holder field type or codec type):
# name -> (type template over T = base type and D = discriminator source, wrap input, unwrap result).
# "inner" shapes annotate the class itself and wrap the Annotated type; "outer" shapes (a_*) attach the Discriminator
# to the container, the metadata has to travel down to the dataclass (single base only: Optional[Union[..]] flattens).
SHAPES = {
    "plain": ("Annotated[{T}, {D}]", lambda i: i, lambda r: r),
    "list": ("List[Annotated[{T}, {D}]]", lambda i: [i], lambda r: r[0]),
    "opt": ("Optional[Annotated[{T}, {D}]]", lambda i: i, lambda r: r),
    "dict": ("Dict[str, Annotated[{T}, {D}]]", lambda i: {"k": i}, lambda r: r["k"]),
    "vtuple": ("Tuple[Annotated[{T}, {D}], ...]", lambda i: [i], lambda r: r[0]),
    "tuple2": ("Tuple[int, Annotated[{T}, {D}]]", lambda i: [1, i], lambda r: r[1]),
    "a_opt": ("Annotated[Optional[{T}], {D}]", lambda i: i, lambda r: r),
    "a_list": ("Annotated[List[{T}], {D}]", lambda i: [i], lambda r: r[0]),
    "a_dict": ("Annotated[Dict[str, {T}], {D}]", lambda i: {"k": i}, lambda r: r["k"]),
    "a_listopt": ("Annotated[List[Optional[{T}]], {D}]", lambda i: [i], lambda r: r[0]),
}
INNER_SHAPES = ["plain", "plain", "plain", "list", "opt", "dict", "vtuple", "tuple2"]
OUTER_SHAPES = ["a_opt", "a_list", "a_dict", "a_listopt"]


def site_type_src(s: dict) -> str:
    bs = [f"C{b}" for b in s["bases"]]
    t = bs[0] if len(bs) == 1 else "Union[" + ", ".join(bs) + "]"
    return SHAPES[s.get("shape", "plain")][0].format(T=t, D=disc_src(s))


def site_create_src(s: dict) -> str:
    if s["wiring"] == "codec":
        dd = ", default_dialect=D1" if s.get("dialects") else ""
        return f"{s['name']} = BasicDecoder({site_type_src(s)}{dd})\n"
    src = f"@dataclass\nclass {s['name']}({FMT_MIXINS if s.get('formats') else 'DataClassDictMixin'}):\n    v: {site_type_src(s)}\n"
    if s.get("dialects"):
        src += "    class Config(BaseConfig):\n        code_generation_options = [ADD_DIALECT_SUPPORT]\n"
    return src


def decode_step(s: dict, inp: dict) -> dict:
    call = f"{s['name']}.decode" if s["wiring"] == "codec" else f"{s['name']}.from_dict"
    return {"op": "decode", "call": call, "holder": s["wiring"] == "holder",
            "shape": None if s["wiring"] == "config" else s.get("shape", "plain"), "input": inp}


def mro_ok(mirror: list, parents: list) -> bool:
    try:
        type("M", tuple(mirror[p] for p in parents), {})
        return True
    except TypeError:
        return False


def gen_history(rng, stream: str = "main", max_ops: int = 40) -> Hist:
    """stream "main": inside the domain of the correspondence; stream "kf": no-field mode through a
    holder over plain dataclasses (region of the known finding nofield-inherited-unpacker).
    kind "field": every dispatcher looks at a key; "nofield": none does; "mixed": classes carry tags AND required
    fields, every dispatcher picks its mode (a no-field dispatcher below a field one and vice versa)."""
    if stream == "kf":
        kind = "nofield"
    else:
        r = rng.random()
        kind = "field" if r < 0.6 else ("mixed" if r < 0.78 else "nofield")
    has_tags = kind in ("field", "mixed")
    has_req = kind in ("nofield", "mixed")
    style = rng.choice(["str", "int", "enum", "mixed"])
    if has_tags and rng.random() < 0.4:
        # the tag VALUE spectrum: the first abstract ids are falsy values, None, bool/int/float/enum collisions, ...
        perm = list(range(len(SPECIAL)))
        rng.shuffle(perm)
        style = "spectrum:" + ",".join(map(str, perm[:rng.randint(3, len(SPECIAL))]))
    spectrum = style.startswith("spectrum:")
    unique = rng.random() < 0.75
    # a variant validates its own `type` field: tagger tags differ from the attribute, and a non-field declaration
    # below a field declaration inherits the ancestor's annotation -> one declaration family per history
    use_tagger = has_tags and rng.random() < 0.35
    # call-time dialects (Config roots and holders with ADD_DIALECT_SUPPORT, codecs with default_dialect): the registries
    # are shared by all dialects, a variant compiled on demand gets its default method (/repo 523ca35)
    use_dialects = rng.random() < 0.3
    # formats: mixin roots / holders that also provide from_msgpack and (orjson) from_json.  One generated dispatcher per
    # format; class-level dispatchers share ONE registry across formats while a variant's per-format method is compiled
    # on demand (registered but not compiled = a miss); a holder compiled for a format has its own registries
    use_formats = stream != "kf" and rng.random() < 0.35
    nonfield = kind == "mixed" or use_tagger or rng.random() < (0.55 if spectrum else 0.35)
    decls = ["classvar", "plain"] if nonfield else (["field", "literal"] if spectrum else ["field", "literal", "final"])
    # discriminator key names in use: dispatchers of one hierarchy may look at different keys (an outer one at "type",
    # a nested one at "kind"); a class can carry a tag per key name.  A field-declared tag would validate the other
    # key's value when both keys are in the input -> two key names only with non-field declarations
    n_keys = 2 if (has_tags and nonfield and rng.random() < 0.45) else 1
    key_ids = rng.sample(range(len(FIELDS)), n_keys) if has_tags else [0]
    # a Literal/typed `type` field validates the spelling it gets: only histories whose classes declare the tag as a
    # non-field attribute (or use the tagger) mix the ==-equal spellings of one tag (False/0/0.0/IE.Z0, ''/SE.EMPTY ...)
    free_spelling = spectrum and nonfield
    # some classes' own from_dict leaks a KeyError on inputs with the marker key (known finding variant-keyerror-misreported)
    use_kerr = stream != "kf" and rng.random() < 0.2
    length = rng.randint(6, max_ops)
    classes: list[dict] = []
    mirror: list = []
    sites: list[dict] = []
    # what one call decodes: {dialect: [site index] or the site indices of a multi-field holder}.  A holder compiled for
    # a call-time dialect is a separate generated function with its OWN registries (fresh attribute names), so a
    # holder site is one model site per dialect; Config roots share one registry across dialects; a codec has one dialect
    units: list = []
    ops: list = []
    script: list = [{"op": "exec", "src": PREAMBLE}]
    op_of_step: list = [None]
    next_tag = [0]
    next_field = [0]
    n_other_sites = rng.choice([1, 2, 2, 3])
    other_sites = 0
    root_of: list[int] = []
    union_order: dict = {}

    def fresh_tag():
        if unique:
            next_tag[0] += 1
            return next_tag[0] - 1
        return rng.randrange(0, 5)

    def pick_mode() -> bool:
        """field mode?"""
        return kind == "field" or (kind == "mixed" and rng.random() < 0.6)

    def new_config():
        return {"field": pick_mode(), "sub": True, "sup": rng.random() < 0.3, "fid": rng.choice(key_ids),
                "tagger": use_tagger and rng.random() < 0.6, "tgid": rng.randrange(2), "dialects": use_dialects and rng.random() < 0.7}

    def define(parents: list[int]):
        cid = len(classes)
        root = not parents
        plain = False
        config = None
        if root:
            if stream == "kf":
                plain = True
            else:
                r = rng.random()
                if r < 0.45:
                    config = new_config()
                elif r < 0.7:
                    plain = True
        else:
            plain = classes[parents[0]]["plain"]
            # a non-root class that declares its own class-level discriminator: a dispatcher below a dispatcher
            if not plain and stream != "kf" and rng.random() < (0.12 if (n_keys == 2 or kind == "mixed") else 0.06):
                config = new_config()
        if config is not None and not config["field"]:
            config["tagger"] = False
        own_tags: dict = {}
        ttags = None
        own_req: list[int] = []
        if has_tags:
            for fid in key_ids:
                if rng.random() < 0.75:
                    own_tags[fid] = fresh_tag()
            ttags = {}
            for g in (0, 1):
                n = rng.choice([0, 1, 1, 1, 2, 3]) if rng.random() < 0.9 else 0
                ttags[g] = [fresh_tag() for _ in range(n)] if use_tagger else []
        if kind == "field":
            if rng.random() < 0.3:
                own_req = [next_field[0]]
                next_field[0] += 1
        elif has_req:
            n = 1 if root else rng.choice([0, 1, 1, 2])
            for _ in range(n):
                own_req.append(next_field[0])
                next_field[0] += 1
        own_js = {fid: (rng.randrange(8) if free_spelling else 0) for fid in own_tags}
        ttag_js = {g: [rng.randrange(8) if free_spelling else 0 for _ in tgs] for g, tgs in (ttags or {}).items()}
        kerr = use_kerr and rng.random() < 0.25
        c = {"id": cid, "parents": parents, "own_tags": own_tags, "ttags": ttags, "ttag_bare": rng.random() < 0.5,
             "own_js": own_js, "ttag_js": ttag_js, "kerr": kerr, "fmtmix": bool(root and not plain and use_formats and rng.random() < 0.8),
             "own_req": own_req, "decl": rng.choice(decls), "plain": plain, "config": config}
        classes.append(c)
        mirror.append(type(f"M{cid}", tuple(mirror[p] for p in parents), {}))
        root_of.append(cid if root else root_of[parents[0]])
        # in kind "field" the extra fields are defaulted: nothing is required
        ops.append(("define", list(parents), dict(own_tags), {g: list(t) for g, t in (ttags or {}).items()},
                    list(own_req) if has_req else [], kerr))
        script.append({"op": "exec", "src": class_src(c, style, kind)})
        op_of_step.append(len(ops) - 1)
        if config is not None:
            s = dict(config)
            s.update({"wiring": "config", "bases": [cid], "config": True, "name": f"C{cid}"})
            sites.append(s)
            unit = {d: [len(sites) - 1] for d in ([None, "D1", "D2"] if s.get("dialects") else [None])}
            if classes[root_of[cid]].get("fmtmix"):
                unit.update({"F1": [len(sites) - 1], "F2": [len(sites) - 1]})      # same model site: shared registry
            units.append(unit)

    def pick_parents():
        p = rng.randrange(len(classes))
        if rng.random() < 0.12:
            fam = [c["id"] for c in classes if root_of[c["id"]] == root_of[p] and c["id"] != p]
            if fam:
                q = rng.choice(fam)
                for cand in ([p, q], [q, p]):
                    if mro_ok(mirror, cand):
                        return cand
        return [p]

    def site_settings(wiring: str, mode_field: bool) -> dict:
        b = rng.randrange(len(classes)) if rng.random() < 0.5 else rng.choice([c["id"] for c in classes if not c["parents"]])
        bases = [b]
        if rng.random() < 0.25 and len(classes) >= 2:
            b2 = rng.randrange(len(classes))
            if b2 != b:
                bases.append(b2)
        # CPython caches Annotated[Union[A, B], d] by an order-insensitive key: Union[B, A] with an equal Discriminator
        # would silently get the member order of the first one -> one order per member set and history
        bases = union_order.setdefault(frozenset(bases), bases)
        sub, sup = rng.choice([(True, False), (True, False), (True, True), (True, True), (False, True)])
        shape = rng.choice(INNER_SHAPES)
        if rng.random() < 0.35:
            # the Discriminator around the container; a Union base below Optional flattens to Union[A, B, None]
            shape = rng.choice(OUTER_SHAPES if (len(bases) == 1 or mode_field) else ["a_list", "a_dict"])
        tagger = mode_field and use_tagger and rng.random() < 0.6
        # known finding optional-union-nonetype-variant (Optional[Union[A, B]] + include_supertypes + tagger: the refill
        # crashes on NoneType) is IN the model (Discr.crash_on_refill); the oracle classifies those failures by signature
        return {"wiring": wiring, "bases": bases, "sub": sub, "sup": sup, "field": mode_field, "fid": rng.choice(key_ids),
                "tagger": tagger, "tgid": rng.randrange(2), "config": False, "shape": shape}

    def new_site():
        nonlocal other_sites
        wiring = "holder" if stream == "kf" else rng.choice(["holder", "holder", "holder", "codec", "codec"])
        other_sites += 1
        if wiring == "holder" and stream != "kf" and has_tags and rng.random() < 0.3:
            # ONE holder with several discriminated fields: several sites, one call decodes them in field order
            k = rng.choice([2, 2, 3])
            hname = "H" + str(len(sites))
            dial = use_dialects and rng.random() < 0.5
            protos = []
            # ONE field holding all the positions (v: Tuple[<site 0>, <site 1>, ..]) or one field per site; "twin": the
            # Discriminators of the positions have EQUAL settings (== and hash equal) over different bases - whatever the
            # implementation derives from the settings alone (registry name, memo key) is then shared by the positions
            one_field = rng.random() < 0.5
            twin = rng.random() < 0.6
            # BasicDecoder(Tuple[<site 0>, <site 1>, ..]): the same positions in a codec.  Only in histories with unique tags: with
            # duplicate tags (correspondence only, the property is silent) the thorough tier found 1 history in 4000 where the
            # model's DecodeSeq over CODEC sites and the implementation pick different duplicates - open item, not analysed yet
            as_codec = one_field and bool(unique) and rng.random() < 0.35
            if as_codec:
                hname, dial = "DEC" + str(len(sites)), False
            for j in range(k):
                s = site_settings("holder", True)
                s["wiring"] = "holder"
                if twin and j:
                    for key in ("sub", "sup", "fid", "tagger", "tgid"):
                        s[key] = protos[0][key]
                    others = [c["id"] for c in classes if c["id"] not in protos[0]["bases"]]
                    if set(s["bases"]) == set(protos[0]["bases"]) and others:
                        b2 = rng.choice(others)
                        s["bases"] = union_order.setdefault(frozenset([b2]), [b2])
                s.update({"name": hname, "vfield": (None if as_codec else "v") if one_field else f"v{j}", "dialects": dial})
                if as_codec:
                    s["wiring"] = "codec"
                if one_field:
                    s["pos"] = j
                    s["twin"] = twin
                protos.append(s)
            unit = {}
            for d in ([None, "D1", "D2"] if dial else [None]):
                unit[d] = []
                for s in protos:
                    sites.append(dict(s))
                    unit[d].append(len(sites) - 1)
            if as_codec:
                src = f"{hname} = BasicDecoder(Tuple[" + ", ".join(site_type_src(s) for s in protos) + "])\n"
            elif one_field:
                src = f"@dataclass\nclass {hname}(DataClassDictMixin):\n    v: Tuple[" + ", ".join(site_type_src(s) for s in protos) + "]\n"
            else:
                src = f"@dataclass\nclass {hname}(DataClassDictMixin):\n" + "".join(
                    f"    {s['vfield']}: {site_type_src(s)}\n" for s in protos)
            if dial:
                src += "    class Config(BaseConfig):\n        code_generation_options = [ADD_DIALECT_SUPPORT]\n"
            units.append(unit)
            script.append({"op": "exec", "src": src, **({"module": "b"} if (rng.random() < 0.3 and not as_codec) else {})})
            op_of_step.append(None)
            return
        s = site_settings(wiring, pick_mode() if stream != "kf" else False)
        s["name"] = ("DEC" if s["wiring"] == "codec" else "H") + str(len(sites))
        s["dialects"] = use_dialects and stream != "kf" and rng.random() < 0.5
        s["formats"] = use_formats and s["wiring"] == "holder" and not s["dialects"] and rng.random() < 0.6
        unit = {}
        for d in ([None, "D1", "D2"] if (s["dialects"] and s["wiring"] == "holder") else [None, "F1", "F2"] if s["formats"] else [None]):
            sites.append(dict(s))
            unit[d] = [len(sites) - 1]
        units.append(unit)
        # a holder may live in another module than the classes it dispatches over
        script.append({"op": "exec", "src": site_create_src(s), **({"module": "b"} if (s["wiring"] == "holder" and rng.random() < 0.3) else {})})
        op_of_step.append(None)

    def gen_input(s: dict, sibs=()):
        """(keys {key id: tag}, present fields, input dict) for one decode through site s (sibs: the other sites decoded by
        the same call - their classes' tags are worth sending to THIS position: they must not be found here)"""
        inp: dict = {}
        keys: dict = {}
        present: list[int] = []
        elig = gen_eligible(s)
        fam = {root_of[b] for b in s["bases"]}
        if has_tags:
            r = rng.random()
            pool = []
            narrow = rng.random() < 0.7 and elig
            for c in classes:
                if narrow and c["id"] not in elig:
                    continue
                if root_of[c["id"]] not in fam and rng.random() < 0.8:
                    continue
                if s["tagger"]:
                    pool.extend((c["ttags"] or {}).get(s.get("tgid", 0), []))
                elif s["fid"] in c["own_tags"]:
                    pool.append(c["own_tags"][s["fid"]])
            if sibs and rng.random() < 0.35:
                spool = []
                for sib in sibs:
                    el2 = gen_eligible(sib)
                    for c in classes:
                        if c["id"] in el2:
                            if s["tagger"]:
                                spool.extend((c["ttags"] or {}).get(s.get("tgid", 0), []))
                            elif s["fid"] in c["own_tags"]:
                                spool.append(c["own_tags"][s["fid"]])
                if spool:
                    pool = spool
                    r = 0.5
            if r < 0.08:
                t = None
            elif r < 0.72 and pool:
                t = rng.choice(pool)
            elif r < 0.9:
                t = next_tag[0] + rng.randrange(0, 3) if unique else rng.randrange(0, 7)   # often the tag of a class defined later
            else:
                t = rng.randrange(0, max(1, next_tag[0] + 2))
            t = None if t is None else min(t, N_ENUM - 1)
            if t is not None and (s["field"] or rng.random() < 0.5):
                keys[s["fid"]] = t
            for fid in key_ids:          # the other key name: present (tag of some class / anything) or absent
                if fid != s["fid"] and rng.random() < 0.6:
                    other = [c["own_tags"][fid] for c in classes if fid in c["own_tags"]]
                    other += [x for c in classes for tgs in (c["ttags"] or {}).values() for x in tgs]
                    keys[fid] = min(rng.choice(other) if other and rng.random() < 0.8 else rng.randrange(0, next_tag[0] + 3), N_ENUM - 1)
            for fid, tg in keys.items():
                inp[FIELDS[fid]] = tag_value(style, tg, rng.randrange(8) if free_spelling else 0)   # key present, whatever the value
            if s["field"] and rng.random() < 0.04:
                # a value that is not hashable cannot be anybody's tag (model: Unhashable)
                keys[s["fid"]] = "U"
                inp[FIELDS[s["fid"]]] = rng.choice([[1], {"a": 1}, [], [["t1"]]])
            if kind == "field" and rng.random() < 0.5:
                inp["x"] = rng.randrange(0, 9)
        if has_req:
            famc = [c for c in classes if root_of[c["id"]] in fam]
            if elig and rng.random() < 0.6:
                famc = [c for c in classes if c["id"] in elig]
            if keys.get(s["fid"]) is not None and rng.random() < 0.6:      # the fields of the class the tag points at
                hit = [c for c in classes if c["own_tags"].get(s["fid"]) == keys[s["fid"]]]
                famc = hit or famc
            c = rng.choice(famc if famc and rng.random() < 0.85 else classes)
            present = sorted(set(full_req(c["id"])))
            r = rng.random()
            if r < 0.2 and present:
                present.remove(rng.choice(present))
            elif r < 0.45 and next_field[0]:
                present = sorted(set(present + [rng.randrange(next_field[0])]))
            for f in present:
                inp[f"f{f}"] = f
        if use_kerr and rng.random() < 0.3:
            if rng.random() < 0.6:
                inp["kerr"] = 1
                present = present + [KERR_MARKER]
            else:
                inp["aerr"] = 1
                present = present + [AERR_MARKER]
        return keys, present, inp

    def decode():
        by_dialect = rng.choice(units)
        dialect = rng.choice(sorted(by_dialect, key=str))
        unit = by_dialect[dialect]
        s = sites[unit[0]]
        fmt_id = FMT_KEYS.get(dialect, 0)
        if fmt_id:
            dialect = None
        if len(unit) == 1 and stream != "kf" and rng.random() < 0.04:
            # the input is not a mapping (never None: the Optional shapes answer None themselves)
            ops.append(("decodebad", unit[0]))
            step = decode_step(s, rng.choice([[1, 2], 5, "abc", 1.5, [], True]))
            if fmt_id:
                step["fmt"] = fmt_id          # the same non-mapping value, encoded
            if dialect:
                step["dialect"] = dialect
            script.append(step)
            op_of_step.append(len(ops) - 1)
            return
        if len(unit) == 1:
            keys, present, inp = gen_input(s)
            ops.append(("decode", unit[0], dict(keys), present) + ((fmt_id,) if fmt_id else ()))
            step = decode_step(s, inp)
            if fmt_id:
                step["fmt"] = fmt_id
        else:
            parts = [gen_input(sites[i], [sites[j] for j in unit if j != i]) for i in unit]
            ops.append(("decodeseq", [(i, dict(k), pr) for i, (k, pr, _) in zip(unit, parts)]))
            step = {"op": "decode", "call": f"{s['name']}.decode" if s["wiring"] == "codec" else f"{s['name']}.from_dict",
                    "holder": False, "shape": None, "input": None,
                    "multi": [[sites[i]["vfield"], sites[i]["shape"], pt[2]] + ([sites[i]["pos"]] if "pos" in sites[i] else [])
                              for i, pt in zip(unit, parts)]}
        if dialect:
            step["dialect"] = dialect
        script.append(step)
        op_of_step.append(len(ops) - 1)

    def gen_eligible(s):
        """input shaping only (which tags/fields are worth sending); the oracle has its own notion"""
        def anc(cid):
            out = set()
            for p in classes[cid]["parents"]:
                out.add(p)
                out |= anc(p)
            return out
        el = set()
        for c in classes:
            if s["sub"] and anc(c["id"]) & set(s["bases"]):
                el.add(c["id"])
            if s["sup"] and not s["config"] and c["id"] in s["bases"]:
                el.add(c["id"])
        return el

    def full_req(cid):
        out = list(classes[cid]["own_req"])
        for p in classes[cid]["parents"]:
            out.extend(full_req(p))
        return out

    n_roots = rng.choice([1, 1, 2])
    for _ in range(n_roots):
        define([])
    for _ in range(rng.choice([0, 0, 1, 2, 4])):
        define(pick_parents())
    while len(ops) < length:
        r = rng.random()
        if other_sites < n_other_sites and (not sites or r < 0.15):
            new_site()
        elif r < 0.42 and len(classes) < 14:
            define(pick_parents())
        elif units:
            decode()
        else:
            new_site()
    meta = {"kind": kind, "style": style, "unique": unique, "classes": classes, "stream": stream, "n_keys": n_keys}
    return Hist(kind, style, sites, ops, script, op_of_step, meta)


# ---------------------------------------------------------------------------
# execution on the real library
# ---------------------------------------------------------------------------

_MOD_COUNTER = [0]
_CLOSED = [0]


class Sandbox:
    """A fresh module registered in sys.modules for the lifetime of one history; keeps every
    class alive (so __subclasses__() order is deterministic) until close()."""

    def __init__(self):
        _MOD_COUNTER[0] += 1
        self.name = f"verif_c12_m{_MOD_COUNTER[0]}"
        self.mod = types.ModuleType(self.name)
        sys.modules[self.name] = self.mod
        self.ns = self.mod.__dict__
        self.mod_b = None

    def exec_step(self, step: dict, label: str):
        """class/holder/codec definitions; a step marked module "b" is executed in a SECOND module that imports the
        first one's names (a holder living in another module than the classes it dispatches over)"""
        if step.get("module") != "b":
            exec(compile(step["src"], f"<{self.name}:{label}>", "exec"), self.ns)
            return
        if self.mod_b is None:
            self.mod_b = types.ModuleType(self.name + "_b")
            sys.modules[self.name + "_b"] = self.mod_b
        nsb = self.mod_b.__dict__
        exec(f"from {self.name} import *", nsb)
        exec(compile(step["src"], f"<{self.name}_b:{label}>", "exec"), nsb)
        for k, v in list(nsb.items()):
            if getattr(v, "__module__", None) == self.name + "_b" and isinstance(v, type):
                self.ns[k] = v

    def close(self):
        sys.modules.pop(self.name, None)
        sys.modules.pop(self.name + "_b", None)
        if self.mod_b is not None:
            self.mod_b.__dict__.clear()
        self.ns.clear()
        # mashumaro memoises per-builder results in module-level lru_caches (get_field_default: unbounded), which keep every
        # CodeBuilder - and through it every class of every history - alive: ~0.4 MB per history, > 1 GB in the thorough tier
        try:
            from mashumaro.core.meta.code.builder import CodeBuilder
            for attr in ("get_field_default", "get_config"):
                fn = getattr(CodeBuilder, attr, None)
                if hasattr(fn, "cache_clear"):
                    fn.cache_clear()
            df = getattr(CodeBuilder, "dataclass_fields", None)
            if isinstance(df, property) and hasattr(df.fget, "cache_clear"):
                df.fget.cache_clear()
        except Exception:  # noqa: BLE001 - housekeeping only
            pass
        _CLOSED[0] += 1
        if _CLOSED[0] % 50 == 0:
            import gc
            gc.collect()


def unwrap_exc(e: BaseException):
    from mashumaro.exceptions import MissingDiscriminatorError, SuitableVariantNotFoundError
    seen = 0
    cur = e
    while cur is not None and seen < 6:
        if isinstance(cur, MissingDiscriminatorError):
            return "missing"
        if isinstance(cur, SuitableVariantNotFoundError):
            return "notfound"
        cur = cur.__cause__ or cur.__context__
        seen += 1
    # the selected class rejects the input itself: the innermost MissingField / InvalidFieldValue names that class
    from mashumaro.exceptions import InvalidFieldValue, MissingField
    chain = []
    cur = e
    while cur is not None and len(chain) < 6:
        chain.append(cur)
        cur = cur.__cause__ or cur.__context__
    for c in reversed(chain):
        if isinstance(c, (MissingField, InvalidFieldValue)):
            hc = getattr(c, "holder_class", None)
            name = getattr(hc, "__name__", "")
            if name.startswith("C") and name[1:].isdigit():
                return "rej:" + name
            break
    return "exc:" + type(e).__name__


def outcome_of_exc(e: BaseException):
    u = unwrap_exc(e)
    if u.startswith("exc:"):
        cur, n = e, 0
        while cur is not None and n < 6:       # the selected class's own KeyError surfaces (it names the class)
            if type(cur) is KeyError and cur.args and isinstance(cur.args[0], str) and cur.args[0].startswith("kerr:C"):
                return ("keyerr", cur.args[0][5:])
            if type(cur) is AttributeError and cur.args and isinstance(cur.args[0], str) and cur.args[0].startswith("aerr:C"):
                return ("attrerr", cur.args[0][5:])
            cur = cur.__cause__ or cur.__context__
            n += 1
        cur, n = e, 0
        while cur is not None and n < 6:       # the refill tripped over the NoneType member of a flattened Optional[Union[..]]
            if type(cur) is TypeError and "immutable type 'NoneType'" in str(cur):
                return ("crash",)
            cur = cur.__cause__ or cur.__context__
            n += 1
        cur, n = e, 0
        while cur is not None and n < 6:       # the dispatcher's own answer to a non-mapping input
            if type(cur) is ValueError and "discriminated by" in str(cur) and "should be a dict instance" in str(cur):
                return ("notdict",)
            cur = cur.__cause__ or cur.__context__
            n += 1
    return ("rej", u[4:]) if u.startswith("rej:") else (u,)


def call_label(step: dict) -> str:
    """the entry point as it is really called (from_msgpack / from_json of the same object for a format step)"""
    if step.get("fmt"):
        return step["call"].split(".")[0] + "." + FMT_CALL[step["fmt"]] + "<encoded>"
    return step["call"]


# ---------------------------------------------------------------------------
# watchdog: a decode that does not come back IS a violation ("a known tag returns an instance ... or the documented
# error"). An endless / exponentially retried recursion of a dispatcher (a variant's inherited method being the dispatcher
# itself, inside the no-field loop's `except Exception: pass`) would otherwise hang the whole check. CPU-time based
# (ITIMER_PROF: a loaded machine does not trigger it), raising a BaseException subclass so that no `except Exception`
# of the generated code swallows it; the interval re-fires in case something does.
# ---------------------------------------------------------------------------

class DecodeTimeout(BaseException):
    pass


WD_SEC = [4.0]            # CPU seconds per decode call / per exec step (x5); a normal one takes milliseconds
WD_AFTER_FIRST = 1.0      # once a hang has been seen (the violation is established) the others are cut shorter
HANGS = [0]


class cpu_watchdog:
    def __init__(self, factor: float = 1.0):
        self.sec = WD_SEC[0] * factor
        self.armed = False

    def _fire(self, signum, frame):
        raise DecodeTimeout()

    def __enter__(self):
        import signal
        import threading
        if hasattr(signal, "setitimer") and threading.current_thread() is threading.main_thread():
            self.old = signal.signal(signal.SIGPROF, self._fire)
            signal.setitimer(signal.ITIMER_PROF, self.sec, 0.5)
            self.armed = True
        return self

    def __exit__(self, et, ev, tb):
        if self.armed:
            import signal
            signal.setitimer(signal.ITIMER_PROF, 0)
            signal.signal(signal.SIGPROF, self.old)
        if et is not None and issubclass(et, DecodeTimeout):
            HANGS[0] += 1
            WD_SEC[0] = min(WD_SEC[0], WD_AFTER_FIRST if HANGS[0] < 6 else 0.3)
        return False


def do_decode(ns: dict, step: dict):
    """do_decode_raw under the watchdog: -> ("hang",) when the call does not return within WD_SEC CPU seconds"""
    try:
        with cpu_watchdog():
            return do_decode_raw(ns, step)
    except DecodeTimeout:
        return ("hang",)


def do_decode_raw(ns: dict, step: dict):
    """-> ("inst", class name) | ("missing",) | ("notfound",) | ("exc:<Name>",)"""
    obj, meth = step["call"].split(".")
    fn = getattr(ns[obj], meth)
    inp = step["input"]
    if "arg" in step:                      # full argument + the holder field to look at (two-tagger probe)
        try:
            r = fn(step["arg"])
        except Exception as e:  # noqa: BLE001 - classified below
            return outcome_of_exc(e)
        return ("inst", type(getattr(r, step["pick"])).__name__)
    if step.get("multi"):                  # one call of a holder with several discriminated fields
        ents = step["multi"]
        if len(ents[0]) > 3:               # the sites are the positions of ONE field: v: Tuple[<site 0>, <site 1>, ...]
            arg = [SHAPES[e[1]][1](e[2]) for e in ents]
            if ents[0][0] is not None:     # (field name None: the Tuple is the type of a BasicDecoder)
                arg = {ents[0][0]: arg}
        else:
            arg = {e[0]: SHAPES[e[1]][1](e[2]) for e in ents}
        try:
            r = fn(arg, dialect=ns[step["dialect"]]) if step.get("dialect") else fn(arg)
            return ("many", [type(SHAPES[e[1]][2]((r if e[0] is None else getattr(r, e[0]))[e[3]] if len(e) > 3 else getattr(r, e[0]))).__name__
                             for e in ents])
        except Exception as e:  # noqa: BLE001 - classified below
            return outcome_of_exc(e)
    shape = SHAPES[step["shape"]] if step.get("shape") else None
    arg = shape[1](inp) if shape else inp
    if step.get("holder"):
        arg = {"v": arg}
    if step.get("fmt"):
        fn = getattr(ns[obj], FMT_CALL[step["fmt"]])
        arg = fmt_encode(step["fmt"], arg)
    try:
        r = fn(arg, dialect=ns[step["dialect"]]) if step.get("dialect") else fn(arg)
        if step.get("holder"):
            r = r.v
        if shape:
            r = shape[2](r)
    except Exception as e:  # noqa: BLE001 - classified below
        return outcome_of_exc(e)
    return ("inst", type(r).__name__)


# ---------------------------------------------------------------------------
# independent oracle of the property text (no walk, no registry: issubclass + own __dict__)
# ---------------------------------------------------------------------------

def spec_eligible(ns: dict, n_classes: int, s: dict) -> list:
    bases = [ns[f"C{b}"] for b in s["bases"]]
    eff_sup = s["sup"] and not s["config"]          # README: class-level discriminator cannot include the class itself
    out = []
    for i in range(n_classes):
        c = ns[f"C{i}"]
        if (s["sub"] and any(c is not b and issubclass(c, b) for b in bases)) or (eff_sup and c in bases):
            out.append(c)
    return out


def spec_own_tags(ns: dict, c, s: dict) -> list:
    if s["tagger"]:
        v = ns["TAGS"][s.get("tgid", 0)].get(c.__name__, [])
        return v if type(v) is list else [v]
    fname = FIELDS[s.get("fid", 0)]
    return [c.__dict__[fname]] if fname in c.__dict__ else []


def has_cfg(c) -> bool:
    """the class itself declares a class-level discriminator (it is a dispatcher over its strict subclasses)"""
    cfg = c.__dict__.get("Config")
    return cfg is not None and getattr(cfg, "discriminator", None) is not None


def spec_field(ns: dict, n_classes: int, s: dict, inp: dict):
    """-> (expected outcome | None when the property is silent, uniqueness flag | None)"""
    fname = FIELDS[s.get("fid", 0)]
    if fname not in inp:             # key absent (a key present with a falsy value or None is present)
        return ("missing",), None
    t = inp[fname]
    try:
        hash(t)
    except TypeError:                # a value that cannot be a dict key is nobody's tag (/repo db5b89f)
        return ("notfound",), None
    car = [c for c in spec_eligible(ns, n_classes, s) if any(t == v for v in spec_own_tags(ns, c, s))]
    if len(car) == 1:
        c = car[0]
        if has_cfg(c):
            # the selected class is itself a discriminated base "via Config": its from_dict is again a decode event of
            # the property, with the class's own settings (read from the real class) on the same input.  For the same key
            # this yields the documented SuitableVariantNotFound (a class-level discriminator never produces its own
            # class); for another key an absent inner key must surface as MissingDiscriminatorError.
            d = c.__dict__["Config"].discriminator
            if d.field is None or d.field not in FIELDS:
                return None, True
            inner = {"bases": [int(c.__name__[1:])], "sub": True, "sup": False, "config": True, "field": True,
                     "tagger": d.variant_tagger_fn is not None, "fid": FIELDS.index(d.field),
                     "tgid": 1 if d.variant_tagger_fn is ns.get("tagger1") else 0}
            return spec_field(ns, n_classes, inner, inp)[0], True
        if leaks_keyerror(ns, c, inp):     # the selected class's own from_dict raises KeyError: that error (or anything but
            return ("keyerr", c.__name__), True      # "no suitable variant") surfaces (/repo 2eac3a7)
        if leaks_keyerror(ns, c, inp, "aerr"):
            return ("attrerr", c.__name__), True
        if not spec_accepts(ns, c, inp):   # selected, but the class itself rejects the input: its own error surfaces
            return ("rej", c.__name__), True
        return ("inst", c.__name__), True
    if not car:
        return ("notfound",), True
    return None, False


def leaks_keyerror(ns: dict, c, inp: dict, marker: str = "kerr") -> bool:
    hook = getattr(c, "__pre_deserialize__", None)
    return hook is not None and getattr(hook, "__func__", None) is ns.get("kerr_hook") and marker in inp


def spec_accepts(ns: dict, c, inp: dict) -> bool:
    if leaks_keyerror(ns, c, inp) or leaks_keyerror(ns, c, inp, "aerr"):
        return False
    return all(f.name in inp for f in dataclasses.fields(c)
               if f.init and f.default is dataclasses.MISSING and f.default_factory is dataclasses.MISSING)


def spec_nofield_check(ns: dict, n_classes: int, s: dict, inp: dict, obs) -> tuple[str | None, list, list]:
    """None if the observation satisfies the property text, else what is wrong.
    Also returns (accepting strict subclasses, accepting supertypes)."""
    bases = [ns[f"C{b}"] for b in s["bases"]]
    el = spec_eligible(ns, n_classes, s)
    if any(has_cfg(c) for c in el):  # (X1) = hypothesis no_nested of C12_nofield: the property is silent
        return None, [], []
    subs = [c for c in el if any(c is not b and issubclass(c, b) for b in bases) and s["sub"]]
    acc_sub = [c for c in subs if spec_accepts(ns, c, inp)]
    acc_all = [c for c in el if spec_accepts(ns, c, inp)]
    acc_sup = [c for c in acc_all if c not in subs]
    if obs[0] == "notfound":
        return ("no class chosen although " + acc_all[0].__name__ + " is eligible and accepts" if acc_all else None), acc_sub, acc_sup
    if obs[0] != "inst":
        return "undocumented outcome " + obs[0], acc_sub, acc_sup
    names = {c.__name__: c for c in el}
    if obs[1] not in names:
        return f"{obs[1]} is not eligible", acc_sub, acc_sup
    c = names[obs[1]]
    if not spec_accepts(ns, c, inp):
        return f"{obs[1]} does not accept the input", acc_sub, acc_sup
    if c not in subs and acc_sub:
        return f"supertype {obs[1]} chosen although subclass {acc_sub[0].__name__} accepts", acc_sub, acc_sup
    return None, acc_sub, acc_sup


def shadowed(ns: dict, n_classes: int) -> set:
    """plain classes that *inherit* a compiled __mashumaro_from_dict__ from another class"""
    out = set()
    for i in range(n_classes):
        c = ns[f"C{i}"]
        if "__mashumaro_from_dict__" not in c.__dict__ and hasattr(c, "__mashumaro_from_dict__"):
            out.add(c.__name__)
    return out


# ---------------------------------------------------------------------------
# running one history: observed outcomes + oracle verdicts
# ---------------------------------------------------------------------------

WALKS: list = []          # filled by run_history when COLLECT_WALKS[0] > 0: (ops, class id, real iter_all_subclasses as ids)
COLLECT_WALKS = [0]


def run_history(h: Hist):
    """-> (observed per op (None for define), flags per op, failures [(step index, what, expected, observed, signature)])"""
    sb = Sandbox()
    ns = sb.ns
    observed: list = [None] * len(h.ops)
    flags: list = [None] * len(h.ops)
    fails = []
    n_classes = 0
    hung = False
    try:
        for k, step in enumerate(h.script):
            oi = h.op_of_step[k]
            if step["op"] == "exec":
                try:
                    with cpu_watchdog(5.0):
                        sb.exec_step(step, str(k))
                except DecodeTimeout:
                    fails.append((k, f"definition step {k} does not return (watchdog)", "the definition completes", fmt(("hang",)),
                                  {"kind": "dispatch-hang", "wiring": "define"}))
                    break
                if oi is not None:
                    n_classes += 1
                continue
            if hung:
                break
            op = h.ops[oi]
            if op[0] == "decodeseq":
                # one call of a holder with several discriminated fields: every field by its own site, first error wins
                obs = do_decode(ns, step)
                if obs == ("hang",):
                    # never silent, whatever the oracle has to say about the expected class: the call did not return
                    hung = True
                    observed[oi] = obs
                    fails.append((k, f"{call_label(step)}({step.get('input')}) does not return (CPU-time watchdog)", "an instance or a documented error",
                                  fmt(obs), {"kind": "dispatch-hang", "wiring": "any"}))
                    continue
                observed[oi] = obs
                exp = ("many", [])
                for (si, _, _), ent in zip(op[1], step["multi"]):
                    e1, _ = spec_field(ns, n_classes, h.sites[si], ent[2])
                    if e1 is None:
                        exp = None
                        break
                    if e1[0] != "inst":
                        exp = e1
                        break
                    exp[1].append(e1[1])
                if exp is not None and exp != obs:
                    kf = exp[0] == "keyerr" and obs == ("notfound",)
                    kf2 = obs == ("crash",) and any(site_has_none(h.sites[si]) and h.sites[si]["sup"] and h.sites[si]["tagger"] for si, _, _ in op[1])
                    fails.append((k, f"{step['call']}({ [e[2] for e in step['multi']] }) -> {fmt(obs)}, expected {fmt(exp)}",
                                  fmt(exp), fmt(obs), {"kind": "variant-keyerror-misreported" if kf else
                                                       "optional-union-nonetype-variant" if kf2 else "field-dispatch", "wiring": "holder-multi"}))
                continue
            s = h.sites[op[1]]
            if op[0] == "decodebad":
                obs = do_decode(ns, step)
                if obs == ("hang",):
                    # never silent, whatever the oracle has to say about the expected class: the call did not return
                    hung = True
                    observed[oi] = obs
                    fails.append((k, f"{call_label(step)}({step.get('input')}) does not return (CPU-time watchdog)", "an instance or a documented error",
                                  fmt(obs), {"kind": "dispatch-hang", "wiring": "any"}))
                    continue
                observed[oi] = obs
                # a field dispatcher names the problem (ValueError, /repo 60866ea); without a key nobody accepts the input
                exp = ("notdict",) if s["field"] else ("notfound",)
                if obs != exp and (s["field"] or obs[0] == "inst"):
                    fails.append((k, f"{call_label(step)}({step['input']!r}) -> {fmt(obs)}, expected {fmt(exp)}", fmt(exp), fmt(obs),
                                  {"kind": "non-mapping-input", "wiring": s["wiring"]}))
                continue
            shadow = shadowed(ns, n_classes) if not s["field"] else set()
            obs = do_decode(ns, step)
            if obs == ("hang",):
                # never silent, whatever the oracle has to say about the expected class: the call did not return
                hung = True
                observed[oi] = obs
                fails.append((k, f"{call_label(step)}({step.get('input')}) does not return (CPU-time watchdog)", "an instance or a documented error",
                              fmt(obs), {"kind": "dispatch-hang", "wiring": "any"}))
                continue
            observed[oi] = obs
            if s["field"]:
                exp, uq = spec_field(ns, n_classes, s, step["input"])
                flags[oi] = uq
                if exp is not None and exp != obs:
                    kf = exp[0] == "keyerr" and obs == ("notfound",)
                    kf2 = obs == ("crash",) and site_has_none(s) and s["sup"] and s["tagger"] and s["wiring"] == "holder"
                    fails.append((k, f"{call_label(step)}({step['input']}) -> {fmt(obs)}, expected {fmt(exp)}",
                                  fmt(exp), fmt(obs), {"kind": "variant-keyerror-misreported" if kf else
                                                       "optional-union-nonetype-variant" if kf2 else "field-dispatch", "wiring": s["wiring"]}))
            else:
                why, acc_sub, acc_sup = spec_nofield_check(ns, n_classes, s, step["input"], obs)
                if why is not None:
                    should = acc_sub if acc_sub else acc_sup
                    sig = {"kind": "nofield-dispatch", "wiring": s["wiring"]}
                    fails.append((k, f"{call_label(step)}({step['input']}) -> {fmt(obs)}: {why}",
                                  "one of " + ",".join(c.__name__ for c in should) if should else "SuitableVariantNotFoundError",
                                  fmt(obs), sig))
        if COLLECT_WALKS[0] > 0:
            COLLECT_WALKS[0] -= 1
            from mashumaro.core.meta.helpers import iter_all_subclasses
            for cid in range(n_classes):
                try:
                    w = [int(x.__name__[1:]) for x in iter_all_subclasses(ns[f"C{cid}"])]
                except Exception:  # noqa: BLE001 - a non-class name: forces a mismatch
                    w = [999999]
                WALKS.append(([o for o in h.ops if o[0] == "define"], cid, w))
    finally:
        sb.close()
    return observed, flags, fails


def fmt(o) -> str:
    if o is None:
        return "-"
    if o[0] == "inst":
        return o[1]
    if o[0] == "rej":
        return "rejected by " + o[1]
    if o[0] == "keyerr":
        return "KeyError of " + o[1]
    if o[0] == "attrerr":
        return "AttributeError of " + o[1]
    if o[0] == "many":
        return "+".join(o[1])
    if o[0] == "notdict":
        return "ValueError(should be a dict instance)"
    if o[0] == "crash":
        return "TypeError(compiling NoneType)"
    if o[0] == "hang":
        return "NO RETURN (watchdog: dispatcher recursion / livelock)"
    return {"missing": "MissingDiscriminatorError", "notfound": "SuitableVariantNotFoundError"}.get(o[0], o[0])


# ---------------------------------------------------------------------------
# Coq rendering
# ---------------------------------------------------------------------------

def coq_nats(l) -> str:
    return "[" + "; ".join(str(int(x)) for x in l) + "]"


def coq_pairs(d: dict) -> str:
    return "[" + "; ".join(f"({int(k)}, {int(v)})" for k, v in sorted(d.items())) + "]"


def coq_inkeys(d: dict) -> str:
    return "[" + "; ".join(f"({int(k)}, {'Unhashable' if v == 'U' else 'Hashable %d' % int(v)})" for k, v in sorted(d.items())) + "]"


def site_has_none(s: dict) -> bool:
    """Annotated[Optional[Union[A, B]], D] flattens to Union[A, B, None]: NoneType is one of the base variants"""
    return False      # fixed in /repo (C12-optional-union-nonetype-variant): None is dropped from the base variants


def coq_site(s: dict) -> str:
    b = vlib.coq_bool
    return (f"Site {coq_nats(s['bases'])} {b(s['sub'])} {b(s['sup'])} {b(s['field'])} {b(s['tagger'])} {b(s['config'])} "
            f"{b(s['wiring'] == 'codec')} {int(s.get('fid', 0))} {int(s.get('tgid', 0))} {b(site_has_none(s))}")


def coq_op(op) -> str:
    if op[0] == "define":
        _, ps, tg, tt, rq, ke = op
        tts = "[" + "; ".join(f"({int(g)}, {coq_nats(l)})" for g, l in sorted(tt.items())) + "]"
        return f"Define {coq_nats(ps)} {coq_pairs(tg)} {tts} {coq_nats(rq)} {vlib.coq_bool(ke)}"
    if op[0] == "decodeseq":
        return "DecodeSeq [" + "; ".join(f"({si}, {coq_inkeys(k)}, {coq_nats(pr)})" for si, k, pr in op[1]) + "]"
    if op[0] == "decodebad":
        return f"DecodeBad {op[1]}"
    _, si, keys, present = op[:4]
    if len(op) > 4 and op[4]:
        return f"DecodeF {int(op[4])} {si} {coq_inkeys(keys)} {coq_nats(present)}"
    return f"Decode {si} {coq_inkeys(keys)} {coq_nats(present)}"


def coq_outcome(o) -> str:
    if o is None:
        return "None"
    if o[0] == "inst":
        name = o[1]
        if name.startswith("C") and name[1:].isdigit():
            return f"Some (OInst {int(name[1:])})"
        return "Some OBadSite"
    if o[0] == "missing":
        return "Some OMissing"
    if o[0] == "notfound":
        return "Some ONotFound"
    if o[0] == "notdict":
        return "Some ONotDict"
    if o[0] == "crash":
        return "Some OCrash"
    if o[0] == "keyerr" and o[1].startswith("C") and o[1][1:].isdigit():
        return f"Some (OKeyErr {int(o[1][1:])})"
    if o[0] == "attrerr" and o[1].startswith("C") and o[1][1:].isdigit():
        return f"Some (OAttrErr {int(o[1][1:])})"
    if o[0] == "rej" and o[1].startswith("C") and o[1][1:].isdigit():
        return f"Some (ORej {int(o[1][1:])})"
    if o[0] == "many" and all(n.startswith("C") and n[1:].isdigit() for n in o[1]):
        return "Some (OMany " + coq_nats([int(n[1:]) for n in o[1]]) + ")"
    return "Some OBadSite"          # never produced by the model on a valid site: forces a mismatch


def coq_flag(f) -> str:
    return "None" if f is None else f"Some {vlib.coq_bool(f)}"


def coq_case(h: Hist, observed, flags) -> str:
    return ("(" + vlib.coq_list([coq_site(s) for s in h.sites]) + ",\n    " + vlib.coq_list([coq_op(o) for o in h.ops])
            + ",\n    " + vlib.coq_list([coq_outcome(o) for o in observed]) + ",\n    " + vlib.coq_list([coq_flag(f) for f in flags]) + ")")


# ---------------------------------------------------------------------------
# fixed edge histories the proofs care about (always part of the correspondence)
# ---------------------------------------------------------------------------

def build_fixed(kind: str, style: str, classes_spec: list, sites_spec: list, events: list) -> Hist:
    """classes_spec entries: dict(parents, own_tag, ttags, own_req, decl, plain, config); events: ("define", idx) |
    ("site", idx) | ("decode", site idx, tag|None, present)"""
    classes, sites, ops = [], [], []
    script = [{"op": "exec", "src": PREAMBLE}]
    op_of_step = [None]
    site_index = {}
    for ev in events:
        if ev[0] == "define":
            spec = dict(classes_spec[ev[1]])
            own_tags = dict(spec.get("own_tags") or ({0: spec["own_tag"]} if spec.get("own_tag") is not None else {}))
            tt = spec.get("ttags", {} if kind == "field" else None)
            if isinstance(tt, list):
                tt = {0: tt}
            c = {"id": len(classes), "parents": spec.get("parents", []), "own_tags": own_tags,
                 "ttags": tt, "ttag_bare": spec.get("bare", False), "kerr": spec.get("kerr", False),
                 "own_js": {fid: spec.get("own_j", 0) for fid in own_tags}, "ttag_js": spec.get("ttag_js"),
                 "own_req": spec.get("own_req", []), "decl": spec.get("decl", "field"), "plain": spec.get("plain", False),
                 "config": spec.get("config"), "fmtmix": spec.get("fmtmix", False)}
            classes.append(c)
            ops.append(("define", list(c["parents"]), dict(own_tags), {g: list(t) for g, t in (tt or {}).items()},
                        list(c["own_req"]) if kind != "field" else [], c["kerr"]))
            script.append({"op": "exec", "src": class_src(c, style, kind)})
            op_of_step.append(len(ops) - 1)
            if c["config"] is not None:
                s = dict(c["config"])
                s.setdefault("fid", 0)
                s.setdefault("tgid", 0)
                s.update({"wiring": "config", "bases": [c["id"]], "config": True, "name": f"C{c['id']}"})
                site_index[("config", c["id"])] = len(sites)
                sites.append(s)
        elif ev[0] == "site":
            spec = dict(sites_spec[ev[1]])
            wiring, shape = spec["wiring"], spec.get("shape", "plain")
            if wiring == "holder_list":
                wiring, shape = "holder", "list"
            s = {"wiring": wiring, "bases": spec["bases"], "sub": spec.get("sub", True), "sup": spec.get("sup", False),
                 "field": spec.get("field", kind != "nofield"), "tagger": spec.get("tagger", False), "config": False, "fid": spec.get("fid", 0),
                 "tgid": spec.get("tgid", 0), "dialects": spec.get("dialects", False), "formats": spec.get("formats", False),
                 "shape": shape, "name": ("DEC" if wiring == "codec" else "H") + str(len(sites))}
            site_index[("site", ev[1])] = len(sites)
            sites.append(s)
            if (s["dialects"] or s["formats"]) and wiring == "holder":      # one model site (own registries) per call-time dialect / format
                sites.append(dict(s))
                sites.append(dict(s))
            script.append({"op": "exec", "src": site_create_src(s), **({"module": "b"} if spec.get("module") == "b" else {})})
            op_of_step.append(None)
        else:
            _, skey, t, present = ev[:4]
            j = ev[4] if len(ev) > 4 else 0
            si = site_index[skey]
            s = sites[si]
            fmt_id = FMT_KEYS.get(ev[6], 0) if len(ev) > 6 else 0
            if len(ev) > 6 and ev[6] and (s.get("dialects") or s.get("formats")) and s["wiring"] == "holder":
                si += {"D1": 1, "D2": 2, "F1": 1, "F2": 2}[ev[6]]
            inp = {}
            keys = {}
            if kind != "nofield":
                if t is not None:
                    keys[s.get("fid", 0)] = t
                if len(ev) > 5:                      # further keys {key id: tag}
                    keys.update(ev[5])
                for fid, tg in keys.items():
                    inp[FIELDS[fid]] = tag_value(style, tg, j)
            if kind != "field":
                for f in present:
                    if f == KERR_MARKER:
                        inp["kerr"] = 1
                    elif f == AERR_MARKER:
                        inp["aerr"] = 1
                    else:
                        inp[f"f{f}"] = f
            else:
                if KERR_MARKER in present:
                    inp["kerr"] = 1
                if AERR_MARKER in present:
                    inp["aerr"] = 1
            ops.append(("decode", si, keys, list(present)) + ((fmt_id,) if fmt_id else ()))
            st_ = decode_step(s, inp)
            if fmt_id:
                st_["fmt"] = fmt_id
            elif len(ev) > 6 and ev[6]:
                st_["dialect"] = ev[6]
            script.append(st_)
            op_of_step.append(len(ops) - 1)
    return Hist(kind, style, sites, ops, script, op_of_step,
                {"kind": kind, "style": style, "unique": None, "classes": classes, "stream": "fixed"})


def fixed_multi() -> Hist:
    """ONE holder with two discriminated fields over two hierarchies: own key, own tagger function, own registry per field;
    the same tag value means different classes at the two sites; late subclass; first failing field decides"""
    style, kind = "str", "field"
    mk = lambda cid, parents, tt: {"id": cid, "parents": parents, "own_tags": {}, "ttags": tt, "ttag_bare": False, "own_js": {},
                                   "ttag_js": None, "kerr": False, "own_req": [], "decl": "plain", "plain": False, "config": None}
    cls_ = [mk(0, [], {0: [], 1: []}), mk(1, [], {0: [], 1: []}), mk(2, [0], {0: [5], 1: [6]}), mk(3, [1], {0: [6], 1: [5]}),
            mk(4, [1], {0: [5], 1: [7]})]
    sites = [{"wiring": "holder", "bases": [0], "sub": True, "sup": False, "field": True, "tagger": True, "config": False, "fid": 0,
              "tgid": 0, "shape": "plain", "name": "H0", "vfield": "v0", "dialects": False},
             {"wiring": "holder", "bases": [1], "sub": True, "sup": False, "field": True, "tagger": True, "config": False, "fid": 1,
              "tgid": 1, "shape": "a_list", "name": "H0", "vfield": "v1", "dialects": False}]
    ops, script, op_of_step = [], [{"op": "exec", "src": PREAMBLE}], [None]

    def define(c):
        ops.append(("define", list(c["parents"]), {}, {g: list(t) for g, t in c["ttags"].items()}, [], False))
        script.append({"op": "exec", "src": class_src(c, style, kind)})
        op_of_step.append(len(ops) - 1)

    def call(k0, k1):
        parts = [(0, {0: k0} if k0 is not None else {}), (1, {1: k1} if k1 is not None else {})]
        ops.append(("decodeseq", [(si, dict(k), []) for si, k in parts]))
        script.append({"op": "decode", "call": "H0.from_dict", "holder": False, "shape": None, "input": None,
                       "multi": [[sites[si]["vfield"], sites[si]["shape"], {FIELDS[f]: tag_value(style, t) for f, t in k.items()}]
                                 for si, k in parts]})
        op_of_step.append(len(ops) - 1)

    for c in cls_[:4]:
        define(c)
    script.append({"op": "exec", "src": "@dataclass\nclass H0(DataClassDictMixin):\n" + "".join(
        f"    {s_['vfield']}: {site_type_src(s_)}\n" for s_ in sites)})
    op_of_step.append(None)
    for k0, k1 in [(5, 5), (5, 6), (6, 5), (5, None), (None, 5), (5, 7)]:
        call(k0, k1)
    define(cls_[4])
    for k0, k1 in [(5, 7), (5, 5), (9, 7), (5, 9)]:
        call(k0, k1)
    return Hist(kind, style, sites, ops, script, op_of_step,
                {"kind": kind, "style": style, "unique": None, "classes": cls_, "stream": "fixed"})


def fixed_twin() -> Hist:
    """ONE field with two discriminated positions (v: Tuple[Annotated[C0, D], Annotated[C1, D]]) whose Discriminators are
    EQUAL (same key, same flags) over two different hierarchies: each position has its own registry - a tag of the other
    hierarchy is unknown here, also after the other position has registered it; late subclasses in both hierarchies"""
    style, kind = "str", "field"
    mk = lambda cid, parents, tag: {"id": cid, "parents": parents, "own_tags": ({0: tag} if tag is not None else {}), "ttags": None,
                                    "ttag_bare": False, "own_js": {}, "ttag_js": None, "kerr": False, "own_req": [], "decl": "plain",
                                    "plain": False, "config": None}
    cls_ = [mk(0, [], None), mk(1, [], None), mk(2, [0], 5), mk(3, [1], 6), mk(4, [1], 7), mk(5, [0], 8)]
    sites = [{"wiring": "holder", "bases": [j], "sub": True, "sup": False, "field": True, "tagger": False, "config": False, "fid": 0,
              "tgid": 0, "shape": "plain", "name": "H0", "vfield": "v", "pos": j, "dialects": False} for j in (0, 1)]
    ops, script, op_of_step = [], [{"op": "exec", "src": PREAMBLE}], [None]

    def define(c):
        ops.append(("define", list(c["parents"]), dict(c["own_tags"]), {}, [], False))
        script.append({"op": "exec", "src": class_src(c, style, kind)})
        op_of_step.append(len(ops) - 1)

    def call(k0, k1):
        parts = [(0, {0: k0}), (1, {0: k1})]
        ops.append(("decodeseq", [(si, dict(k), []) for si, k in parts]))
        script.append({"op": "decode", "call": "H0.from_dict", "holder": False, "shape": None, "input": None,
                       "multi": [["v", "plain", {FIELDS[f]: tag_value(style, t) for f, t in k.items()}, si] for si, k in parts]})
        op_of_step.append(len(ops) - 1)

    for c in cls_[:4]:
        define(c)
    script.append({"op": "exec", "src": "@dataclass\nclass H0(DataClassDictMixin):\n    v: Tuple[" +
                   ", ".join(site_type_src(s_) for s_ in sites) + "]\n"})
    op_of_step.append(None)
    for k0, k1 in [(5, 6), (5, 5), (6, 6), (5, 7)]:
        call(k0, k1)
    define(cls_[4])
    define(cls_[5])
    for k0, k1 in [(8, 7), (7, 7), (8, 8), (5, 6)]:
        call(k0, k1)
    return Hist(kind, style, sites, ops, script, op_of_step,
                {"kind": kind, "style": style, "unique": None, "classes": cls_, "stream": "fixed"})


def fixed_histories() -> list[Hist]:
    out = [fixed_multi(), fixed_twin()]
    cfg = {"field": True, "sub": True, "sup": False, "tagger": False}
    for style in ("str", "int", "enum"):
        # class defined after the first call / after decoder creation; class without own tag; three levels
        cl = [dict(config=cfg), dict(parents=[0], own_tag=1), dict(parents=[1]), dict(parents=[2], own_tag=3, decl="classvar"),
              dict(parents=[0], own_tag=4, decl="literal")]
        st = [dict(wiring="codec", bases=[0]), dict(wiring="holder", bases=[0]), dict(wiring="holder_list", bases=[1], sup=True)]
        ev = [("define", 0), ("site", 0), ("decode", ("config", 0), 1, []), ("decode", ("site", 0), 1, []),
              ("define", 1), ("decode", ("config", 0), 1, []), ("decode", ("site", 0), 1, []), ("site", 1),
              ("define", 2), ("decode", ("site", 1), 1, []), ("define", 3), ("decode", ("config", 0), 3, []),
              ("decode", ("site", 0), 3, []), ("decode", ("site", 1), 3, []), ("site", 2), ("decode", ("site", 2), 1, []),
              ("decode", ("site", 2), 3, []), ("decode", ("site", 2), 4, []), ("define", 4), ("decode", ("site", 2), 4, []),
              ("decode", ("config", 0), 4, []), ("decode", ("site", 0), None, []), ("decode", ("config", 0), None, []),
              ("decode", ("site", 1), None, []), ("decode", ("site", 1), 9, [])]
        out.append(build_fixed("field", style, cl, st, ev))
    # non-unique tags: the stale registry answers with the first class, a fresh registry with the last one
    cl = [dict(), dict(parents=[0], own_tag=1), dict(parents=[0], own_tag=1)]
    st = [dict(wiring="codec", bases=[0]), dict(wiring="codec", bases=[0])]
    ev = [("define", 0), ("define", 1), ("site", 0), ("decode", ("site", 0), 1, []), ("define", 2), ("site", 1),
          ("decode", ("site", 0), 1, []), ("decode", ("site", 1), 1, [])]
    out.append(build_fixed("field", "str", cl, st, ev))
    out[-1].meta["tag"] = "nonunique"
    # formats: a class-level root whose mixins provide from_msgpack / (orjson) from_json.  ONE registry for the three
    # dispatchers; a variant registered by from_dict has no msgpack method yet (hit without own method = miss -> refill);
    # classes defined between calls in different formats; a nested class-level dispatcher (class 3, key "kind") entered
    # in every format; a holder with formats (own registries per format) over the same hierarchy; non-unique tail: the
    # duplicate of tag 7 (class 7) is invisible to from_dict (stale hit on class 6) until a call in another format finds
    # class 6 without its own method and refills
    cfg2 = {"field": True, "sub": True, "sup": False, "tagger": False, "fid": 1}
    cl = [dict(config=cfg, fmtmix=True, decl="plain"), dict(parents=[0], own_tag=1, decl="plain"), dict(parents=[0], own_tag=2, decl="plain"),
          dict(parents=[0], own_tags={0: 3}, config=cfg2, decl="plain"), dict(parents=[3], own_tags={1: 4}, decl="plain"),
          dict(parents=[1], own_tag=5, decl="plain"), dict(parents=[0], own_tag=7, decl="plain"), dict(parents=[0], own_tag=7, decl="plain")]
    st = [dict(wiring="holder", bases=[0], formats=True)]
    ev = [("define", 0), ("define", 1), ("decode", ("config", 0), 1, []), ("define", 2),
          ("decode", ("config", 0), 1, [], 0, {}, "F1"), ("decode", ("config", 0), 2, []), ("decode", ("config", 0), 2, [], 0, {}, "F2"),
          ("decode", ("config", 0), None, [], 0, {}, "F1"), ("decode", ("config", 0), 9, [], 0, {}, "F2"),
          ("define", 3), ("define", 4), ("decode", ("config", 0), 3, [], 0, {1: 4}, "F1"), ("decode", ("config", 0), 3, [], 0, {1: 4}),
          ("decode", ("config", 3), None, [], 0, {1: 4}, "F2"), ("decode", ("config", 0), 3, [], 0, {}, "F2"),
          ("site", 0), ("decode", ("site", 0), 1, [], 0, {}, "F1"), ("define", 5), ("decode", ("site", 0), 5, [], 0, {}, "F1"),
          ("decode", ("site", 0), 5, []), ("decode", ("site", 0), 3, [], 0, {1: 4}, "F2"), ("decode", ("config", 0), 5, [], 0, {}, "F2"),
          ("decode", ("config", 0), 5, []),
          ("define", 6), ("decode", ("config", 0), 7, []), ("define", 7), ("decode", ("config", 0), 7, []),
          ("decode", ("config", 0), 7, [], 0, {}, "F1"), ("decode", ("config", 0), 7, []), ("decode", ("site", 0), 7, [], 0, {}, "F2"),
          ("decode", ("site", 0), 7, [])]
    out.append(build_fixed("field", "str", cl, st, ev))
    out[-1].meta["tag"] = "formats"
    # tagger with list / bare results, config wiring with include_supertypes (dropped by the builder)
    cfgt = {"field": True, "sub": True, "sup": True, "tagger": True}
    cl = [dict(config=cfgt, ttags=[0]), dict(parents=[0], ttags=[1, 2]), dict(parents=[1], ttags=[3], bare=True), dict(parents=[0], ttags=[])]
    ev = [("define", 0), ("decode", ("config", 0), 0, []), ("define", 1), ("decode", ("config", 0), 2, []), ("define", 2),
          ("define", 3), ("decode", ("config", 0), 3, []), ("decode", ("config", 0), 0, []), ("decode", ("config", 0), 1, [])]
    out.append(build_fixed("field", "mixed", cl, [], ev))
    # tag VALUE spectrum: falsy tags (0 / False / 0.0 / IntEnum 0, '', None as a value), True vs 1, a key that is present
    # with a falsy value that nobody carries, and the really absent key - through all three wirings
    sp = "spectrum:0,2,3,1,4"          # ids: 0 -> {0,False,0.0,IE.Z0}  1 -> {'',SE.EMPTY}  2 -> {None}  3 -> {1,True,1.0,IE.Z1}  4 -> {'0'}
    for decl, js in (("plain", (1, 1, 0, 3)), ("literal", (0, 0, 0, 0))):
        cl = [dict(config=cfg), dict(parents=[0], own_tag=0, decl=decl, own_j=js[0]), dict(parents=[0], own_tag=1, decl=decl, own_j=js[1]),
              dict(parents=[1], own_tag=2, decl=decl, own_j=js[2]), dict(parents=[0], own_tag=3, decl=decl, own_j=js[3])]
        st = [dict(wiring="codec", bases=[0]), dict(wiring="holder", bases=[0]), dict(wiring="holder_list", bases=[1], sup=True)]
        ev = [("define", 0), ("site", 0), ("site", 1), ("define", 1), ("define", 2)]
        for skey in (("config", 0), ("site", 0), ("site", 1)):
            ev += [("decode", skey, 0, [], 0), ("decode", skey, 1, [], 0), ("decode", skey, 2, [], 0), ("decode", skey, None, [])]
        ev += [("define", 3), ("define", 4), ("site", 2)]
        for skey in (("config", 0), ("site", 0), ("site", 1), ("site", 2)):
            ev += [("decode", skey, 2, [], 0), ("decode", skey, 3, [], 0), ("decode", skey, 0, [], 0), ("decode", skey, 4, [], 0),
                   ("decode", skey, None, [])]
            if decl == "plain":      # other ==-equal spellings of the same tags in the input
                ev += [("decode", skey, 0, [], 1), ("decode", skey, 0, [], 2), ("decode", skey, 3, [], 1), ("decode", skey, 3, [], 2)]
        out.append(build_fixed("field", sp, cl, st, ev))
    # two levels of class-level dispatchers looking at DIFFERENT keys (outer "type", inner "kind"): valid outer tag with
    # the inner key absent / present / unknown, through the Config root, a codec and a holder; stale and fresh registries
    cfg_in = {"field": True, "sub": True, "sup": False, "tagger": False, "fid": 1}
    cl = [dict(config=cfg), dict(parents=[0], own_tag=1, config=cfg_in, decl="plain"), dict(parents=[1], own_tags={1: 2}, decl="plain"),
          dict(parents=[1], own_tags={1: 3, 0: 4}, decl="plain"), dict(parents=[0], own_tag=5, decl="plain")]
    st = [dict(wiring="codec", bases=[0]), dict(wiring="holder", bases=[0], shape="a_opt")]
    ev = [("define", 0), ("define", 1), ("site", 0), ("site", 1), ("define", 2)]
    for skey in (("config", 0), ("site", 0), ("site", 1)):
        ev += [("decode", skey, 1, []), ("decode", skey, 1, [], 0, {1: 2}), ("decode", skey, 1, [], 0, {1: 9}),
               ("decode", skey, None, [], 0, {1: 2}), ("decode", skey, 8, [])]
    ev += [("define", 3), ("define", 4)]
    for skey in (("config", 0), ("site", 0), ("site", 1), ("config", 1)):
        ev += [("decode", skey, 1, []), ("decode", skey, 1, [], 0, {1: 3}), ("decode", skey, 4, [], 0, {1: 3}),
               ("decode", skey, 5, []), ("decode", skey, None, [], 0, {1: 3})]
    out.append(build_fixed("field", "str", cl, st, ev))
    # every place the Discriminator annotation can sit (around / inside Optional, List, Dict, Tuple), holder and codec:
    # late subclass, unknown tag, absent key
    cl = [dict(), dict(parents=[0], own_tag=1), dict(parents=[1], own_tag=2, decl="classvar")]
    st = [dict(wiring=w, bases=[0], shape=sh) for sh in SHAPES for w in ("holder", "codec")]
    st += [dict(wiring="holder", bases=[0], shape=sh, module="b") for sh in ("plain", "a_list", "dict")]   # holder in another module
    ev = [("define", 0), ("define", 1)] + [("site", k) for k in range(len(st))]
    ev += [("decode", ("site", k), 1, []) for k in range(len(st))] + [("define", 2)]
    for k in range(len(st)):
        ev += [("decode", ("site", k), 2, []), ("decode", ("site", k), 7, []), ("decode", ("site", k), None, [])]
    out.append(build_fixed("field", "mixed", cl, st, ev))
    # call-time dialects: the FIRST call through a holder over plain variants carries dialect= (a variant compiled on demand
    # gets its default method, /repo 523ca35), later subclass, other dialect, no dialect; codec with default_dialect
    cl = [dict(plain=True), dict(parents=[0], own_tag=1, plain=True, decl="plain"), dict(parents=[1], own_tag=2, plain=True, decl="plain")]
    st = [dict(wiring="holder", bases=[0], dialects=True), dict(wiring="codec", bases=[0], dialects=True),
          dict(wiring="holder", bases=[0], dialects=True, shape="a_list")]
    ev = [("define", 0), ("define", 1), ("site", 0), ("site", 1), ("decode", ("site", 0), 1, [], 0, {}, "D1"),
          ("decode", ("site", 1), 1, []), ("define", 2), ("site", 2), ("decode", ("site", 2), 2, [], 0, {}, "D2"),
          ("decode", ("site", 0), 2, [], 0, {}, "D2"), ("decode", ("site", 0), 2, []), ("decode", ("site", 1), 2, []),
          ("decode", ("site", 2), 1, []), ("decode", ("site", 0), 7, [], 0, {}, "D1"), ("decode", ("site", 0), None, [], 0, {}, "D1")]
    out.append(build_fixed("field", "str", cl, st, ev))
    # mixed nesting: a no-field class-level dispatcher below a field one and a field one below a no-field one; a selected
    # class that rejects the input; a class whose own from_dict leaks a KeyError (known finding)
    cfg_nf = {"field": False, "sub": True, "sup": False, "tagger": False}
    cl = [dict(config=cfg), dict(parents=[0], own_tag=1, config=cfg_nf, decl="plain"), dict(parents=[1], own_req=[7]),
          dict(parents=[1], own_req=[8]), dict(parents=[1], own_req=[9], config=cfg), dict(parents=[4], own_tag=2, decl="plain"),
          dict(parents=[0], own_tag=3, decl="plain", kerr=True)]
    st = [dict(wiring="codec", bases=[0]), dict(wiring="holder", bases=[1], sup=True, field=False, shape="list")]
    ev = [("define", k) for k in range(7)] + [("site", 0), ("site", 1)]
    for skey in (("config", 0), ("site", 0)):
        ev += [("decode", skey, 1, [8]), ("decode", skey, 1, []), ("decode", skey, 2, []), ("decode", skey, 2, [9]),
               ("decode", skey, 3, []), ("decode", skey, 3, [KERR_MARKER]), ("decode", skey, 3, [AERR_MARKER]), ("decode", skey, None, [8])]
    for skey in (("config", 1), ("site", 1)):
        ev += [("decode", skey, 2, [9]), ("decode", skey, None, [9]), ("decode", skey, None, [7]), ("decode", skey, 1, []),
               ("decode", skey, None, [7, KERR_MARKER]), ("decode", skey, None, [7, AERR_MARKER])]
    out.append(build_fixed("mixed", "str", cl, st, ev))
    # known finding optional-union-nonetype-variant, in the model: Annotated[Optional[Union[C0, C1]], D(sup, tagger)] through
    # a holder - every registry miss crashes after registering the real classes, the same input works afterwards; a codec
    # with the same annotation is not affected
    cl = [dict(ttags=[5]), dict(parents=[0], ttags=[6]), dict(parents=[1], ttags=[7])]
    st = [dict(wiring="holder", bases=[0, 1], sub=True, sup=True, tagger=True, shape="a_opt"),
          dict(wiring="codec", bases=[0, 1], sub=True, sup=True, tagger=True, shape="a_opt"),
          dict(wiring="holder", bases=[0, 1], sub=False, sup=True, tagger=True, shape="a_listopt")]
    ev = [("define", 0), ("define", 1), ("site", 0), ("site", 1), ("site", 2)]
    for k in (0, 1, 2):
        ev += [("decode", ("site", k), 6, []), ("decode", ("site", k), 6, []), ("decode", ("site", k), 5, []), ("decode", ("site", k), 9, [])]
    ev += [("define", 2)]
    for k in (0, 1, 2):
        ev += [("decode", ("site", k), 7, []), ("decode", ("site", k), 7, []), ("decode", ("site", k), None, [])]
    out.append(build_fixed("field", "str", cl, st, ev))
    # nested class-level dispatchers: own registry per declaring class (and per codec), class-level form never yields itself
    cl = [dict(config=cfg), dict(parents=[0], own_tag=1, config=cfg, decl="plain"), dict(parents=[1], own_tag=2, decl="plain"),
          dict(parents=[0], own_tag=3, decl="plain"), dict(parents=[1], own_tag=4, decl="plain")]
    st = [dict(wiring="codec", bases=[0], sup=True), dict(wiring="holder", bases=[1], sup=True)]
    ev = [("define", 0), ("define", 1), ("define", 2), ("define", 3), ("site", 0), ("site", 1),
          ("decode", ("config", 0), 3, []), ("decode", ("config", 1), 3, []), ("decode", ("config", 1), 2, []),
          ("decode", ("config", 0), 2, []), ("decode", ("config", 0), 1, []), ("decode", ("site", 0), 2, []),
          ("decode", ("site", 0), 1, []), ("decode", ("site", 1), 1, []), ("decode", ("site", 1), 2, []), ("define", 4),
          ("decode", ("config", 1), 4, []), ("decode", ("site", 0), 4, []), ("decode", ("site", 1), 4, []),
          ("decode", ("config", 0), 4, []), ("decode", ("config", 1), 3, [])]
    out.append(build_fixed("field", "str", cl, st, ev))
    # no-field mode: subclasses before supertypes, walk order, late definitions, diamond
    cl = [dict(own_req=[0]), dict(parents=[0], own_req=[1]), dict(parents=[0], own_req=[2]), dict(parents=[1, 2], own_req=[3]),
          dict(parents=[2], own_req=[])]
    st = [dict(wiring="codec", bases=[0], sup=True), dict(wiring="holder", bases=[0], sup=True), dict(wiring="codec", bases=[1, 2], sub=False, sup=True)]
    ev = [("define", 0), ("site", 0), ("site", 1), ("decode", ("site", 0), None, [0]), ("decode", ("site", 1), None, [0]),
          ("define", 1), ("decode", ("site", 0), None, [0, 1]), ("decode", ("site", 1), None, [0, 1]), ("define", 2),
          ("decode", ("site", 0), None, [0, 2]), ("decode", ("site", 1), None, [0, 2]), ("define", 3), ("define", 4),
          ("decode", ("site", 0), None, [0, 1, 2, 3]), ("decode", ("site", 1), None, [0, 2]), ("decode", ("site", 0), None, [1]),
          ("site", 2), ("decode", ("site", 2), None, [0, 2]), ("decode", ("site", 2), None, [0, 1, 2, 3])]
    out.append(build_fixed("nofield", "str", cl, st, ev))
    return out


# ---------------------------------------------------------------------------
# static facts: which settings are rejected (the model's site_ok)
# ---------------------------------------------------------------------------

def check_site_ok(ctx: vlib.Ctx):
    from mashumaro.types import Discriminator
    bad = []
    try:
        Discriminator(field="type")
        bad.append("Discriminator without include_subtypes/include_supertypes was accepted")
    except ValueError:
        pass
    sb = Sandbox()
    try:
        exec(PREAMBLE, sb.ns)
        try:
            exec("@dataclass\nclass Z(DataClassDictMixin):\n    x: int = 0\n    class Config(BaseConfig):\n"
                 "        discriminator = Discriminator(field='type', include_supertypes=True)\n", sb.ns)
            bad.append("Config discriminator without include_subtypes was accepted")
        except ValueError:
            pass
    finally:
        sb.close()
    ctx.count(("site_ok", 2), n=2)
    for b in bad:
        ctx.fail(b, {"entry": "site_ok", "what": b}, {"kind": "site-ok"})


# ---------------------------------------------------------------------------
# several discriminated fields with different variant_tagger_fn in ONE holder: every field must be tagged by its own
# function (was known finding C12/tagger-fn-name-collision until fix 79143aa of /repo; now an ordinary positive case)
# ---------------------------------------------------------------------------

def probe_two_taggers(ctx: vlib.Ctx, n: int):
    rng = ctx.rng
    for _ in range(n):
        k = rng.choice([2, 2, 3])
        same = rng.random() < 0.25           # all fields share one function: must work
        src = ""
        nsub = []
        for i in range(k):
            src += f"def tg{i}(cls):\n    return 'p{0 if same else i}_' + cls.__name__\n"
            src += f"@dataclass\nclass B{i}(DataClassDictMixin):\n    x: int = 0\n"
            m = rng.randint(1, 3)
            nsub.append(m)
            for j in range(m):
                parent = f"B{i}" if j == 0 or rng.random() < 0.5 else f"B{i}S{j - 1}"
                src += f"@dataclass\nclass B{i}S{j}({parent}):\n    pass\n"
        fields = "".join(f"    f{i}: Annotated[B{i}, Discriminator(field='t', include_subtypes=True, variant_tagger_fn=tg{0 if same else i})]\n"
                         for i in range(k))
        src += f"@dataclass\nclass HD(DataClassDictMixin):\n{fields}"
        targets = [rng.randrange(nsub[i]) for i in range(k)]
        arg = {f"f{i}": {"t": f"p{0 if same else i}_B{i}S{targets[i]}"} for i in range(k)}
        script = [{"op": "exec", "src": PREAMBLE}, {"op": "exec", "src": src}]
        sb = Sandbox()
        try:
            exec(PREAMBLE, sb.ns)
            exec(src, sb.ns)
            # one call decodes all fields; on failure mashumaro names the first bad field
            bad_i = None
            obs_all = None
            try:
                with cpu_watchdog():
                    r = sb.ns["HD"].from_dict(arg)
                obs_all = [("inst", type(getattr(r, f"f{i}")).__name__) for i in range(k)]
            except DecodeTimeout:
                bad_i, bad_obs = 0, ("hang",)
            except Exception as e:  # noqa: BLE001 - classified below
                fname = getattr(e, "field_name", None)
                bad_i = int(fname[1:]) if isinstance(fname, str) and fname[1:].isdigit() else 0
                bad_obs = (unwrap_exc(e),)
            for i in range(k):
                exp = ("inst", f"B{i}S{targets[i]}")
                if bad_i is not None and i < bad_i:
                    continue                      # decoded before the failing field: not observable
                obs = bad_obs if bad_i is not None else obs_all[i]
                ctx.count(("two-taggers", k, same, i, obs[0]))
                ctx.hist("wiring", "holder-multi-tagger")
                if obs != exp:
                    step = {"op": "decode", "call": "HD.from_dict", "wrap": None, "input": arg[f"f{i}"], "arg": arg, "pick": f"f{i}"}
                    ctx.fail(f"HD.from_dict({arg}).f{i} -> {fmt(obs)}, expected {fmt(exp)} (field {i} of {k}, own variant_tagger_fn)",
                             {"entry": "history", "script": script + [step], "failing_step": 2, "expected": fmt(exp), "observed": fmt(obs)},
                             {"kind": "field-dispatch", "wiring": "holder-multi-tagger"})
                if bad_i is not None:
                    break
        finally:
            sb.close()


# ---------------------------------------------------------------------------
# region of known finding C12/optional-union-nonetype-variant (kept out of the main stream by (X4))
# ---------------------------------------------------------------------------

def probe_optional_union(ctx: vlib.Ctx, n: int):
    rng = ctx.rng
    for _ in range(n):
        m = rng.randint(1, 3)
        src = "def tgo(cls):\n    return 'o_' + cls.__name__\n@dataclass\nclass A0(DataClassDictMixin):\n    x: int = 0\n"
        names = ["A0"]
        for j in range(m):
            parent = rng.choice(names)
            src += f"@dataclass\nclass A{j + 1}({parent}):\n    pass\n"
            names.append(f"A{j + 1}")
        b1, b2 = rng.sample(names, 2) if len(names) > 1 else (names[0], names[0])
        sub = rng.random() < 0.5
        shape = rng.choice(["a_opt", "a_listopt"])
        d = f"Discriminator(field='t', include_supertypes=True{', include_subtypes=True' if sub else ''}, variant_tagger_fn=tgo)"
        wiring = rng.choice(["holder", "codec"])
        ty = SHAPES[shape][0].format(T=f"Union[{b1}, {b2}]", D=d)
        if wiring == "codec":
            src += f"HO = BasicDecoder({ty})\n"
        else:
            src += f"@dataclass\nclass HO(DataClassDictMixin):\n    v: {ty}\n"
        target = rng.choice([b1, b2])
        step = {"op": "decode", "call": "HO.decode" if wiring == "codec" else "HO.from_dict", "holder": wiring == "holder",
                "shape": shape, "input": {"t": "o_" + target}}
        script = [{"op": "exec", "src": PREAMBLE}, {"op": "exec", "src": src}, step]
        sb = Sandbox()
        try:
            exec(PREAMBLE, sb.ns)
            exec(src, sb.ns)
            root = ""
            arg = SHAPES[shape][1](step["input"])
            try:
                with cpu_watchdog():
                    r = getattr(sb.ns["HO"], "decode" if wiring == "codec" else "from_dict")({"v": arg} if wiring == "holder" else arg)
                obs = ("inst", type(SHAPES[shape][2](r.v if wiring == "holder" else r)).__name__)
            except DecodeTimeout:
                obs = ("hang",)
            except Exception as e:  # noqa: BLE001 - classified below (only the FIRST call fails: the refill registers
                obs = outcome_of_exc(e)   # the real classes before it trips over NoneType)
                c = e
                while c is not None:
                    root += type(c).__name__ + ":" + str(c)[:80] + "|"
                    c = c.__cause__ or c.__context__
            ctx.count(("optional-union", shape, wiring, sub, obs[0]))
            ctx.hist("wiring", wiring + "-optional-union")
            exp = ("inst", target)
            if obs != exp:
                kf = obs == ("crash",) and "immutable type 'NoneType'" in root and wiring == "holder"
                ctx.fail(f"{step['call']}({step['input']}) over {ty} -> {fmt(obs)}, expected {target}",
                         {"entry": "history", "script": script, "failing_step": 2, "expected": target, "observed": fmt(obs)},
                         {"kind": "optional-union-nonetype-variant" if kf else "field-dispatch", "wiring": wiring})
        finally:
            sb.close()


# ---------------------------------------------------------------------------
# the check
# ---------------------------------------------------------------------------

CODE_THEOREMS = ["C12_code_variants", "C12_code_exceptions", "C12_code_dispatcher", "C12_code_registry_names"]
THEOREMS = ["C12_registry_invariant", "C12_registry", "C12_missing_tag", "C12_present_keys_not_missing", "C12_nested_missing_key", "C12_multi_field", "C12_dispatch_ref", "C12_dispatch_ref_fmt", "C12_format_independent", "C12_format_reset", "C12_history_independent_full", "C12_uniq_all_decidable", "C12_registry_nested", "C12_nofield_nested", "C12_unhashable_tag", "C12_non_mapping", "C12_history_independent",
            "C12_eligible_exact", "C12_nofield", "C12_trace_event", "C12_tag_unique_decidable",
            "C12_nonunique_order_dependent", "C12_class_level_self_excluded",
            "C12_nofield_plain_holder"]


def make_replay(h: Hist, k: int, what: str, exp: str, obs: str) -> dict:
    return {"entry": "history", "script": h.script[:k + 1], "failing_step": k, "expected": exp, "observed": obs,
            "model_sites": [coq_site(s) for s in h.sites], "model_ops": [coq_op(o) for o in h.ops]}


def run(ctx: vlib.Ctx):
    ctx.coverage["rule"] = (
        "random histories (6..40 ops) of 'define class' / 'create site' / 'decode' over real dynamically created dataclasses "
        "(exec of source in fresh modules): kinds field / no-field / mixed (classes with tags AND required fields, every "
        "dispatcher picks its mode: no-field dispatchers below field ones and vice versa, selected classes that reject the "
        "input); 1-2 roots (mixin with Config.discriminator, mixin, plain), multi-level and diamond hierarchies, nested "
        "class-level dispatchers, classes without own tag, tag value spectrum (falsy, None, bool/int/float/enum collisions, "
        "unhashable values), 1-2 key names per history, two variant_tagger_fn functions (bare or list results), classes "
        "whose own from_dict leaks a KeyError; sites = Config root / Annotated holder field / holder with 2-3 discriminated "
        "fields or with ONE Tuple field of 2-3 discriminated positions - also as the type of a BasicDecoder - (one call, several sites; 60% with EQUAL Discriminator settings over "
        "different bases, inputs carrying the sibling position's tags) / BasicDecoder, over one class or a Union, 10 annotation shapes, holders in the "
        "classes' module or in another one, call-time dialects incl. first calls (one model site per holder x dialect), "
        "codecs with default_dialect, FORMATS (35% of the histories: mixin roots / holders that also provide from_msgpack and "
        "orjson's from_json; calls in the three formats interleaved with definitions - one shared registry per class-level "
        "dispatcher, per-format variant methods compiled on demand, model op DecodeF); inputs: present / future / unknown / "
        "absent keys, non-mapping inputs; 25% of the "
        "histories have duplicate tags (correspondence only). Plus 16 fixed edge histories, the stream inside the known-"
        "former finding region (plain holders, no-field) and two probes (several taggers in one holder, Optional-Union).")
    ctx.assumptions += [
        "tag uniqueness is required only for the tags the input carries, at the dispatchers that read them, among the classes "
        "defined before the event (uniq_all / tag_unique; computable: uniq_allb / tag_uniqueb, evaluated in every correspondence "
        "case); without it the result depends on the history (C12_nonunique_order_dependent, reproduced on /repo each run)",
        "nested class-level dispatchers of either mode need no hypothesis: C12_dispatch_ref states the answer of the stateful "
        "dispatcher against the registry-free reference semantics ref_decode (also compared with the implementation in "
        "every correspondence case); the older relational theorems C12_registry / C12_nofield / C12_multi_field keep "
        "plain_carriers / no_nested",
        "the Python oracle is compositional in field mode (a selected class with its own class-level discriminator is decoded by "
        "that dispatcher) and silent in no-field mode when an eligible class declares its own class-level discriminator",
        "no open known finding: nofield-inherited-unpacker (233f7d4), tagger-fn-name-collision (79143aa), variant-keyerror-"
        "misreported (2eac3a7), optional-union-nonetype-variant (439013a) are repaired in /repo; the reverse patches are caught",
    ]
    ctx.trusted += [
        "tools/kernels/k12_discr.py: translator of iter_all_subclasses / _get_variant_names / the class-level Discriminator rebuild "
        "(generator -> list function with fuel, starred tuple entries -> concatenation; PyK_discr.v); validated against CPython every run",
        "Discr.v dispatcher/walk/refill + DiscrRef.v ref_decode: hand-written model and reference semantics of unpack.py `_add_body` "
        "+ helpers.iter_all_subclasses, both compared with /repo on every run (M)",
        "K12 additionally reads the exception structure of the field branch (six handlers, bases of the two error classes, whether "
        "the variant call is inside a guarded region); CPython's exception subclass relation is modelled in PyK_discr.subclass_of",
        "K12 also translates `_get_variants_attr` of both builders into the parts of the registry attribute name (literal / field name / "
        "fresh random_hex token / other; C12RegName.v): C12_code_registry_names = two annotated positions never share a registry "
        "(the model keys registries by site), the class-level name is one constant; trusted: equal names have equal part tokens",
        "modelled, not verified: type.__subclasses__() order = definition order, dict overwrite/lookup by ==/hash, "
        "class attribute lookup in own __dict__, dataclass __init__ acceptance = all default-less fields present",
        "harness/props/c12.py: rendering of histories as Python source and as Coq terms; the independent oracle (issubclass + own __dict__)",
    ]

    br = ctx.theorems("props/C12_discr.vo", THEOREMS)
    br2 = ctx.theorems("props/C12_code.vo", CODE_THEOREMS, kernels=["K12"])
    ctx.checker_cmd = f"make -C {vlib.COQ} props/C12_discr.vo props/C12_code.vo (coqc 8.16.1, full .vo build)"
    proofs_ok = br.ok and br2.ok and ctx.kernel_report.get("K12", {}).get("ok", False)
    if proofs_ok and not ctx.quick():
        # second opinion: the independent checker re-verifies the compiled library and reports axioms
        rc, out, _ = vlib.run(["timeout", "600", "coqchk", "-silent", "-o", "-Q", "theories", "Verif", "-Q", "props", "VerifProps",
                               "-Q", "gen", "VerifGen", "VerifProps.C12_discr", "VerifProps.C12_code"], cwd=vlib.COQ, timeout=640)
        ok = rc == 0 and "* Axioms: <none>" in out
        ctx.obligation("coqchk VerifProps.C12_discr VerifProps.C12_code (axioms: none)", ok, out[-600:])
        if not ok:
            proofs_ok = False
            ctx.not_shown("coqchk VerifProps.C12_discr", out[-1500:])

    check_site_ok(ctx)

    # ---- histories: fixed edge cases + random ones
    del WALKS[:]
    COLLECT_WALKS[0] = ctx.budget(70, 500)
    n_corr = ctx.budget(260, 4000)
    hists = fixed_histories() + [gen_history(ctx.rng) for _ in range(n_corr)]
    cases = []
    results = []
    for h in hists:
        observed, flags, fails = run_history(h)
        results.append((h, observed, flags, fails))
        cases.append(coq_case(h, observed, flags))
    bad, log = vlib.coq_bad_idx("c12_hist", "Discr DiscrRef", "", "Close Scope Z_scope.\nOpen Scope nat_scope.\n", cases, "case_ok_ref",
                                "list site * list op * list (option outcome) * list (option bool)",
                                shard=250, needs=["theories/DiscrRef.vo"])
    corr_ok = True
    if bad is None:
        corr_ok = False
        ctx.correspondence("discr-model-vs-impl", len(cases), -1, log)
        ctx.not_shown("correspondence discr-model-vs-impl", log)
    else:
        detail = ""
        if bad:
            corr_ok = False
            h, observed, flags, _ = results[bad[0]]
            detail = json.dumps({"case": bad[0], "sites": [coq_site(s) for s in h.sites], "ops": [coq_op(o) for o in h.ops],
                                 "observed": [fmt(o) for o in observed], "flags": flags})
            ctx.not_shown("correspondence discr-model-vs-impl", f"{len(bad)} histories disagree, first: {detail}")
        ctx.correspondence("discr-model-vs-impl", len(cases), len(bad), detail)

    # ---- (T) validation of the translated kernel K12 against the Python original on the real class graphs
    if ctx.kernel_report.get("K12", {}).get("ok"):
        wcases = ["(" + vlib.coq_list([coq_op(o) for o in ops]) + ", " + str(cid) + ", " + coq_nats(w) + ")" for (ops, cid, w) in WALKS]
        bad, log = vlib.coq_bad_idx("c12_k12", "Discr K12Defs", "From VerifGen Require Import K12.",
                                    "Close Scope Z_scope.\nOpen Scope nat_scope.\n", wcases, "k12_case_ok",
                                    "list op * nat * list nat", shard=400, needs=["theories/K12Defs.vo"])
        if bad is None:
            corr_ok = False
            ctx.correspondence("K12-translation-vs-python", len(wcases), -1, log)
            ctx.not_shown("translation validation K12", log)
        else:
            d = ""
            if bad:
                corr_ok = False
                ops, cid, w = WALKS[bad[0]]
                d = json.dumps({"ops": [coq_op(o) for o in ops], "class": cid, "python_walk": w})
                ctx.not_shown("translation validation K12", f"{len(bad)} walks disagree, first: {d}")
            ctx.correspondence("K12-translation-vs-python", len(wcases), len(bad), d)
    else:
        corr_ok = False

    # ---- oracle on the same histories
    def account(h: Hist, observed, fails):
        first_decode_seen = set()
        n_def_after = {}
        for oi, op in enumerate(h.ops):
            if op[0] == "define":
                for si in first_decode_seen:
                    n_def_after[si] = n_def_after.get(si, 0) + 1
                continue
            o = observed[oi]
            if op[0] == "decodeseq":
                first = op[1][0][0]
                late = n_def_after.get(first, 0) > 0
                ctx.count((h.kind, "holder-multi", len(op[1]), o[0] if o else "-", late,
                           tuple(sorted({h.sites[si].get("tgid", 0) for si, _, _ in op[1] if h.sites[si]["tagger"]}))))
                ctx.hist("wiring", "holder-multi" + ("+dialects" if h.sites[first].get("dialects") else ""))
                ctx.hist("outcome", o[0] if o and o[0] != "many" else "instance")
                ctx.hist("decode_after_late_definition", str(late))
                first_decode_seen.add(first)
                continue
            s = h.sites[op[1]]
            late = n_def_after.get(op[1], 0) > 0
            ctx.count((h.kind, s["wiring"], s["sub"], s["sup"], s["tagger"], o[0] if o else "-", late, len(s["bases"]), s.get("shape", "-"), s.get("fid", 0) if h.meta.get("n_keys", 1) > 1 else "-"))
            ctx.hist("wiring", s["wiring"] + ("+dialects" if s.get("dialects") else ""))
            ctx.hist("annotation_shape", s.get("shape", "-") if s["wiring"] != "config" else "config")
            ctx.hist("outcome", o[0] if o and o[0] != "inst" else "instance")
            ctx.hist("decode_after_late_definition", str(late))
            first_decode_seen.add(op[1])
        ctx.hist("kind", h.kind)
        ctx.hist("tag_style", h.style.split(":")[0])
        if h.kind in ("field", "mixed"):
            for st in h.script:
                if st["op"] == "decode" and not isinstance(st.get("input"), dict) and not st.get("multi"):
                    ctx.hist("input_tag_value", "input is not a mapping")
                if st["op"] == "decode" and isinstance(st.get("input"), dict):
                    if st.get("dialect"):
                        ctx.hist("call_time_dialect", st["dialect"])
                    if "kerr" in st["input"]:
                        ctx.hist("input_with_keyerror_marker", "yes")
                    present_keys = [f for f in FIELDS if f in st["input"]]
                    ctx.hist("input_discriminator_keys", str(len(present_keys)) + " of " + str(h.meta.get("n_keys", 1)))
                    if not present_keys:
                        kind_v = "key absent"
                    else:
                        v = st["input"][present_keys[0]]
                        kind_v = ("unhashable" if isinstance(v, (list, dict)) else "None" if v is None else "bool" if isinstance(v, bool) else
                                  "falsy " + type(v).__name__ if not v else type(v).__name__)
                    ctx.hist("input_tag_value", kind_v)
        ctx.hist("classes_per_history", str(min(len(h.meta["classes"]), 14)))
        ctx.hist("history_length", str(10 * (len(h.ops) // 10)) + "+")
        for (k, what, exp, obs, sig) in fails:
            ctx.fail(what, make_replay(h, k, what, exp, obs), sig)

    for (h, observed, flags, fails) in results:
        account(h, observed, fails)

    # ---- further search (bigger when a proof or the correspondence broke)
    n_more = ctx.budget(250, 3000)
    if not (proofs_ok and corr_ok):
        n_more *= 3
    for _ in range(n_more):
        h = gen_history(ctx.rng)
        observed, flags, fails = run_history(h)
        account(h, observed, fails)

    # ---- no-field mode through a nailed holder over plain dataclasses with inherited compiled unpackers (the region of the
    #      former finding nofield-inherited-unpacker, repaired by /repo 233f7d4): compared with the MAIN model
    kcases = []
    kres = []
    for _ in range(ctx.budget(60, 500)):
        h = gen_history(ctx.rng, stream="kf")
        observed, flags, fails = run_history(h)
        account(h, observed, fails)
        kres.append((h, observed))
        kcases.append(coq_case(h, observed, flags))
    bad, log = vlib.coq_bad_idx("c12_kf", "Discr DiscrRef", "", "Close Scope Z_scope.\nOpen Scope nat_scope.\n", kcases, "case_ok_ref",
                                "list site * list op * list (option outcome) * list (option bool)", shard=250, needs=["theories/DiscrRef.vo"])
    if bad is None:
        ctx.correspondence("plain-holder-nofield-vs-model", len(kcases), -1, log)
        ctx.not_shown("correspondence plain-holder-nofield-vs-model", log)
    else:
        detail = ""
        if bad:
            h, observed = kres[bad[0]]
            detail = json.dumps({"case": bad[0], "sites": [coq_site(s) for s in h.sites], "ops": [coq_op(o) for o in h.ops],
                                 "observed": [fmt(o) for o in observed]})
            ctx.not_shown("correspondence plain-holder-nofield-vs-model", f"{len(bad)} histories disagree, first: {detail}")
        ctx.correspondence("plain-holder-nofield-vs-model", len(kcases), len(bad), detail)

    # ---- several discriminated fields with different tagger functions in one holder
    probe_two_taggers(ctx, ctx.budget(40, 400))
    probe_optional_union(ctx, ctx.budget(20, 150))

    # ---- remark: without uniqueness the answer depends on the history (not a violation: the property is silent)
    h = [x for x in fixed_histories() if x.meta.get('tag') == 'nonunique'][0]
    observed, _, _ = run_history(h)
    dec = [fmt(o) for o in observed if o is not None]
    ctx.notes.append(f"non-unique tag: stale registry answers {dec[-2]}, fresh registry {dec[-1]} (same classes, same input)")

    for (h, observed, flags, fails) in results[:3] + results[len(fixed_histories()):len(fixed_histories()) + 3]:
        ctx.sample({"sites": [coq_site(s) for s in h.sites], "ops": [coq_op(o) for o in h.ops][:14],
                    "observed": [fmt(o) for o in observed][:14]})


# ---------------------------------------------------------------------------
# replay
# ---------------------------------------------------------------------------

def replay(rep: dict) -> int:
    if rep.get("entry") == "site_ok":
        print("static fact:", rep.get("what"))
        return 1
    if rep.get("entry") != "history":
        print("no failing input in this replay file (kind:", rep.get("kind"), ")")
        for u in rep.get("not_shown", []):
            print(" not shown:", u.get("name"), "-", str(u.get("detail"))[:400])
        return 2
    sb = Sandbox()
    try:
        obs = None
        for k, step in enumerate(rep["script"]):
            if step["op"] == "exec":
                sb.exec_step(step, f"replay{k}")
            else:
                obs = do_decode(sb.ns, step)
                print(f"step {k}: {call_label(step)}({step['input']}) -> {fmt(obs)}")
        print("expected:", rep["expected"], "observed now:", fmt(obs))
        exp = rep["expected"]
        ok = (fmt(obs) == exp or (exp.startswith("one of ") and fmt(obs) in exp[7:].split(","))
              or (exp == "an instance or a documented error" and obs is not None and obs[0] != "hang"))
        if not ok:
            print("REPRODUCED")
            return 1
        print("not reproduced")
        return 0
    finally:
        sb.close()
