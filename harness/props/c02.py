"""C02 - serialization emits exactly the documented basic form."""
from __future__ import annotations

import json

from harness import gen, ref, tycorr, tyoracle, vlib

NATIVE = {
    "orjson": ({"datetime", "date", "time", "UUID"}, False),
    "msgpack": (set(), False),      # bytes / bytearray stay native
    "toml": ({"datetime", "date", "time"}, True),
}


def ref_encode_native(fmt, t, v, fam, ns):
    """README: a format dialect leaves exactly its declared native types unconverted; TOML drops None-valued fields"""
    leaves, omit_none = NATIVE[fmt]
    k = t.kind
    if k == "leaf" and t.name in leaves:
        return v
    if fmt == "msgpack" and k in ("bytes", "bytearray"):
        return v
    if k in ("list", "seq", "deque", "set", "frozenset", "tuplevar"):
        return [ref_encode_native(fmt, t.args[0], x, fam, ns) for x in v]
    if k == "tuplefix":
        return [ref_encode_native(fmt, a, x, fam, ns) for a, x in zip(t.args, v)]
    if k in ("dict", "mapping", "ordereddict", "mappingproxy"):
        return {ref_encode_native(fmt, t.args[0], a, fam, ns): ref_encode_native(fmt, t.args[1], b, fam, ns) for a, b in v.items()}
    if k == "opt":
        return None if v is None else ref_encode_native(fmt, t.args[0], v, fam, ns)
    if k == "data":
        out = {}
        spec = fam.get(t.name)
        fields = ref.all_fields(spec, fam)
        if spec.config.get("sort_keys"):
            fields = sorted(fields, key=lambda f: f.name)
        by_alias = spec.config.get("serialize_by_alias")
        for f in fields:
            x = getattr(v, f.name)
            if x is None and omit_none:
                continue
            out[f.alias if (by_alias and f.alias is not None) else f.name] = ref_encode_native(fmt, f.ty, x, fam, ns)
        return out
    if k in ("counter",):
        return {ref_encode_native(fmt, t.args[0], a, fam, ns): b for a, b in v.items()}
    if k == "defaultdict":
        return {ref_encode_native(fmt, t.args[0], a, fam, ns): ref_encode_native(fmt, t.args[1], b, fam, ns) for a, b in v.items()}
    if k == "chainmap":
        return [{ref_encode_native(fmt, t.args[0], a, fam, ns): ref_encode_native(fmt, t.args[1], b, fam, ns) for a, b in m.items()} for m in v.maps]
    if k == "tupleu":
        tys = ref.tupleu_types(t, len(v))
        return [ref_encode_native(fmt, a, x, fam, ns) for a, x in zip(tys, v)]
    if k == "nt":
        return [ref_encode_native(fmt, f.ty, x, fam, ns) for f, x in zip(fam.get(t.name).fields, v)]
    if k == "td":
        # required keys first, then the optional keys present (each group in declaration order)
        return {f.name: ref_encode_native(fmt, f.ty, v[f.name], fam, ns) for f in gen.td_order(fam.get(t.name)) if f.name in v}
    return ref.ref_encode(t, v, fam, ns)


def run(ctx: vlib.Ctx):
    from mashumaro.codecs.basic import BasicEncoder
    from mashumaro.mixins.msgpack import MessagePackDialect
    from mashumaro.mixins.orjson import OrjsonDialect
    from mashumaro.mixins.toml import TOMLDialect
    dialects = {"orjson": OrjsonDialect, "msgpack": MessagePackDialect, "toml": TOMLDialect}

    ctx.coverage["rule"] = ("schemas from the shared grammar generator (harness/gen.py; depth<=4, nested/recursive dataclasses, named tuples, "
                            "typed dicts, all leaf kinds, enums, collections, Optional, wire-disjoint unions, literals) x edge-biased conforming values; "
                            "distinct = (type tree, value) pairs; non-trivial = value contains at least one non-identity conversion or container")
    ctx.theorems("props/C02_pack.vo", ["C02_pack_ref", "C02_field_packer", "C02_basic"])
    ctx.theorems("props/C02_collection_kernel.vo", ["C02_seq_decision_is_code", "C02_map_decision_is_code",
                                                    "C02_conversion_never_skipped", "C02_byref_iff_listed_identity"], kernels=["K15"])
    ctx.theorems("props/C02_ntdict.vo", ["C02_ntdict_pack_ref", "C02_ntdict_basic", "C02_ntdict_is_named_list"])
    ctx.theorems("props/C02_typed_kernel.vo", ["C02_typed_code_is_model"], kernels=["K45a"])
    ctx.trusted += ["tools/kernels/k45a_typeddict_emit.py (translator of the emission loop of pack_typed_dict; validated each run against the helpers generated for random "
                    "TypedDict classes); TdEmit.v run_td_lines = semantics of the emitted statements"]
    ctx.theorems("props/C02_ntdict_kernel.vo", ["C02_named_code_is_model", "C02_ntdict_code_is_model"], kernels=["K45b"])
    ctx.trusted += ["tools/kernels/k45b_namedtuple_pack.py (translator of the display pack_named_tuple returns; validated each run against generated encoder source)"]
    ctx.theorems("props/C02_typevar.vo", ["C02_optional_code_is_model", "C02_typevar_code_is_model", "C02_typevar_pack_ref"], kernels=["K45c"])
    ctx.trusted += ["tools/kernels/k45c_optional_typevar.py (head of pack_special_typing_primitive + expr_or_maybe_none: exact-shape check, tests abstracted to booleans)"]
    ctx.theorems("props/C02_union.vo", ["C02_union_passthrough_as_is", "C02_union_passthrough_order_free", "C02_union_converting_in_declared_order"], kernels=["K21"])
    ctx.theorems("props/C02_cache.vo", ["C02_packer_cache_per_format", "C02_packer_cache_not_unpacker_cache"], kernels=["K13C"])
    ctx.trusted += ["tools/kernels/k21_pack_union_emit.py (C11's translator of the two loops of pack_union; members abstracted to class name / expression / behaviour) and "
                    "tools/kernels/k13c_codec_plan.py (reads the cache attribute names off builder.py, fails closed when they do not contain self.format_name)"]
    ctx.coqchk(["VerifProps.C02_union", "VerifProps.C02_cache", "VerifProps.C02_pack", "VerifProps.C02_collection_kernel", "VerifProps.C02_ntdict", "VerifProps.C02_typed_kernel", "VerifProps.C02_ntdict_kernel", "VerifProps.C02_typevar"])
    ctx.trusted += ["tools/kernels/k15_collection_exprs.py (translator of _make_sequence_expression/_make_mapping_expression; "
                    "recognised tests and returned templates are listed explicitly, anything else fails closed)"]
    ctx.trusted += ["TyModel.v (cp/pk: hand-written model of pack.py registry order, copy-vs-comprehension and could_be_none decisions) "
                    "tied by vm_compute correspondence; stdlib renderings (isoformat, str, total_seconds, encodebytes, Enum.value) are oracle tables"]
    ctx.assumptions += ["format dialect part (orjson/msgpack/TOML native types, TOML null dropping) and unions (and enum-member / bytes literals) "
                        "are decided by the reference-interpreter oracle only (outside the Coq grammar) -- except: the form of a union value of a pass-through member's class (the value itself, at any declared position) and the declared-order rule for the converting members are theorems about the translated loops of pack_union (K21), and the per-format cache of call-time-dialect packers is a theorem about the attribute names read off builder.py (K13C); NamedTuple (as_list form), TypedDict "
                        "(required keys, then the optional keys present) tuples with an unpacked segment (index/slice plan = kernel K7) and the abstract / special collection classes (Sequence, Mapping, Deque, OrderedDict, DefaultDict, MappingProxyType, Counter, ChainMap) and Literal types of int/str/bool/None constants are inside the Coq grammar; the as_dict form of a NamedTuple class at the top of a codec is modelled in TyNtDict.v (C02_ntdict_pack_ref / _basic + correspondence); as_dict NamedTuples at nested positions under the global option and generic NamedTuples/TypedDicts are oracle only"]

    cases, bad, log = tycorr.run(ctx, "c02_ty", ctx.budget(40, 300), 3, depth=3, foreign=1)
    hits = tyoracle.report_corr(ctx, "TyModel.pk/ref_enc vs BasicEncoder.encode", cases, bad, log, want="enc")

    # direct oracle: independent reference interpreter + basic-ness + json.dumps
    n = ctx.budget(800, 5000) if not hits else ctx.budget(2500, 10000)
    for fam, ns, t, ty, sg in tyoracle.schema_stream(ctx.rng, n, unions=True, literals=True, any_=True):
        try:
            enc = BasicEncoder(ty)
        except Exception as e:
            ctx.fail(f"BasicEncoder({gen.py_ann(t)}) cannot be built: {type(e).__name__}: {e}",
                     {"entry": "codec_build", "source": fam.source(), "type": gen.py_ann(t), "expected": "ok"}, {"kind": "encoder-build"})
            continue
        vg = gen.ValueGen(ctx.rng, fam)
        no_any = not tyoracle.has_kind(t, fam, {"any"})
        for _ in range(4):
            v = vg.value(t)
            ctx.count((t.key(), repr(v)))
            try:
                exp = ref.ref_encode(t, v, fam, ns)
            except ref.RefError:
                continue
            what = None
            try:
                got = enc.encode(v)
                if not gen.same_ordered(got, exp):
                    what = f"encode differs from the reference: {gen.py_src(got)[:200]} vs {gen.py_src(exp)[:200]}"
                elif no_any and not gen.is_basic(got):
                    what = "result is not made of str/int/float/bool/None/list/dict"
                elif no_any:
                    try:
                        json.dumps(got)
                    except Exception as e:
                        what = f"json.dumps rejects the result: {type(e).__name__}"
                obs = "ok:" + gen.py_src(got)
            except Exception as e:
                what = f"encode raised {type(e).__name__}: {e}"
                obs = f"exc:{type(e).__name__}"
            if what is None and t.kind == "data" and fam.get(t.name).mixin:
                got2 = v.to_dict()
                if not gen.same_ordered(got2, exp):
                    what = f"to_dict differs from the reference: {gen.py_src(got2)[:200]}"
                    obs = "ok:" + gen.py_src(got2)
            if what:
                ctx.fail(f"{gen.py_ann(t)}: {what}",
                         {"entry": "codec_encode", "source": fam.source(), "type": gen.py_ann(t), "input_src": gen.py_src(v),
                          "observed": obs, "expected": "ok:" + gen.py_src(exp)}, {"kind": "encode-ref"})
        fam.dispose()

    # namedtuple_as_dict (dialect option, or Config option of a holder dataclass): a NamedTuple is packed as a dict of ALL its items in field order
    ref.NT_AS_DICT = True
    try:
        for fam, ns, t, ty, dia in tyoracle.as_dict_stream(ctx.rng, ctx.budget(40, 250)):
            try:
                enc = BasicEncoder(ty, **({"default_dialect": dia} if dia else {}))
            except Exception as e:
                ctx.fail(f"as_dict BasicEncoder({gen.py_ann(t)}) cannot be built: {type(e).__name__}: {e}",
                         {"entry": "codec_build", "source": fam.source(), "type": gen.py_ann(t), "expected": "ok"}, {"kind": "encoder-build"})
                continue
            vg = gen.ValueGen(ctx.rng, fam)
            for _ in range(3):
                v = vg.value(t)
                ctx.count((t.key(), "as_dict", repr(v)))
                ctx.hist("as_dict_root", t.kind if dia else "config")
                exp = ref.ref_encode(t, v, fam, ns)
                what = None
                try:
                    got = enc.encode(v)
                    obs = "ok:" + gen.py_src(got)
                    if not gen.same_ordered(got, exp):
                        what = f"as_dict encode differs from the reference: {gen.py_src(got)[:200]} vs {gen.py_src(exp)[:200]}"
                    elif not gen.is_basic(got):
                        what = "as_dict result is not made of str/int/float/bool/None/list/dict"
                except Exception as e:
                    what = f"as_dict encode raised {type(e).__name__}: {e}"
                    obs = f"exc:{type(e).__name__}"
                if what:
                    ctx.fail(f"{gen.py_ann(t)}: {what}",
                             {"entry": "codec_encode_as_dict" if dia else "codec_encode", "source": fam.source(), "type": gen.py_ann(t), "input_src": gen.py_src(v),
                              "observed": obs, "expected": "ok:" + gen.py_src(exp)}, {"kind": "encode-ref"})
    finally:
        ref.NT_AS_DICT = False

    # format dialects: exactly the declared native types stay unconverted; TOML drops None fields
    for fam, ns, t, ty, sg in tyoracle.schema_stream(ctx.rng, ctx.budget(60, 600)):
        vg = gen.ValueGen(ctx.rng, fam)
        for fmt, dl in dialects.items():
            try:
                enc = BasicEncoder(ty, default_dialect=dl)
            except Exception as e:
                ctx.fail(f"BasicEncoder({gen.py_ann(t)}, default_dialect={fmt}) cannot be built: {type(e).__name__}: {e}",
                         {"entry": "codec_build", "source": fam.source(), "type": gen.py_ann(t), "dialect": fmt, "expected": "ok"}, {"kind": "encoder-build"})
                continue
            for _ in range(2):
                v = vg.value(t)
                ctx.count((fmt, t.key(), repr(v)))
                exp = ref_encode_native(fmt, t, v, fam, ns)
                try:
                    got = enc.encode(v)
                    ok = gen.same_ordered(got, exp)
                    obs = "ok:" + gen.py_src(got)
                except Exception as e:
                    ok = False
                    obs = f"exc:{type(e).__name__}"
                if not ok:
                    ctx.fail(f"{fmt} dialect, {gen.py_ann(t)}: {obs[:200]} expected {gen.py_src(exp)[:200]}",
                             {"entry": "codec_encode_dialect", "dialect": fmt, "source": fam.source(), "type": gen.py_ann(t),
                              "input_src": gen.py_src(v), "observed": obs, "expected": "ok:" + gen.py_src(exp)}, {"kind": "encode-native", "fmt": fmt})
        fam.dispose()

    format_mixin_part(ctx)
    # round-6 parts last: the random streams of the parts above stay what they were for every seed
    tycorr.k45a_validate(ctx, "pack")
    tycorr.k45b_validate(ctx)
    ncases, nbad, nlog = tycorr.run_nd(ctx, "c02_nd", ctx.budget(40, 300), foreign=0)
    tyoracle.report_corr(ctx, "TyNtDict.pk_nd/ref_enc_nd vs BasicEncoder.encode under an as_dict dialect", ncases, nbad, nlog, want="enc")
    from harness.props import c01 as _c01
    _c01.tv_part(ctx, "c02_tv", "enc", ctx.budget(40, 300))
    toml_merge_part(ctx)
    # round-7 parts (own random streams): converting-before-pass-through unions, same-named classes of different modules in one
    # codec shape, sequences of entry points under a call-time dialect
    from harness.props import c02_r7
    c02_r7.run_all(ctx)


FORMAT_MIXINS = {"orjson": ("DataClassORJSONMixin", "to_jsonb"), "msgpack": ("DataClassMessagePackMixin", "to_msgpack"),
                 "toml": ("DataClassTOMLMixin", "to_toml")}


def _ident(d, **kw):
    return d


def format_mixin_part(ctx):
    """the same clause observed where a format MIXIN hands its document to the encoder: x.to_jsonb / to_msgpack / to_toml with
    the identity as encoder.  Classes (self references through Self included, nested mixin classes of the same format)
    go through the per-format code path (__mashumaro_to_dict_<fmt>__ and the builders created for nested / Self fields)."""
    for fmt, (base, meth) in FORMAT_MIXINS.items():
        for i in range(ctx.budget(25, 250)):
            o = gen.GenOpts(depth=ctx.rng.choice([1, 2, 3]), mixin=True, mixin_base=base, configs=ctx.rng.random() < 0.3)
            sg = gen.SchemaGen(ctx.rng, o)
            sg.tag = f"m{fmt[0]}{i}_"
            t = sg.dataclass_type(o.depth - 1)
            fam = sg.fam
            try:
                ns = fam.build()
            except Exception as e:
                ctx.fail(f"{fmt} mixin class cannot be created: {type(e).__name__}: {str(e)[:200]}",
                         {"entry": "format_mixin_build", "source": fam.source(), "type": gen.py_ann(t), "expected": "ok"}, {"kind": "mixin-build", "fmt": fmt})
                fam.dispose()
                continue
            vg = gen.ValueGen(ctx.rng, fam)
            for _ in range(3):
                v = vg.value(t)
                ctx.count(("mixin", fmt, t.key(), repr(v)))
                exp = ref_encode_native(fmt, t, v, fam, ns)
                try:
                    got = getattr(v, meth)(encoder=_ident)
                    ok = gen.same_ordered(got, exp)
                    obs = "ok:" + gen.py_src(got)
                except Exception as e:
                    ok = False
                    obs = f"exc:{type(e).__name__}"
                ctx.hist("format_mixin", fmt)
                if not ok:
                    ctx.fail(f"{fmt} mixin, {gen.py_ann(t)}.{meth}(encoder=identity): {obs[:200]} expected {gen.py_src(exp)[:200]}",
                             {"entry": "format_mixin_encode", "dialect": fmt, "source": fam.source(), "type": gen.py_ann(t),
                              "input_src": gen.py_src(v), "observed": obs, "expected": "ok:" + gen.py_src(exp)}, {"kind": "encode-native-mixin", "fmt": fmt})
            fam.dispose()


TOML_MERGE_SRC = ("from dataclasses import dataclass\nfrom datetime import date\nfrom typing import List, Optional\nfrom mashumaro.dialect import Dialect\n"
                  "@dataclass\nclass Item:\n    name: str\n    day: date\n    note: Optional[str] = None\n    tags: Optional[List[int]] = None\n"
                  "class OnlyAStrategy(Dialect):\n    serialization_strategy = {complex: {'serialize': str, 'deserialize': complex}}\n"
                  "class OnlyAnOption(Dialect):\n    serialize_by_alias = True\n"
                  "class Empty(Dialect):\n    pass\n")


def _toml_merge_obs(ns, dialect, vsrc):
    import tomllib
    from mashumaro.codecs.toml import TOMLEncoder
    kw = {"default_dialect": ns[dialect]} if dialect else {}
    try:
        return "ok:" + gen.py_src(tomllib.loads(TOMLEncoder(ns["Item"], **kw).encode(eval(vsrc, dict(ns)))))
    except Exception as e:
        return f"exc:{type(e).__name__}"


def toml_merge_part(ctx):
    """directed, deterministic: the TOML codec with a caller dialect that says nothing about omit_none -- the merged dialect keeps the format
    dialect's own options (null-valued fields are dropped, date stays native)"""
    try:
        import tomllib  # noqa: F401
        import tomli_w  # noqa: F401
    except Exception:
        return
    ns = gen.build_module(TOML_MERGE_SRC)
    for vsrc, exp in (("Item('a', date(2020, 1, 2))", {"name": "a", "day": "date(2020, 1, 2)"}),
                      ("Item('b', date(1999, 12, 31), 'n')", {"name": "b", "day": "date(1999, 12, 31)", "note": "n"}),
                      ("Item('c', date(2021, 3, 4), None, [1, 2])", {"name": "c", "day": "date(2021, 3, 4)", "tags": [1, 2]})):
        want = "ok:" + gen.py_src({k: (eval(x, dict(ns)) if isinstance(x, str) and x.startswith("date(") else x) for k, x in exp.items()})
        for dialect in (None, "Empty", "OnlyAStrategy", "OnlyAnOption"):
            ctx.count(("toml-merge", dialect, vsrc))
            obs = _toml_merge_obs(ns, dialect, vsrc)
            if obs != want:
                ctx.fail(f"TOMLEncoder(Item, default_dialect={dialect}).encode({vsrc}) gives {obs[:200]}, documented {want[:200]}",
                         {"entry": "toml_codec_merge", "source": TOML_MERGE_SRC, "dialect": dialect, "input_src": vsrc, "observed": obs, "expected": want},
                         {"kind": "encode-native", "fmt": "toml"})


def replay(rep: dict) -> int:
    from harness.props import c02_r7
    r7 = c02_r7.replay(rep)
    if r7 is not None:
        return r7
    if rep.get("entry") == "toml_codec_merge":
        ns = gen.build_module(rep["source"])
        obs = _toml_merge_obs(ns, rep["dialect"], rep["input_src"])
        print("observed:", obs, "\nexpected:", rep["expected"])
        return 1 if obs != rep["expected"] else 0
    if rep.get("entry") == "format_mixin_encode":
        ns = gen.build_module(rep["source"])
        v = eval(rep["input_src"], dict(ns))
        try:
            obs = "ok:" + gen.py_src(getattr(v, FORMAT_MIXINS[rep["dialect"]][1])(encoder=_ident))
        except Exception as e:
            obs = f"exc:{type(e).__name__}"
        print("observed:", obs, "\nexpected:", rep["expected"])
        return 1 if obs != rep["expected"] else 0
    if rep.get("entry") == "codec_encode_dialect":
        from mashumaro.codecs.basic import BasicEncoder
        from mashumaro.mixins.msgpack import MessagePackDialect
        from mashumaro.mixins.orjson import OrjsonDialect
        from mashumaro.mixins.toml import TOMLDialect
        ns = gen.build_module(rep["source"])
        ty = eval(rep["type"], dict(ns))
        v = eval(rep["input_src"], dict(ns))
        dl = {"orjson": OrjsonDialect, "msgpack": MessagePackDialect, "toml": TOMLDialect}[rep["dialect"]]
        try:
            obs = "ok:" + gen.py_src(BasicEncoder(ty, default_dialect=dl).encode(v))
        except Exception as e:
            obs = f"exc:{type(e).__name__}"
        print("observed:", obs, "\nexpected:", rep["expected"])
        return 1 if obs != rep["expected"] else 0
    if rep.get("entry") == "codec_build":
        from mashumaro.codecs.basic import BasicEncoder
        ns = gen.build_module(rep["source"])
        try:
            BasicEncoder(eval(rep["type"], dict(ns)))
            print("builds")
            return 0
        except Exception as e:
            print("REPRODUCED", type(e).__name__, e)
            return 1
    return gen.replay_generic(rep)
