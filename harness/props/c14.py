"""C14 - behaviour is independent of compilation timing, call order and threads.

1. theorems      coq/props/C14_lazy.v   (state machine of stub/compiled method slots, threads)
2. correspondence  the Coq model's slot transitions (absent/stub/compiled per class x method, dialect caches)
                 and outcome kinds are compared by vm_compute with the real classes' __dict__ after every
                 operation of generated histories
3. oracle        every operation of a random history over a real class family in mode eager / lazy /
                 postponed / mixed must equal the same operation on a *fresh eager twin family*;
                 N threads released by a barrier make the first call at once
"""
from __future__ import annotations

import json
import re
import sys
import threading

from harness import vlib
from harness import c14fam as F

RECLIMIT = 600
SPEC_RE = re.compile(r"_[0-9a-f]{32}$")

# ---------------------------------------------------------------------------
# cases
# ---------------------------------------------------------------------------

def gen_ops(fam, rng, helper, nops, meta=None, sticky=0.0):
    """sticky: probability of repeating the previous op's (class, entry point, direction) - the same call with another
    dialect / other flags / another value right after: the order in which dialects and flags are first used"""
    ops = []
    prev = None
    mix = [i for i, c in enumerate(fam["classes"]) if F.entry_points(fam, i)]
    tries = 0
    while len(ops) < nops and tries < nops * 6:
        tries += 1
        if prev is not None and rng.random() < sticky:
            i, (fmt, pk, up), force_pack = prev
        else:
            i = rng.choice(mix)
            fmt, pk, up = rng.choice(F.entry_points(fam, i))
            force_pack = rng.random() < 0.5
        prev = (i, (fmt, pk, up), force_pack)
        c = fam["classes"][i]
        d = rng.choice([None, "D1", "D2"]) if c["dsup"] else None
        kws = []
        if d:
            kws.append(f"dialect={d}")
        val, tree = F.gen_value(fam, i, rng)
        # everything a first (stub) call has to forward: flags, encoder kwargs, encoder/decoder, dialect, context
        pkws = list(kws)
        if c.get("onf") and rng.random() < 0.5:
            pkws.append("omit_none=True")
        wire_pack = f"{val}.{pk}({', '.join(pkws)})"
        if c.get("baf") and rng.random() < 0.5:
            pkws.append("by_alias=True")
        if c.get("ctx") and rng.random() < 0.5:
            pkws.append("context={'k': %d}" % rng.randint(0, 9))
        if fmt == "orjson" and rng.random() < 0.5:
            pkws.append("orjson_options=" + rng.choice(["orjson.OPT_SORT_KEYS | orjson.OPT_INDENT_2", "orjson.OPT_INDENT_2",
                                                        "orjson.OPT_APPEND_NEWLINE"]))
        if fmt != "dict" and rng.random() < 0.25:
            pkws.append("encoder=enc_mark")
        pack = f"{val}.{pk}({', '.join(pkws)})"
        r = rng.random()
        if force_pack:
            ops.append(pack)
            if meta is not None:
                meta.append({"cls": i, "fmt": fmt, "pack": True, "dialect": d, "tree": tree, "valid": True})
            continue
        ukws = list(kws)
        try:
            if fmt != "dict" and rng.random() < 0.3:
                wire = repr(eval(f"{val}.to_dict({', '.join(kws)})", helper.__dict__))
                ukws.append("decoder=dec_lit")
            else:
                wire = eval(wire_pack, helper.__dict__)
        except BaseException:
            continue
        if r > 0.86 and isinstance(wire, dict) and wire:
            wire = dict(wire)
            wire.pop(rng.choice(sorted(wire)), None)      # an invalid input: the error path through stubs
            valid = False
        else:
            valid = True
        ops.append(f"{c['name']}.{up}({wire!r}{', ' + ', '.join(ukws) if ukws else ''})")
        if meta is not None:
            meta.append({"cls": i, "fmt": fmt, "pack": False, "dialect": d, "tree": tree, "valid": valid})
    return ops


def gen_case(rng, nops=6, max_classes=5, focus=None):
    """a family, a compilation mode and an op history; None when the family cannot even be created eagerly
    (e.g. mutually recursive plain dataclasses: outside the property's families)"""
    fam = F.gen_family(rng, max_classes, focus)
    n = len(fam["classes"])
    topo = F.topo_order(fam)
    twin_src = F.render(fam, topo, [False] * n)
    mode = rng.choice(["eager", "lazy", "lazy", "postponed", "postponed", "mixed"])
    if focus == "apc" and rng.random() < 0.6:
        mode = rng.choice(["postponed", "mixed"])
    order = topo if mode in ("eager", "lazy") else F.random_order(fam, rng)
    lazy = [mode == "lazy" or (mode == "mixed" and rng.random() < 0.5) for _ in range(n)]
    src = F.render(fam, order, lazy)
    try:
        helper = F.load(twin_src, "h")
    except BaseException as e:
        return {"fam": fam, "skip": "twin-creation-" + type(e).__name__}
    meta = []
    try:
        ops = gen_ops(fam, rng, helper, nops, meta, sticky=0.5 if focus == "kwargs" else 0.15)
    finally:
        F.unload(helper)
    return {"fam": fam, "mode": mode, "order": order, "lazy": lazy, "src": src, "twin_src": twin_src, "ops": ops, "opmeta": meta}


def fresh_expected(twin_src, op, aux=None, want_snapshot=None):
    twin = F.load(twin_src, "t")
    try:
        out = F.run_op(twin, op, aux)
        if want_snapshot is not None:
            want_snapshot.update(F.snapshot(twin, want_snapshot.pop("__fam__")))
        return out
    finally:
        F.unload(twin)


# ---------------------------------------------------------------------------
# classification of a difference (signatures of the known findings; nothing wider)
# ---------------------------------------------------------------------------

def has_class_cycle(fam) -> bool:
    """a reference cycle through at least two distinct classes"""
    cl = fam["classes"]
    n = len(cl)
    adj = {i: {t[1] for _, t in F.all_fields(fam, i) if t[0] == "dc" and t[1] != i} for i in range(n)}

    def reach(a):
        seen, todo = set(), [a]
        while todo:
            x = todo.pop()
            for y in adj[x]:
                if y not in seen:
                    seen.add(y)
                    todo.append(y)
        return seen
    return any(i in reach(i) for i in range(n))


def classify(fam, op, got, exp, got_aux, exp_aux, got_snap, exp_snap, src="") -> dict:
    """signature of a difference between the family under test (`got`) and the fresh eager twin (`exp`).
    kind is one of the known-finding kinds only when the precise predicate of that finding holds on the
    side that failed; otherwise 'history-dependence' (= a violation)."""
    sig = {"kind": "history-dependence", "got": got[1] if got[0] == "EXC" else "OK", "exp": exp[1] if exp[0] == "EXC" else "OK"}
    for side, out, aux, snap in (("family", got, got_aux, got_snap), ("twin", exp, exp_aux, exp_snap)):
        other = exp if side == "family" else got
        if out[0] != "EXC" or out == other:
            continue
        if out[1] == "RecursionError":
            if aux.get("rec") == "build-cycle" and has_class_cycle(fam):
                # on-demand nested compilation follows a class cycle whose methods are installed only at the end
                return {**sig, "kind": "ondemand-build-cycle", "side": side}
    return sig


# ---------------------------------------------------------------------------
# oracle 1: histories
# ---------------------------------------------------------------------------

def run_history(case, upto=None, collect=None):
    """run the ops of a case on a fresh family under test; yields (index, op, got, exp, signature|None).
    Stops at the first difference (the state after a failure is not a state the property talks about)."""
    fam = case["fam"]
    try:
        mod = F.load(case["src"], "m")
    except BaseException as e:
        # the twin (other definition order / eager) could be created, this family cannot: the class statements
        # themselves depend on order / mode
        got = F.canon_exc(e)
        pred = F.predict_creation(fam, case["order"], case["lazy"]) if fam.get("classes") and "order" in case else None
        m = re.search(r"Class (\w+) has unresolved type reference", got[2] if len(got) > 2 else "")
        if pred is not None and got[1] == "UnresolvedTypeReferenceError" and m and m.group(1) == fam["classes"][pred]["name"]:
            # Config.allow_postponed_evaluation = False on a class whose references are unresolved at its class statement:
            # failing there is what was configured (not a dependence on timing); compared with the Coq model (ccase)
            case["creation"] = {"failed": pred, "pos": case["order"].index(pred)}
            return [(0, "<class creation>", got, ["EXC", "UnresolvedTypeReferenceError", "by-configuration"], None)]
        gaux = {"rec": F.recursion_kind(e)} if got[1] == "RecursionError" else {}
        sig = classify(fam, "<class creation>", got, ["OK", "created"], gaux, {}, {}, {}, case["src"])
        return [(0, "<class creation>", got, ["OK", "created"], sig)]
    res = []
    pred = F.predict_creation(fam, case["order"], case["lazy"]) if fam.get("classes") and "order" in case else None
    if pred is not None:
        F.unload(mod)
        exp = ["EXC", "UnresolvedTypeReferenceError", f"Class {fam['classes'][pred]['name']} has unresolved type reference"]
        return [(0, "<class creation>", ["OK", "created"], exp,
                 {"kind": "history-dependence", "got": "OK", "exp": "UnresolvedTypeReferenceError"})]
    try:
        if collect is not None:
            collect.append(F.snapshot(mod, fam))
        for k, op in enumerate(case["ops"] if upto is None else case["ops"][:upto + 1]):
            gaux, eaux = {}, {}
            esnap = {"__fam__": fam}
            exp = fresh_expected(case["twin_src"], op, eaux, esnap)
            got = F.run_op(mod, op, gaux)
            snap = F.snapshot(mod, fam)
            if collect is not None:
                collect.append(snap)
            sig = None
            if got != exp:
                sig = classify(fam, op, got, exp, gaux, eaux, snap, esnap, case["src"])
            res.append((k, op, got, exp, sig))
            if gaux.get("rec"):
                case.setdefault("rec", {})[k] = gaux["rec"]
            if sig is not None:
                break
    finally:
        F.unload(mod)
    return res


def short(x, n=400):
    s = json.dumps(x, default=str)
    return s if len(s) <= n else s[:n] + "..."


def oracle_histories(ctx: vlib.Ctx, n: int, keep_cases=None, focus=None):
    for _ in range(n):
        case = gen_case(ctx.rng, nops=ctx.rng.randint(3, 8), focus=focus)
        if "skip" in case:
            ctx.hist("families", case["skip"])
            continue
        fam = case["fam"]
        ctx.hist("mode", case["mode"])
        ctx.hist("classes", str(len(fam["classes"])))
        feats = set()
        for i, c in enumerate(fam["classes"]):
            feats.add(c["kind"])
            feats.update("mixin:" + m for m in c["mixins"])
            if c["generic"]:
                feats.add("generic" + str(c["generic"]))
            for o in ("onf", "baf", "ctx"):
                if c.get(o):
                    feats.add("flag:" + o)
            if not c.get("apc", True):
                feats.add("Config.allow_postponed_evaluation=False")
            if c.get("cdial"):
                feats.add("Config.dialect")
            for _, t in c["fields"]:
                if t[0] in ("bytes", "date", "ghost"):
                    feats.add("field:" + t[0])
            if c["dsup"]:
                feats.add("dialect-support")
            if c["parent"] is not None:
                feats.add("inherited")
            for _, t in c["fields"]:
                if t[0] == "dc":
                    feats.add("self-ref" if t[1] == i else ("forward-ref" if t[1] > i else "nested"))
                    if len(t) > 4:
                        feats.add("typing.Self")
                    if t[3]:
                        feats.add("specialisation")
                        if any(a.startswith("aux") for a in t[3]):
                            feats.add("targ:same-named-classes")
                        if "listint" in t[3]:
                            feats.add("targ:nested")
        for f in feats:
            ctx.hist("features", f)
        snaps = []
        res = run_history(case, collect=snaps)
        if keep_cases is not None:
            case["snaps"] = snaps
            case["res"] = res
            keep_cases.append(case)
        for k, op, got, exp, sig in res:
            m = re.search(r"\.(to|from)_(\w+)\(", op)
            ctx.hist("ops", (m.group(1) + "_" + m.group(2)) if m else "?")
            for kw in re.findall(r"(omit_none|by_alias|context|orjson_options|encoder|decoder|dialect)=", op[op.rfind(")."):] if ")." in op else op):
                ctx.hist("call kwargs", kw + ("@first-call" if k == 0 else ""))
            ctx.hist("outcome", exp[0] if exp[0] == "OK" else "EXC:" + exp[1])
            ctx.count((case["mode"], tuple(sorted(feats)), m.group(0) if m else op[:10], "dialect=" in op, k == 0))
            if sig is not None:
                ref = ("the configured behaviour (Config.allow_postponed_evaluation = False, unresolved reference at the class statement) is"
                       if op == "<class creation>" and got[0] == "OK" else "a fresh eager twin gives")
                ctx.fail(f"{case['mode']} family: op #{k} `{op[:120]}` gives {short(got, 160)} but {ref} {short(exp, 160)}",
                         {"entry": "history", "mode": case["mode"], "order": case["order"], "lazy": case["lazy"],
                          "family": fam, "source": case["src"], "twin_source": case["twin_src"],
                          "ops": case["ops"][:k + 1], "failing_op": k, "observed": got, "expected": exp},
                         sig)
        if res:
            ctx.sample({"mode": case["mode"], "classes": [c["name"] + ":" + c["kind"] + ":" + "+".join(c["mixins"]) for c in fam["classes"]],
                        "op": res[0][1][:160], "outcome": short(res[0][2], 160)})


# ---------------------------------------------------------------------------
# oracle 1b: fixed scenarios (hand-written histories around the mechanisms of the property)
# ---------------------------------------------------------------------------

SCEN_HEADER = F.HEADER + """from mashumaro.types import Discriminator
from mashumaro.config import TO_DICT_ADD_BY_ALIAS_FLAG, ADD_SERIALIZATION_CONTEXT
import msgpack
"""

SCENARIOS = [
    ("lazy+dialect (D5)", """
@dataclass
class A(DataClassMessagePackMixin):
    x: Optional[int] = None
    y: int = 1
    class Config(BaseConfig):
        lazy_compilation = True
        code_generation_options = [ADD_DIALECT_SUPPORT]
""", ["A(y=2).to_dict(dialect=D1)", "A.from_dict({'y': 1003}, dialect=D2)", "A(y=2).to_msgpack(dialect=D2)", "A(y=2).to_dict()"]),
    ("lazy+flags on the first call", """
@dataclass
class A(DataClassDictMixin):
    x: Optional[int] = None
    y: int = field(default=1, metadata={"alias": "yy"})
    class Config(BaseConfig):
        lazy_compilation = True
        code_generation_options = [TO_DICT_ADD_OMIT_NONE_FLAG, TO_DICT_ADD_BY_ALIAS_FLAG, ADD_SERIALIZATION_CONTEXT]
""", ["A().to_dict(omit_none=True, by_alias=True, context={'k': 1})", "A().to_dict()", "A.from_dict({'yy': 5})"]),
    ("postponed + subclass + formats in both orders", """
@dataclass
class A(DataClassMessagePackMixin, DataClassORJSONMixin):
    b: Optional[B] = None
    bs: List[B] = field(default_factory=list)
@dataclass
class B(A):
    z: int = 0
""", ["B(z=1, b=B(z=2)).to_jsonb()", "A(bs=[B(z=3)]).to_msgpack()", "A.from_json(b'{\"b\": {\"z\": 4}}')",
      "B.from_msgpack(msgpack.packb({'z': 5, 'bs': [{'z': 6}]}))", "A(b=B()).to_dict()"]),
    ("dialect cache inherited by a subclass without dialect support", """
@dataclass(kw_only=True)
class K0(DataClassORJSONMixin):
    a: int = 0
    class Config(BaseConfig):
        code_generation_options = [ADD_DIALECT_SUPPORT]
@dataclass(kw_only=True)
class K1(K0):
    b: int = 1
    class Config(BaseConfig):
        code_generation_options = []
@dataclass(kw_only=True)
class K3(DataClassORJSONMixin):
    ks: Dict[str, K1] = field(default_factory=dict)
    class Config(BaseConfig):
        lazy_compilation = True
        code_generation_options = [ADD_DIALECT_SUPPORT]
""", ["K3(ks={}).to_jsonb(dialect=D1)", "K0(a=5).to_jsonb(dialect=D1)"]),
    ("discriminated hierarchy, two formats", """
@dataclass
class Base(DataClassMessagePackMixin):
    x: int
    class Config(BaseConfig):
        discriminator = Discriminator(field="kind", include_subtypes=True)
@dataclass
class Sub(Base):
    kind = "sub"
@dataclass
class Holder(DataClassMessagePackMixin):
    b: Base
""", ["Holder.from_dict({'b': {'x': 1, 'kind': 'sub'}})", "Holder.from_msgpack(msgpack.packb({'b': {'x': 1, 'kind': 'sub'}}))"]),
]


def oracle_scenarios(ctx: vlib.Ctx):
    for name, body, ops in SCENARIOS:
        src = SCEN_HEADER + body
        twin_src = src.replace("lazy_compilation = True", "lazy_compilation = False")
        orders = [list(ops), list(reversed(ops))]
        perm = list(ops)
        ctx.rng.shuffle(perm)
        orders.append(perm)
        for order in orders:
            case = {"fam": {"classes": []}, "src": src, "twin_src": twin_src, "ops": order}
            res = run_history(case)
            ctx.hist("scenarios", name)
            for k, op, got, exp, sig in res:
                ctx.count(("scenario", name, tuple(order), k))
                if sig is not None:
                    ctx.fail(f"scenario {name}: op #{k} `{op[:120]}` gives {short(got, 160)} but a fresh eager twin gives {short(exp, 160)}",
                             {"entry": "history", "mode": "scenario:" + name, "family": case["fam"], "source": src,
                              "twin_source": twin_src, "ops": order[:k + 1], "failing_op": k, "observed": got, "expected": exp},
                             sig)


# ---------------------------------------------------------------------------
# oracle 1c: discriminated class hierarchies (variants are compiled on demand by the generated dispatcher)
# ---------------------------------------------------------------------------

def gen_discriminated(rng):
    mix = rng.choice(["dict", "msgpack", "orjson", "toml", "msgpack"])
    base = F.MIXINS[mix][1]
    dsup = rng.random() < 0.7
    opts = "[ADD_DIALECT_SUPPORT]" if dsup else "[]"
    nsub = rng.randint(1, 3)
    lazy = [rng.random() < 0.5 for _ in range(nsub + 2)]
    out = [f"""
@dataclass(kw_only=True)
class Base({base}):
    x: int = 0
    class Config(BaseConfig):
        lazy_compilation = {lazy[0]}
        code_generation_options = {opts}
        discriminator = Discriminator(field="kind", include_subtypes=True)
"""]
    parents = ["Base"]
    fam = {"classes": [{"name": "Base", "parent": None, "fields": [], "kind": "mixin", "mixins": [mix], "dsup": dsup, "generic": 0}]}
    for i in range(nsub):
        par = rng.choice(parents)
        fam["classes"].append({"name": f"Sub{i}", "parent": parents.index(par), "fields": [], "kind": "mixin", "mixins": [mix],
                               "dsup": dsup, "generic": 0})
        out.append(f"""
@dataclass(kw_only=True)
class Sub{i}({par}):
    kind = "s{i}"
    y{i}: int = {i}
    class Config(BaseConfig):
        lazy_compilation = {lazy[i + 1]}
        code_generation_options = {opts}
""")
        parents.append(f"Sub{i}")
    out.append(f"""
@dataclass(kw_only=True)
class Holder({base}):
    b: Base
    bs: List[Base] = field(default_factory=list)
    class Config(BaseConfig):
        lazy_compilation = {lazy[-1]}
        code_generation_options = {opts}
""")
    src = SCEN_HEADER + "".join(out)
    ops = []
    _pk, up = F.ENTRY[mix]

    def variant():
        i = rng.randrange(nsub)
        return {"x": rng.randint(0, 9), "kind": f"s{i}", f"y{i}": rng.randint(0, 9)}
    for _ in range(rng.randint(3, 6)):
        cls = rng.choice(["Holder", "Holder", "Base"])
        d = variant() if cls == "Base" else {"b": variant(), "bs": [variant() for _ in range(rng.randint(0, 2))]}
        kws = []
        if dsup and rng.random() < 0.6:
            kws.append("dialect=" + rng.choice(["D1", "D2"]))
            if kws[0].endswith("D2"):
                d = json.loads(json.dumps(d), parse_int=lambda v: int(v) + 1000)
        r = rng.random()
        if mix == "dict" or r < 0.4:
            ops.append(f"{cls}.from_dict({d!r}{', ' + ', '.join(kws) if kws else ''})")
        elif mix == "msgpack" and r < 0.7:
            ops.append(f"{cls}.{up}(msgpack.packb({d!r}){', ' + ', '.join(kws) if kws else ''})")
        else:
            ops.append(f"{cls}.{up}({repr(d)!r}, {', '.join(kws + ['decoder=dec_lit'])})")
    fam["classes"].append({"name": "Holder", "parent": None, "fields": [], "kind": "mixin", "mixins": [mix], "dsup": dsup, "generic": 0})
    return src, src.replace("lazy_compilation = True", "lazy_compilation = False"), ops, {"mixin": mix, "dsup": dsup, "fam": fam}


def oracle_discriminated(ctx: vlib.Ctx, n: int):
    for _ in range(n):
        src, twin_src, ops, info = gen_discriminated(ctx.rng)
        case = {"fam": info["fam"], "src": src, "twin_src": twin_src, "ops": ops}
        res = run_history(case)
        ctx.hist("discriminated hierarchies", info["mixin"] + ("+dialects" if info["dsup"] else ""))
        for k, op, got, exp, sig in res:
            ctx.count(("discriminated", info["mixin"], info["dsup"], "dialect=" in op, op.split("(")[0], k == 0))
            if sig is not None:
                ctx.fail(f"discriminated hierarchy ({info['mixin']}): op #{k} `{op[:120]}` gives {short(got, 160)} but a fresh eager twin gives {short(exp, 160)}",
                         {"entry": "history", "mode": "discriminated", "family": case["fam"], "source": src, "twin_source": twin_src,
                          "ops": ops[:k + 1], "failing_op": k, "observed": got, "expected": exp}, sig)


# ---------------------------------------------------------------------------
# oracle 2: threads making the first call at once
# ---------------------------------------------------------------------------

TIMED_OUT = ["INCONCLUSIVE", "timed-out", ""]


def threaded_trial(src, ops, nthreads):
    """fresh family; thread i evaluates ops[i % len(ops)] after a common barrier. Returns list of outcomes."""
    mod = F.load(src, "th")
    out = [None] * nthreads
    bar = threading.Barrier(nthreads)

    def work(i):
        try:
            bar.wait(timeout=300)
        except threading.BrokenBarrierError:
            out[i] = TIMED_OUT
            return
        out[i] = F.run_op(mod, ops[i % len(ops)])
    ths = [threading.Thread(target=work, args=(i,)) for i in range(nthreads)]
    try:
        for t in ths:
            t.start()
        for t in ths:
            t.join(900)
    finally:
        F.unload(mod)
    # a thread that did not get through in time (loaded machine) says nothing about the schedule
    return [TIMED_OUT if o is None else o for o in out]


def oracle_threads(ctx: vlib.Ctx, nfam: int, reps: int):
    old = sys.getswitchinterval()
    try:
        for fi in range(nfam):
            case = gen_case(ctx.rng, nops=3, max_classes=4)
            if "skip" in case or case["mode"] == "eager" or not case["ops"]:
                continue
            # only ops whose sequential first call already equals the twin: the schedule is then the only variable
            ops, exps = [], []
            for op in case["ops"][:2]:
                exp = fresh_expected(case["twin_src"], op)
                try:
                    m = F.load(case["src"], "s")
                except BaseException:
                    break
                try:
                    got = F.run_op(m, op)
                finally:
                    F.unload(m)
                if got == exp and exp[0] == "OK":
                    ops.append(op)
                    exps.append(exp)
            if not ops:
                continue
            for r in range(reps):
                nth = ctx.rng.randint(2, 8)
                fast = (r % 2 == 1)
                sys.setswitchinterval(1e-6 if fast else old)
                outs = threaded_trial(case["src"], ops, nth)
                sys.setswitchinterval(old)
                ctx.count(("threads", case["mode"], nth, fast, len(ops)))
                ctx.hist("threads", f"n={nth}")
                if TIMED_OUT in outs:
                    ctx.hist("threads", "inconclusive (timed out)")
                    continue
                for i, o in enumerate(outs):
                    e = exps[i % len(ops)]
                    if o != e:
                        ctx.fail(f"{nth} threads making the first call at once on a {case['mode']} family: thread {i} `{ops[i % len(ops)][:100]}` gives {short(o, 160)}, eager twin {short(e, 160)}",
                                 {"entry": "threads", "mode": case["mode"], "family": case["fam"], "source": case["src"],
                                  "twin_source": case["twin_src"], "ops": ops, "threads": nth, "switchinterval": 1e-6 if fast else old,
                                  "observed": o, "expected": e},
                                 {"kind": "thread-schedule-dependence", "got": o[1] if o[0] == "EXC" else "OK"})
                        break
    finally:
        sys.setswitchinterval(old)


# ---------------------------------------------------------------------------
# run / replay
# ---------------------------------------------------------------------------

def run(ctx: vlib.Ctx):
    ctx.coverage["rule"] = (
        "random class families (2-5 classes: plain/mixin dataclasses with dict/json/orjson/msgpack/yaml/toml mixins, "
        "nested/Optional/List/Dict positions, self and forward references, inheritance, Generic[T] with G[int]/G[str], "
        "ADD_DIALECT_SUPPORT, TO_DICT_ADD_OMIT_NONE_FLAG; distinct rendered class names) in mode eager/lazy/postponed/mixed; "
        "a history of 3-8 public calls (to/from x format x dialect x class); every call is compared with the same call on a "
        "fresh eager twin family; distinct = (mode, feature set, entry point, dialect?, first-call?)")
    old = sys.getrecursionlimit()
    sys.setrecursionlimit(RECLIMIT)
    try:
        from harness.props import c14_coq
        import time
        phases = ctx.coverage.setdefault("phase_seconds", {})

        def phase(name, f, *a, **kw):
            t0 = time.time()
            try:
                return f(*a, **kw)
            finally:
                phases[name] = round(phases.get(name, 0) + time.time() - t0, 1)
        phase("theorems", c14_coq.theorems, ctx)
        cases = []
        phase("histories", oracle_histories, ctx, ctx.budget(60, 1300), keep_cases=cases)
        phase("histories-spec", oracle_histories, ctx, ctx.budget(60, 500), keep_cases=cases, focus="spec")
        phase("histories-kwargs", oracle_histories, ctx, ctx.budget(50, 500), keep_cases=cases, focus="kwargs")
        tie_ok = phase("correspondence", c14_coq.correspondence, ctx, cases)
        if not tie_ok or ctx.unshown:
            # a broken obligation / tie: search harder where the disagreement lives
            phase("search-harder", oracle_histories, ctx, ctx.budget(150, 600), focus="spec")
            phase("search-harder", oracle_histories, ctx, ctx.budget(100, 400), focus="kwargs")
        phase("scenarios", oracle_scenarios, ctx)
        phase("discriminated", oracle_discriminated, ctx, ctx.budget(75, 600))
        phase("threads", oracle_threads, ctx, ctx.budget(16, 150), ctx.budget(6, 12))
        # Config.allow_postponed_evaluation = False (last, so that the streams above are unchanged)
        apc_cases = []
        phase("histories-apc", oracle_histories, ctx, ctx.budget(40, 400), keep_cases=apc_cases, focus="apc")
        phase("correspondence", c14_coq.correspondence, ctx, apc_cases, tag="apc")
    finally:
        sys.setrecursionlimit(old)
    ctx.trusted += [
        "harness/c14fam.py: rendering of a family description as Python source and as the Coq `fam` term denote the same family",
        "observation of stub vs compiled: a method whose code object carries the keyword tuple of the lazy CodeBuilder(...) call "
        "(allow_postponed_evaluation=False) is a stub",
        "threads: the Coq schedule theorem is about GIL-atomic steps read-attr/compile/setattr/re-dispatch; pre-emption inside "
        "exec/CodeBuilder is only sampled by the barrier stress runs (2..8 threads, also with switchinterval 1e-6)",
    ]
    ctx.assumptions += [
        "families use distinct rendered class names (same-qualname classes are known finding D7 of C17)",
        "codec (non-nailed) builders are outside this check: lazy stubs exist only for nailed builders",
    ]


def replay(rep: dict) -> int:
    old = sys.getrecursionlimit()
    sys.setrecursionlimit(RECLIMIT)
    try:
        if rep.get("entry") == "history":
            case = {"fam": rep["family"], "src": rep["source"], "twin_src": rep["twin_source"], "ops": rep["ops"]}
            res = run_history(case)
            for k, op, got, exp, sig in res:
                print(f"op #{k}: {op[:200]}\n   family under test: {short(got, 300)}\n   fresh eager twin : {short(exp, 300)}")
            if res and res[-1][4] is not None:
                print("REPRODUCED", res[-1][4])
                return 1
            print("not reproduced")
            return 0
        if rep.get("entry") == "threads":
            exps = [fresh_expected(rep["twin_source"], op) for op in rep["ops"]]
            oldsw = sys.getswitchinterval()
            try:
                for r in range(300):
                    sys.setswitchinterval(rep.get("switchinterval", oldsw) if r % 2 else 1e-6)
                    outs = threaded_trial(rep["source"], rep["ops"], rep["threads"])
                    for i, o in enumerate(outs):
                        if o != TIMED_OUT and o != exps[i % len(exps)]:
                            print(f"trial {r} thread {i}: {short(o, 300)} expected {short(exps[i % len(exps)], 300)}")
                            print("REPRODUCED")
                            return 1
            finally:
                sys.setswitchinterval(oldsw)
            print("not reproduced in 300 trials")
            return 0
        if rep.get("kind") == "no-failing-input-found":
            print("no failing input was recorded for this run; broken obligations:")
            print(json.dumps(rep.get("not_shown"), indent=1)[:3000])
            return 2
        print("unknown replay kind")
        return 2
    finally:
        sys.setrecursionlimit(old)
