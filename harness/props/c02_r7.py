"""C02, round 7: three generator dimensions the blind round showed missing.

1. union_part    -- unions whose members mix pass-through types (int/str/float/bool/None) with CONVERTING types
                    (str()-rendered leaves, comprehension-packed collections, isoformat / .value / base64 members) in ANY
                    declared order, at any container depth, codec and mixin: the documented form of a union value is the
                    documented form of the member whose class the value has (reference: uref).
2. samename_part -- one codec shape / holder mentioning several dataclasses (and enums) that carry the SAME class name in
                    different modules: every instance is rendered with the fields of ITS class.
3. sequence_part -- 'every entry point': a class with ADD_DIALECT_SUPPORT and several format mixins, a call-time dialect, and a
                    SEQUENCE of calls through different output methods (to_dict / to_msgpack / to_jsonb / to_toml, observed at the
                    encoder boundary); each result must be the documented form for (format, dialect), whatever was called before.

Every part draws from its own random.Random(seed-derived) stream so that the streams of the older parts stay what they were."""
from __future__ import annotations

import base64
import itertools
import json
import random
import sys

from harness import gen, ref

_ctr = itertools.count()

# ---------------------------------------------------------------------------------------------------------------------
# 1. unions: converting members next to pass-through members, any declared order
# ---------------------------------------------------------------------------------------------------------------------

PASS = ["int", "str", "float", "bool"]
# packers that raise for values of every other member class used here (so the library's try/except chain falls through)
STRICT_LEAVES = ["date", "datetime", "time", "timedelta", "timezone"]
# packers that accept (nearly) any value: str(value) resp. a comprehension / list(value)
GREEDY_LEAVES = ["Decimal", "UUID", "Fraction", "IPv4Address", "IPv6Address", "IPv4Network", "IPv6Interface"]


def _greedy(rng) -> gen.T:
    c = rng.random()
    if c < 0.55:
        return gen.T("leaf", name=rng.choice(GREEDY_LEAVES))
    if c < 0.7:
        return gen.T("frozenset", [gen.T("str")])
    if c < 0.8:
        return gen.T("tuplevar", [gen.T("str")])
    if c < 0.9:
        return gen.T("set", [gen.T("int")])
    return gen.T("tuplevar", [gen.T("leaf", name="Decimal")])


def mk_union(sg, rng) -> gen.T:
    """>= 1 pass-through member, >= 1 converting member; the declared order is random except that the member with a
    never-failing packer (at most one) stands after the other converting members (which member of several converting ones
    takes a value is C11's question; here every value has exactly one member of its class and the packers before it refuse it)"""
    passm = [gen.T(k) for k in rng.sample(PASS, rng.choice([1, 1, 2, 3]))]
    strict = []
    for _ in range(rng.choice([0, 0, 1, 1, 2])):
        c = rng.random()
        if c < 0.6:
            m = gen.T("leaf", name=rng.choice(STRICT_LEAVES))
        elif c < 0.85:
            m = sg.enum_type()
        else:
            m = gen.T("bytes")
        if all(m.key() != x.key() for x in strict):
            strict.append(m)
    conv = list(strict)
    if not conv or rng.random() < 0.75:
        conv.append(_greedy(rng))
    # interleave: converting members keep their relative order, pass-through members go to random slots
    members = list(conv)
    for p in passm:
        members.insert(rng.randrange(0, len(members) + 1), p)
    if rng.random() < 0.6 and members[0].kind in PASS:
        # the interesting order: a converting member first
        j = next(i for i, m in enumerate(members) if m.kind not in PASS)
        members[0], members[j] = members[j], members[0]
        # restore the relative order of the converting members
        ci = [i for i, m in enumerate(members) if m.kind not in PASS]
        for i, m in zip(ci, conv):
            members[i] = m
    return gen.T("union", members)


def wrap(rng, u: gen.T, levels: int) -> gen.T:
    t = u
    for _ in range(levels):
        c = rng.random()
        if c < 0.3:
            t = gen.T("list", [t])
        elif c < 0.5:
            t = gen.T("dict", [gen.T("str"), t])
        elif c < 0.65:
            t = gen.T("tuplevar", [t])
        elif c < 0.8:
            t = gen.T("tuplefix", [gen.T("int"), t])
        else:
            t = gen.T("opt", [t])
    return t


def umatch(m: gen.T, v, fam, ns) -> bool:
    k = m.kind
    if k == "bytes":
        return type(v) is bytes
    if k == "frozenset":
        return type(v) is frozenset
    if k == "set":
        return type(v) is set
    if k == "tuplevar":
        return type(v) is tuple
    return ref.member_matches(m, v, fam, ns)


def uref(t: gen.T, v, fam, ns):
    """documented basic form; a union value takes the form of the member whose class it has (members have distinct classes)"""
    k = t.kind
    if k == "union":
        ms = [m for m in t.args if umatch(m, v, fam, ns)]
        if len(ms) != 1:
            raise ref.RefError("ambiguous union value")
        return ref.ref_encode(ms[0], v, fam, ns)
    if k == "opt":
        return None if v is None else uref(t.args[0], v, fam, ns)
    if k in ("list", "tuplevar"):
        return [uref(t.args[0], x, fam, ns) for x in v]
    if k == "tuplefix":
        return [uref(a, x, fam, ns) for a, x in zip(t.args, v)]
    if k == "dict":
        return {a: uref(t.args[1], b, fam, ns) for a, b in v.items()}
    if k == "data":
        return {f.name: uref(f.ty, getattr(v, f.name), fam, ns) for f in fam.get(t.name).fields}
    return ref.ref_encode(t, v, fam, ns)


def uvalue(rng, vg, t: gen.T, pick, ns, fam):
    """a conforming value in which every union position holds a value of member `pick` (None: random member)"""
    k = t.kind
    if k == "union":
        m = t.args[pick % len(t.args)] if pick is not None else rng.choice(t.args)
        return vg.value(m)
    if k == "opt":
        return None if rng.random() < 0.15 else uvalue(rng, vg, t.args[0], pick, ns, fam)
    if k == "list":
        return [uvalue(rng, vg, t.args[0], pick, ns, fam) for _ in range(rng.randrange(1, 4))]
    if k == "tuplevar":
        return tuple(uvalue(rng, vg, t.args[0], pick, ns, fam) for _ in range(rng.randrange(1, 4)))
    if k == "tuplefix":
        return tuple(uvalue(rng, vg, a, pick, ns, fam) for a in t.args)
    if k == "dict":
        return {key: uvalue(rng, vg, t.args[1], pick, ns, fam) for key in rng.sample(["a", "b", "", "k k"], rng.randrange(1, 3))}
    if k == "data":
        return ns[t.name](**{f.name: uvalue(rng, vg, f.ty, pick, ns, fam) for f in fam.get(t.name).fields})
    return vg.value(t)


def union_part(ctx):
    from mashumaro.codecs.basic import BasicEncoder
    rng = random.Random(f"c02-union-{ctx.seed}")
    for i in range(ctx.budget(150, 800)):
        mixin = rng.random() < 0.5
        sg = gen.SchemaGen(rng, gen.GenOpts(depth=2, named=True, mixin=mixin))
        sg.tag = f"u7{i}_"
        u = mk_union(sg, rng)
        t = wrap(rng, u, rng.choice([0, 1, 1, 2, 3]))
        if rng.random() < 0.6:
            spec = gen.ClassSpec("data", sg.fresh("H"), mixin=mixin)
            spec.fields.append(gen.FieldSpec("n", gen.T("int")))
            spec.fields.append(gen.FieldSpec("x", t))
            if rng.random() < 0.4:
                spec.fields.append(gen.FieldSpec("y", wrap(rng, mk_union(sg, rng), rng.choice([0, 1]))))
            sg.fam.classes.append(spec)
            t = gen.T("data", name=spec.name)
        fam = sg.fam
        ann = gen.py_ann(t)
        try:
            ns = fam.build()
            ty = gen.resolve(t, ns)
            enc = BasicEncoder(ty)
        except Exception as e:
            ctx.fail(f"union schema {ann} cannot be built: {type(e).__name__}: {str(e)[:200]}",
                     {"entry": "codec_build", "source": fam.source(), "type": ann, "expected": "ok"}, {"kind": "encoder-build"})
            fam.dispose()
            continue
        vg = gen.ValueGen(rng, fam)
        for pick in list(range(len(u.args))) + [None, None]:
            v = uvalue(rng, vg, t, pick, ns, fam)
            ctx.count(("union", t.key(), repr(v)))
            try:
                exp = uref(t, v, fam, ns)
            except ref.RefError:
                continue
            first_conv = u.args[0].kind not in PASS
            ctx.hist("union_order", "converting-first" if first_conv else "pass-through-first")
            for entry in ("codec_encode", "mixin_to_dict"):
                if entry == "mixin_to_dict" and not (t.kind == "data" and mixin):
                    continue
                what = None
                try:
                    got = enc.encode(v) if entry == "codec_encode" else v.to_dict()
                    obs = "ok:" + gen.py_src(got)
                    if not gen.same_ordered(got, exp):
                        what = f"differs from the documented form {gen.py_src(exp)[:200]}"
                    elif not gen.is_basic(got):
                        what = "result is not made of str/int/float/bool/None/list/dict"
                    else:
                        try:
                            json.dumps(got)
                        except Exception as e:
                            what = f"json.dumps rejects the result: {type(e).__name__}"
                except Exception as e:
                    what = f"raised {type(e).__name__}: {str(e)[:120]}"
                    obs = f"exc:{type(e).__name__}"
                if what:
                    ctx.fail(f"union member order: {ann} {entry} of {gen.py_src(v)[:160]}: {obs[:200]} {what}",
                             {"entry": entry, "source": fam.source(), "type": ann, "input_src": gen.py_src(v), "observed": obs,
                              "expected": "ok:" + gen.py_src(exp)}, {"kind": "encode-ref"})
        fam.dispose()


# ---------------------------------------------------------------------------------------------------------------------
# 2. same-named classes from different modules inside one codec shape / holder
# ---------------------------------------------------------------------------------------------------------------------

def _b64(b: bytes) -> str:
    return base64.encodebytes(b).decode()


# field kinds: annotation, [(value source, documented basic form)]
FIELD_KINDS = {
    "int": ("int", [("5", 5), ("-7", -7), ("0", 0)]),
    "str": ("str", [("'x'", "x"), ("''", ""), ("'5'", "5")]),
    "bool": ("bool", [("True", True), ("False", False)]),
    "float": ("float", [("1.5", 1.5), ("-0.0", -0.0)]),
    "decimal": ("decimal.Decimal", [("decimal.Decimal('2.50')", "2.50"), ("decimal.Decimal('5')", "5"), ("decimal.Decimal('-0.0')", "-0.0")]),
    "date": ("datetime.date", [("datetime.date(2020, 1, 2)", "2020-01-02"), ("datetime.date(1999, 12, 31)", "1999-12-31")]),
    "uuid": ("uuid.UUID", [("uuid.UUID(int=5)", "00000000-0000-0000-0000-000000000005")]),
    "bytes": ("bytes", [("b'\\x00'", "AA==\n"), ("b''", ""), ("b'abc'", "YWJj\n")]),
    "optstr": ("Optional[str]", [("None", None), ("'n'", "n")]),
    "listint": ("List[int]", [("[1, 2]", [1, 2]), ("[]", [])]),
    "listdec": ("List[decimal.Decimal]", [("[decimal.Decimal('1.0')]", ["1.0"]), ("[]", [])]),
    "timedelta": ("datetime.timedelta", [("datetime.timedelta(seconds=-90)", -90.0), ("datetime.timedelta(days=1)", 86400.0)]),
}
CLASS_NAMES = ["Event", "Item", "Order"]
SAMENAME_PRELUDE = ("import dataclasses, datetime, decimal, enum, uuid\nfrom dataclasses import dataclass, field\nfrom typing import *\n"
                    "from mashumaro import DataClassDictMixin\n")


def _samename_scenario(rng):
    """modules m0..m{k-1}; each defines the classes of CLASS_NAMES it was dealt (different fields per module, sometimes the very
    same field NAMES with other types), an enum `Status` with other values, and possibly `Order` holding its own module's `Item`"""
    i = next(_ctr)
    nmod = rng.choice([2, 2, 3])
    mods, specs = {}, {}       # specs[(mod, cls)] = [(field name, kind | ('cls', name) | ('list', name) | 'status')]
    names = rng.sample(CLASS_NAMES[:2], rng.choice([1, 2]))
    with_order = rng.random() < 0.5
    shared_names = rng.random() < 0.6
    for k in range(nmod):
        mn = f"verif_c02sn{i}_v{k}"
        mixin = rng.random() < 0.25
        base = "(DataClassDictMixin)" if mixin else ""
        src = SAMENAME_PRELUDE
        members = [("OPEN", f"o{k}"), ("DONE", k + 1)]
        src += "class Status(enum.Enum):\n" + "".join(f"    {a} = {b!r}\n" for a, b in members)
        for cn in names:
            nf = rng.randrange(1, 5)
            kinds = [rng.choice(sorted(FIELD_KINDS)) for _ in range(nf)]
            fl = []
            for j, kd in enumerate(kinds):
                fn = f"f{j}" if shared_names else f"{kd}_{k}{j}"
                fl.append((fn, kd))
            if rng.random() < 0.3:
                fl.append(("st", "status"))
            specs[(mn, cn)] = fl
            src += f"@dataclass\nclass {cn}{base}:\n" + "".join(
                f"    {fn}: {'Status' if kd == 'status' else FIELD_KINDS[kd][0]}\n" for fn, kd in fl)
        if with_order:
            inner = rng.choice(names)
            fl = [("id", "int"), ("one", ("cls", inner)), ("many", ("list", inner))]
            specs[(mn, "Order")] = fl
            src += f"@dataclass\nclass Order{base}:\n    id: int\n    one: {inner}\n    many: List[{inner}]\n"
        mods[mn] = (src, members)
    return i, mods, specs, names + (["Order"] if with_order else [])


def _samename_value(rng, specs, mods, mn, cn, depth=0):
    """(value source, documented form) of an instance of mn.cn"""
    args, exp = [], {}
    for fn, kd in specs[(mn, cn)]:
        if kd == "status":
            a, b = rng.choice(mods[mn][1])
            s, e = f"{mn}.Status.{a}", b
        elif isinstance(kd, tuple) and kd[0] == "cls":
            s, e = _samename_value(rng, specs, mods, mn, kd[1], depth + 1)
        elif isinstance(kd, tuple):
            items = [_samename_value(rng, specs, mods, mn, kd[1], depth + 1) for _ in range(rng.randrange(0, 3))]
            s, e = "[" + ", ".join(x for x, _ in items) + "]", [y for _, y in items]
        else:
            s, e = rng.choice(FIELD_KINDS[kd][1])
        args.append(f"{fn}={s}")
        exp[fn] = e
    return f"{mn}.{cn}(" + ", ".join(args) + ")", exp


def _samename_shape(rng, mods, specs, classes):
    """an annotation mentioning the same-named classes of >= 2 modules + a function producing (value source, documented form)"""
    mns = list(mods)
    cn = rng.choice(classes)
    use = rng.sample(mns, rng.choice([2, len(mns)]))
    if rng.random() < 0.5:
        rng.shuffle(use)
    c = rng.random()

    def inst(mn):
        return _samename_value(rng, specs, mods, mn, cn)

    def lst(mn):
        items = [inst(mn) for _ in range(rng.randrange(1, 3))]
        return "[" + ", ".join(x for x, _ in items) + "]", [y for _, y in items]
    if c < 0.25:
        ann = "Tuple[" + ", ".join(f"{m}.{cn}" for m in use) + "]"

        def mk():
            xs = [inst(m) for m in use]
            return "(" + ", ".join(x for x, _ in xs) + ",)", [y for _, y in xs]
    elif c < 0.5:
        ann = "Dict[str, Tuple[" + ", ".join(f"List[{m}.{cn}]" for m in use) + "]]"

        def mk():
            xs = [lst(m) for m in use]
            return "{'log': (" + ", ".join(x for x, _ in xs) + ",)}", {"log": [y for _, y in xs]}
    elif c < 0.65:
        ann = "Tuple[" + ", ".join(f"Optional[{m}.{cn}]" for m in use) + "]"

        def mk():
            xs = [inst(m) if rng.random() < 0.8 else ("None", None) for m in use]
            return "(" + ", ".join(x for x, _ in xs) + ",)", [y for _, y in xs]
    else:
        # a holder dataclass of the main module (plain: codec only; mixin: to_dict as well)
        ann = "Holder"

        def mk():
            xs = [inst(m) for m in use]
            ls = lst(use[-1])
            return ("Holder(" + ", ".join(f"a{j}={x}" for j, (x, _) in enumerate(xs)) + f", tail={ls[0]})",
                    {**{f"a{j}": y for j, (_, y) in enumerate(xs)}, "tail": ls[1]})
    return ann, use, cn, mk


def _samename_obs(sc, entry, vsrc):
    from mashumaro.codecs.basic import BasicEncoder
    try:
        for mn, src in sc["mods"].items():
            gen.build_module(src, mn)
        ns = gen.build_module(sc["main"])
        v = eval(vsrc, dict(ns))
        if entry == "c02r7_samename_mixin":
            got = v.to_dict()
        else:
            got = BasicEncoder(eval(sc["type"], dict(ns))).encode(v)
        return "ok:" + gen.py_src(got)
    except Exception as e:
        return f"exc:{type(e).__name__}"
    finally:
        for mn in sc["mods"]:
            sys.modules.pop(mn, None)


def samename_part(ctx):
    from mashumaro.codecs.basic import BasicEncoder
    rng = random.Random(f"c02-samename-{ctx.seed}")
    for _ in range(ctx.budget(60, 300)):
        i, mods, specs, classes = _samename_scenario(rng)
        ann, use, cn, mk = _samename_shape(rng, mods, specs, classes)
        mixin_holder = ann == "Holder" and rng.random() < 0.5
        main = SAMENAME_PRELUDE + "import " + ", ".join(mods) + "\n"
        if ann == "Holder":
            main += (f"@dataclass\nclass Holder{'(DataClassDictMixin)' if mixin_holder else ''}:\n"
                     + "".join(f"    a{j}: {m}.{cn}\n" for j, m in enumerate(use)) + f"    tail: List[{use[-1]}.{cn}]\n")
        sc = {"mods": {mn: src for mn, (src, _) in mods.items()}, "main": main, "type": ann}
        ctx.hist("samename_shape", ann.split("[")[0] + ("/mixin" if mixin_holder else ""))
        try:
            for mn, src in sc["mods"].items():
                gen.build_module(src, mn)
            ns = gen.build_module(main)
            ty = eval(ann, dict(ns))
            enc = BasicEncoder(ty)
        except Exception as e:
            ctx.fail(f"same-named classes: BasicEncoder({ann}) cannot be built: {type(e).__name__}: {str(e)[:200]}",
                     {"entry": "c02r7_samename_codec", "scenario": sc, "input_src": "None", "observed": f"exc:{type(e).__name__}", "expected": "ok"},
                     {"kind": "encoder-build"})
            for mn in mods:
                sys.modules.pop(mn, None)
            continue
        for _k in range(3):
            vsrc, exp = mk()
            want = "ok:" + gen.py_src(exp)
            ctx.count(("samename", ann, vsrc))
            v = eval(vsrc, dict(ns))
            for entry in ("c02r7_samename_codec", "c02r7_samename_mixin"):
                if entry.endswith("mixin") and not mixin_holder:
                    continue
                try:
                    got = enc.encode(v) if entry.endswith("codec") else v.to_dict()
                    obs = "ok:" + gen.py_src(got)
                    ok = gen.same_ordered(got, exp)
                except Exception as e:
                    obs, ok = f"exc:{type(e).__name__}", False
                if not ok:
                    ctx.fail(f"same-named classes of different modules in {ann} ({entry[6:]}): {vsrc[:160]} gives {obs[:220]}, documented {want[:220]}",
                             {"entry": entry, "scenario": sc, "input_src": vsrc, "observed": obs, "expected": want}, {"kind": "encode-ref"})
        for mn in mods:
            sys.modules.pop(mn, None)


# ---------------------------------------------------------------------------------------------------------------------
# 3. sequences of entry points under a call-time dialect
# ---------------------------------------------------------------------------------------------------------------------

SEQ_FORMATS = {"dict": (None, "to_dict"), "msgpack": ("DataClassMessagePackMixin", "to_msgpack"),
               "orjson": ("DataClassORJSONMixin", "to_jsonb"), "toml": ("DataClassTOMLMixin", "to_toml")}
SEQ_PRELUDE = ("import dataclasses, datetime, decimal, uuid\nfrom dataclasses import dataclass, field\nfrom typing import *\n"
               "from mashumaro import DataClassDictMixin\nfrom mashumaro.config import ADD_DIALECT_SUPPORT, BaseConfig\nfrom mashumaro.dialect import Dialect\n"
               "from mashumaro.mixins.msgpack import DataClassMessagePackMixin\nfrom mashumaro.mixins.orjson import DataClassORJSONMixin\n"
               "from mashumaro.mixins.toml import DataClassTOMLMixin\n"
               "class Same(Dialect):\n    pass\n"
               "class Unrelated(Dialect):\n    serialization_strategy = {complex: {'serialize': str, 'deserialize': complex}}\n"
               "class IntAsStr(Dialect):\n    serialization_strategy = {int: {'serialize': str, 'deserialize': int}}\n"
               "def _ident(d, **kw):\n    return d\n")
# kind -> annotation, [(source, python value source for the native form, basic form)]
SEQ_KINDS = {
    "int": ("int", [("5", 5), ("-7", -7)]),
    "str": ("str", [("'\\xe9'", "\xe9"), ("''", "")]),
    "bytes": ("bytes", [("b'\\x00'", "AA==\n"), ("b''", ""), ("bytes(range(70))", _b64(bytes(range(70))))]),
    "bytearray": ("bytearray", [("bytearray(b'ab')", "YWI=\n")]),
    "datetime": ("datetime.datetime", [("datetime.datetime(2020, 1, 2, 3, 4, 5)", "2020-01-02T03:04:05")]),
    "date": ("datetime.date", [("datetime.date(2020, 1, 2)", "2020-01-02")]),
    "time": ("datetime.time", [("datetime.time(3, 4, 5)", "03:04:05")]),
    "uuid": ("uuid.UUID", [("uuid.UUID(int=5)", "00000000-0000-0000-0000-000000000005")]),
    "decimal": ("decimal.Decimal", [("decimal.Decimal('2.50')", "2.50")]),
    "optstr": ("Optional[str]", [("None", None), ("'n'", "n")]),
    "optbytes": ("Optional[bytes]", [("None", None), ("b'q'", "cQ==\n")]),
}
SEQ_NATIVE = {"dict": set(), "msgpack": {"bytes", "bytearray", "optbytes"}, "orjson": {"datetime", "date", "time", "uuid"},
              "toml": {"datetime", "date", "time"}}


class _Native:
    """marks 'the python object itself' in an expected document"""
    def __init__(self, src):
        self.src = src


def _seq_scenario(rng):
    fmts = rng.sample(["msgpack", "orjson", "toml"], rng.choice([1, 2, 2, 3]))
    kinds = sorted(SEQ_KINDS)
    # make sure a native type of every chosen format is present somewhere
    need = [rng.choice(sorted(SEQ_NATIVE[f])) for f in fmts]
    chunk = [("c0", rng.choice(need))] + [(f"c{j + 1}", rng.choice(kinds)) for j in range(rng.randrange(0, 3))]
    top = [(f"t{j}", kd) for j, kd in enumerate(need + [rng.choice(kinds) for _ in range(rng.randrange(0, 3))])]
    rng.shuffle(top)
    nested = rng.choice(["none", "one", "list", "dictlist"])
    chunk_mixin = rng.random() < 0.3
    # README: a call-time dialect reaches a nested dataclass only if that class has ADD_DIALECT_SUPPORT itself
    chunk_dialect = rng.random() < 0.5
    bases = ", ".join(SEQ_FORMATS[f][0] for f in fmts)
    src = SEQ_PRELUDE
    src += f"@dataclass\nclass Chunk{'(' + bases + ')' if chunk_mixin else ''}:\n" + "".join(f"    {fn}: {SEQ_KINDS[kd][0]}\n" for fn, kd in chunk)
    if chunk_dialect:
        src += "    class Config(BaseConfig):\n        code_generation_options = [ADD_DIALECT_SUPPORT]\n"
    src += f"@dataclass\nclass Blob({bases}):\n" + "".join(f"    {fn}: {SEQ_KINDS[kd][0]}\n" for fn, kd in top)
    src += {"none": "", "one": "    part: Chunk\n", "list": "    part: List[Chunk]\n", "dictlist": "    part: Dict[str, List[Chunk]]\n"}[nested]
    src += "    class Config(BaseConfig):\n        code_generation_options = [ADD_DIALECT_SUPPORT]\n"

    def rec(fields):
        return [(fn, kd) + rng.choice(SEQ_KINDS[kd][1]) for fn, kd in fields]
    tv = rec(top)
    chunks = [rec(chunk) for _ in range({"none": 0, "one": 1, "list": rng.randrange(0, 3), "dictlist": rng.randrange(1, 3)}[nested])]

    def csrc(c):
        return "Chunk(" + ", ".join(f"{fn}={s}" for fn, _, s, _ in c) + ")"
    part_src = {"none": None, "one": csrc(chunks[0]) if chunks else None, "list": "[" + ", ".join(map(csrc, chunks)) + "]",
                "dictlist": "{'a': [" + ", ".join(map(csrc, chunks)) + "], '': []}"}[nested]
    vsrc = "Blob(" + ", ".join([f"{fn}={s}" for fn, _, s, _ in tv] + ([f"part={part_src}"] if part_src else [])) + ")"

    def doc(fmt, dialect):
        """documented document handed to the encoder of `fmt` under the call-time dialect (as python source)"""
        def one(rows, reached=True):
            out = []
            for fn, kd, s, basic in rows:
                if fmt == "toml" and s == "None":
                    continue
                if kd in SEQ_NATIVE[fmt] and s != "None":
                    out.append(f"{fn!r}: {s}")
                elif kd == "int" and dialect == "IntAsStr" and reached:
                    out.append(f"{fn!r}: {str(basic)!r}")
                else:
                    out.append(f"{fn!r}: {basic!r}")
            return out
        items = one(tv)
        cs = ["{" + ", ".join(one(c, chunk_dialect)) + "}" for c in chunks]
        if nested == "one":
            items.append(f"'part': {cs[0]}")
        elif nested == "list":
            items.append("'part': [" + ", ".join(cs) + "]")
        elif nested == "dictlist":
            items.append("'part': {'a': [" + ", ".join(cs) + "], '': []}")
        return "{" + ", ".join(items) + "}"
    return src, vsrc, fmts, doc


def _seq_run(src, vsrc, calls):
    """fresh module (hence fresh classes and caches); performs the calls in order; returns the list of observations"""
    ns = gen.build_module(src)
    v = eval(vsrc, dict(ns))
    out = []
    for fmt, dialect in calls:
        kw = {"dialect": ns[dialect]} if dialect else {}
        try:
            if fmt == "dict":
                got = v.to_dict(**kw)
            else:
                got = getattr(v, SEQ_FORMATS[fmt][1])(ns["_ident"], **kw)
            out.append("ok:" + gen.py_src(got))
        except Exception as e:
            out.append(f"exc:{type(e).__name__}")
    return out


def _seq_expected(src, doc, calls):
    ns = gen.build_module(src)
    return ["ok:" + gen.py_src(eval(doc(fmt, dialect), dict(ns))) for fmt, dialect in calls]


def sequence_part(ctx):
    rng = random.Random(f"c02-sequence-{ctx.seed}")
    for _ in range(ctx.budget(80, 400)):
        src, vsrc, fmts, doc = _seq_scenario(rng)
        entries = ["dict"] + fmts
        dialects = rng.sample(["Same", "Unrelated", "IntAsStr"], 2)
        d0 = dialects[0]
        # at least two DIFFERENT output methods under the same call-time dialect, then a random tail
        a, b = rng.sample(entries, 2)
        calls = [(a, d0), (b, d0)]
        for _k in range(rng.randrange(0, 4)):
            calls.append((rng.choice(entries), rng.choice([None, d0, d0, dialects[1]])))
        if rng.random() < 0.3:
            calls.insert(0, (rng.choice(entries), None))
        ctx.count(("sequence", src, vsrc, tuple(calls)))
        ctx.hist("sequence_first_two", f"{a}->{b}")
        try:
            exp = _seq_expected(src, doc, calls)
            obs = _seq_run(src, vsrc, calls)
        except Exception as e:
            ctx.fail(f"entry-point sequence: class cannot be created / used: {type(e).__name__}: {str(e)[:200]}",
                     {"entry": "c02r7_sequence", "source": src, "input_src": vsrc, "calls": calls, "observed": [f"exc:{type(e).__name__}"], "expected": []},
                     {"kind": "mixin-build", "fmt": "sequence"})
            continue
        for j, (o, e) in enumerate(zip(obs, exp)):
            if o != e:
                fmt, dialect = calls[j]
                hist = " ; ".join(f"{SEQ_FORMATS[f][1]}({'dialect=' + d if d else ''})" for f, d in calls[:j])
                ctx.fail(f"entry-point sequence [{hist}] then {SEQ_FORMATS[fmt][1]}(dialect={dialect}) hands the encoder {o[:200]}, documented {e[:200]}",
                         {"entry": "c02r7_sequence", "source": src, "input_src": vsrc, "calls": [list(c) for c in calls], "observed": obs, "expected": exp},
                         {"kind": "encode-native-mixin" if fmt != "dict" else "encode-ref", "fmt": fmt})
                break


def run_all(ctx):
    union_part(ctx)
    samename_part(ctx)
    sequence_part(ctx)


def replay(rep: dict):
    """returns None when the entry is not one of this module's"""
    entry = rep.get("entry", "")
    if entry in ("c02r7_samename_codec", "c02r7_samename_mixin"):
        obs = _samename_obs(rep["scenario"], entry, rep["input_src"])
        print("observed:", obs, "\nexpected:", rep["expected"])
        return 1 if obs != rep["expected"] else 0
    if entry == "c02r7_sequence":
        obs = _seq_run(rep["source"], rep["input_src"], [tuple(c) for c in rep["calls"]])
        print("calls   :", rep["calls"], "\nobserved:", obs, "\nexpected:", rep["expected"])
        return 1 if obs != rep["expected"] else 0
    return None
