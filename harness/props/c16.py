"""C16 - schema-supplied strings are data, never code.

1. theorems (coq/props/C16_strings.v): repr/lex round trip for ALL strings, the K10 splice
   table regenerated from /repo (every data splice goes through repr()/ascii() in a context
   where the literal keeps its meaning).
2. correspondence: py_repr / py_ascii / py_repr_bytes / lex_string / lex_bytes of the Coq model
   vs. the running CPython (repr, ascii, tokenize + compile/eval) on an adversarial corpus.
3. oracle on the real implementation: classes with adversarial strings at every position the
   property names; keys/values used must be exactly the string; an embedded sentinel side
   effect must never fire.
"""
from __future__ import annotations

import builtins
import io
import json
import os
import sys
import tokenize
import types
import warnings

from harness import vlib

# ---------------------------------------------------------------------------
# strings
# ---------------------------------------------------------------------------

SENTINEL = "C16_HIT"

# characters that matter for the lexer / repr, plus representatives of every repr class
ALPHABET = [
    "'", '"', "\\", "\n", "\r", "\0", "\t", " ", "{", "}", "%", "(", ")", "[", "]", ",", ":", "#", "$",
    "a", "b", "r", "f", "u", "U", "x", "n", "t", "0", "7", "8", "9", "A", "_", "N", "-", ".", "=",
    "\x01", "\x1b", "\x1f", "\x7f", "\x80", "\x85", "\xa0", "\xad", "\xe9", "\xff",
    "\u0100", "\u0301", "\u2028", "\u2029", "\u200b", "\ufeff", "\uffff", "\ue000",
    "\ud800", "\udfff", "\udc80", "\U0001f600", "\U00010000", "\U000e0001", "\U0010ffff", "\u4e2d", "\ufb01",
]

# code fragments that close the surrounding literal / call in the pre-fix generator
_HIT = f"__import__('builtins').{SENTINEL}.append(1)"
FRAGMENTS = [
    f"x', MISSING) or {_HIT} or d.get('x",
    f"x'] or {_HIT} or value['x",
    f"x']; {_HIT}; d['x",
    f"x') or {_HIT} or (lambda *a: 0)('x",
    f"x'}} or {_HIT} or {{'x",
    f"x' or {_HIT} or 'x",
    f'x" or {_HIT} or "x',
    f'x", MISSING) or {_HIT} or d.get("x',
    f"x': 0, **({_HIT} or {{}}), 'y",
    f"'''+str({_HIT})+'''",
    f"\\', MISSING) or {_HIT} or d.get(\\'x",
    f"x\\",
    f"x\\' or {_HIT} #",
    f"x'\n{_HIT}\n'x",
    f"x'\n    {_HIT}\n    'x",
    f"{{{_HIT}}}",
    f"%s%(x)s{{0}}{{}}",
    f"x' if {_HIT} else 'x",
]

CORPUS = [
    "", "a", "it's", 'a"b', "'\"", "'", '"', "''", '""', "'''", '"""', "\\", "\\\\", "\\'", "\\n", "\n", "\r", "\r\n",
    "\0", "\t", "a b", "{brace}", "{", "}", "{{}}", "%s", "%", "back\\slash", "new\nline", "\u00fc\u00f1\u00ed", "\x7f", "\x80", "\x9f", "\xa0",
    "\xad", "\u0301", "e\u0301", "\u2028", "\u2029", "\ud800", "\udfff", "\U0001f600", "\U0001f600", "\U0010ffff", "\uffff", "\ufffe",
    "\\x41", "\\u0041", "\\N{BULLET}", "\\U00000041", "\\101", "\\x4", "\\u12", "None", "True", "MISSING", "d", "value", "kwargs",
    "__class__", "x" * 200, "'" * 7, "\\" * 7, "a'b\"c\\d\ne", "\x00\x01\x02", "\x1b[0m", " ", "  ", "\u200b", "\ufeff", "#", "# x", "a#'",
    "r'x'", "b'x'", "f'{x}'", "rb", "0", "1e5", "-", "a.b", "a-b", "a b c", "\u4e2d\u6587", "\ufb01", "\u00aa", "\u2160",
] + FRAGMENTS


def rand_string(rng, maxlen=8) -> str:
    mode = rng.random()
    if mode < 0.12:
        return rng.choice(CORPUS)
    if mode < 0.2:
        # mutate a fragment
        f = rng.choice(FRAGMENTS)
        i = rng.randrange(len(f) + 1)
        return f[:i] + rng.choice(ALPHABET) + f[i:]
    if mode < 0.3:
        # arbitrary code points
        return "".join(chr(rng.choice([rng.randrange(0, 0x80), rng.randrange(0x80, 0x100), rng.randrange(0x100, 0x3000),
                                       rng.randrange(0xd800, 0xe000), rng.randrange(0xe000, 0x10000), rng.randrange(0x10000, 0x110000)]))
                       for _ in range(rng.randrange(1, maxlen)))
    n = rng.randrange(0, maxlen + 1)
    return "".join(rng.choice(ALPHABET) for _ in range(n))


def str_class(s: str) -> str:
    """coarse class of a string for the input-distribution histogram"""
    cl = []
    if "'" in s: cl.append("sq")
    if '"' in s: cl.append("dq")
    if "\\" in s: cl.append("bs")
    if "\n" in s or "\r" in s: cl.append("nl")
    if "\0" in s: cl.append("nul")
    if any(0xd800 <= ord(c) < 0xe000 for c in s): cl.append("sur")
    if any(ord(c) > 0xffff for c in s): cl.append("astral")
    if any(0x80 <= ord(c) and not c.isprintable() for c in s): cl.append("np")
    if any(0x80 <= ord(c) and c.isprintable() for c in s): cl.append("uni")
    if SENTINEL in s: cl.append("code")
    if "{" in s or "%" in s: cl.append("fmt")
    return "+".join(cl) or ("empty" if not s else "plain")


# ---------------------------------------------------------------------------
# Coq terms
# ---------------------------------------------------------------------------

def coq_nl(cps) -> str:
    return "[" + ";".join(str(int(c)) for c in cps) + "]"


def cps(s: str):
    return [ord(c) for c in s]


# ---------------------------------------------------------------------------
# reference lexer = the running CPython
# ---------------------------------------------------------------------------

def translate_newlines(t: str) -> str:
    """what the compiler does to a source *string* before tokenizing (tokenizer.c translate_newlines)"""
    return t.replace("\r\n", "\n").replace("\r", "\n")


def py_lex(text: str, bytes_lit: bool = False):
    """(value, len(rest)) of the string literal token at the head of `text` according to the
    running CPython (tokenize for the extent, compile+eval for the value), or None.
    Precondition (caller): no CR after the literal (newline translation would shift offsets)."""
    t = translate_newlines(text)
    # the literal is looked at in isolation: characters the compiler refuses anywhere in a
    # source (NUL, lone surrogates) may follow it; cut the text before the first of them
    cut = next((i for i, c in enumerate(t) if c == "\0" or 0xd800 <= ord(c) < 0xe000), len(t))
    try:
        with warnings.catch_warnings():
            warnings.simplefilter("ignore")
            g = tokenize.generate_tokens(io.StringIO(t[:cut]).readline)
            tok = next(g)
    except Exception:
        return None
    if tok.type != tokenize.STRING or tok.start != (1, 0):
        return None
    lit = tok.string
    end = len(lit)            # (tok.end columns are unreliable for multi-line non-ASCII tokens)
    if t[:end] != lit:
        return None
    try:
        with warnings.catch_warnings():
            warnings.simplefilter("ignore")
            v = eval(compile(lit, "<c16>", "eval"), {"__builtins__": {}}, {})
    except Exception:
        return None
    if bytes_lit:
        if not isinstance(v, bytes):
            return None
        return list(v), len(t) - end
    if not isinstance(v, str):
        return None
    return cps(v), len(t) - end


RESTS = ["", "]", ", MISSING)", ": 1}", ")", "\n", " ", "] = 1\n", "'", '"', "''", '""', "'x'", "x", "\\", "#", "}"]


def lex_inputs(rng, n: int):
    """texts whose head is (or looks like) a string literal"""
    out = []
    strings = list(CORPUS)
    while len(strings) < n:
        strings.append(rand_string(rng))
    for i, s in enumerate(strings[:n]):
        rest = RESTS[i % len(RESTS)] if i % 3 else rng.choice(RESTS)
        k = i % 8
        if k in (0, 1, 2):
            text = repr(s) + rest
        elif k == 3:
            text = ascii(s) + rest
        elif k == 4:
            text = "'" + s + "'" + rest
        elif k == 5:
            text = '"' + s + '"' + rest
        elif k == 6:
            q = rng.choice(["'''", '"""'])
            text = q + s + q + rest
        else:
            text = rng.choice(["'", '"', "'''", "''", '"""']) + s + rest
        out.append(text)
    return out


def lex_input_ok(text: str) -> bool:
    """narrow exclusions of the lexer correspondence (stated in the evidence):
    \\N{name} escapes are not modelled (model answers None)."""
    return "\\N" not in text


def model_tie(ctx: vlib.Ctx):
    rng = ctx.rng
    n = ctx.budget(500, 6000)
    # ---- repr / ascii
    strings = list(CORPUS) + [c for c in ALPHABET]
    while len(strings) < n:
        strings.append(rand_string(rng, 10))
    tab = sorted({ord(c) for s in strings for c in s if ord(c) >= 0x80 and c.isprintable()})
    cases = [f"({coq_nl(cps(s))}, ({coq_nl(cps(repr(s)))}, {coq_nl(cps(ascii(s)))}))" for s in strings]
    defs = "Local Open Scope N_scope.\nDefinition ptab : list N := " + coq_nl(tab) + ".\n"
    _corr(ctx, "repr-model-vs-cpython", "PyStrLit", defs, cases, "repr_case_ok ptab", "list N * (list N * list N)",
          lambda i: repr(strings[i]))
    for s in strings:
        ctx.hist("repr_tie_classes", str_class(s))
    # ---- repr(bytes)
    bs = [s.encode("utf-8", "surrogatepass") for s in strings[: n // 2]] + [bytes([i]) for i in range(256)]
    cases = [f"({coq_nl(list(b))}, {coq_nl(cps(repr(b)))})" for b in bs]
    _corr(ctx, "bytes-repr-model-vs-cpython", "PyStrLit", "Local Open Scope N_scope.\n", cases, "bytes_case_ok", "list N * list N",
          lambda i: repr(bs[i]))
    # ---- lexer
    texts = [t for t in lex_inputs(rng, n) if lex_input_ok(t)]
    cases = []
    for t in texts:
        e = py_lex(t)
        cases.append(f"({coq_nl(cps(t))}, " + ("None" if e is None else f"Some ({coq_nl(e[0])}, {e[1]}%nat)") + ")")
        ctx.hist("lex_tie_outcome", "literal" if e is not None else "rejected")
    _corr(ctx, "lex-model-vs-cpython", "PyStrLit", "Local Open Scope N_scope.\n", cases, "lex_case_ok",
          "list N * option (list N * nat)", lambda i: repr(texts[i]))
    # ---- bytes lexer
    btexts = []
    for i, b in enumerate(bs):
        r = RESTS[i % len(RESTS)]
        btexts.append(repr(b) + r)
        if i % 4 == 0:
            s = strings[i % len(strings)]
            btexts.append("b'" + s + "'" + r)
    btexts = [t for t in btexts if lex_input_ok(t)]
    cases = []
    for t in btexts:
        e = py_lex(t, bytes_lit=True)
        cases.append(f"({coq_nl(cps(t))}, " + ("None" if e is None else f"Some ({coq_nl(e[0])}, {e[1]}%nat)") + ")")
    _corr(ctx, "bytes-lex-model-vs-cpython", "PyStrLit", "Local Open Scope N_scope.\n", cases, "lexb_case_ok",
          "list N * option (list N * nat)", lambda i: repr(btexts[i]))
    # ---- the hypothesis on the printable oracle, and what compile() needs, for every code point
    bad = [c for c in range(0x110000) if chr(c).isprintable() and (0xd800 <= c < 0xe000 or c in (0, 10, 13))]
    ctx.correspondence("oracle_ok(str.isprintable): no surrogate/NUL/newline is printable", 0x110000, len(bad), str(bad[:5]))
    if bad:
        ctx.not_shown("oracle_ok(str.isprintable)", str(bad[:5]))


def _corr(ctx, name, imports, defs, cases, okf, ctype, show):
    bad, log = vlib.coq_bad_idx("c16_" + name.split("-vs-")[0].replace("-", "_"), imports, "", defs, cases, okf, ctype,
                                shard=500, needs=["theories/PyStrLit.vo"])
    if bad is None:
        ctx.correspondence(name, len(cases), -1, log)
        ctx.not_shown("correspondence " + name, log)
    else:
        detail = "; ".join(show(i) for i in bad[:8])
        ctx.correspondence(name, len(cases), len(bad), detail)
        if bad:
            ctx.not_shown("correspondence " + name, "model and CPython disagree on: " + detail)
    ctx.count(n=len(cases))


def run(ctx: vlib.Ctx):
    ctx.coverage["rule"] = "TODO"
    model_tie(ctx)


def replay(rep: dict) -> int:
    return 2
