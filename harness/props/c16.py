"""C16 - schema-supplied strings are data, never code.

1. theorems (coq/props/C16_strings.v): repr/lex round trip for ALL strings, the K10 splice
   table regenerated from /repo (every data splice goes through repr()/ascii() in a context
   where the literal keeps its meaning).
2. correspondence: py_repr / py_ascii / py_repr_bytes / lex_string / lex_bytes of the Coq model
   vs. the running CPython (repr, ascii, tokenize + compile/eval) on an adversarial corpus.
3. oracle on the real implementation: classes with adversarial strings at every position the
   property names; keys/values used must be exactly the string; an embedded sentinel side
   effect must never fire.
"""
from __future__ import annotations

import builtins
import io
import json
import os
import sys
import tokenize
import types
import warnings

from harness import vlib

# ---------------------------------------------------------------------------
# strings
# ---------------------------------------------------------------------------

SENTINEL = "C16_HIT"

# characters that matter for the lexer / repr, plus representatives of every repr class
ALPHABET = [
    "'", '"', "\\", "\n", "\r", "\0", "\t", " ", "{", "}", "%", "(", ")", "[", "]", ",", ":", "#", "$",
    "a", "b", "r", "f", "u", "U", "x", "n", "t", "0", "7", "8", "9", "A", "_", "N", "-", ".", "=",
    "\x01", "\x1b", "\x1f", "\x7f", "\x80", "\x85", "\xa0", "\xad", "\xe9", "\xff",
    "\u0100", "\u0301", "\u2028", "\u2029", "\u200b", "\ufeff", "\uffff", "\ue000",
    "\ud800", "\udfff", "\udc80", "\U0001f600", "\U00010000", "\U000e0001", "\U0010ffff", "\u4e2d", "\ufb01",
]

# code fragments that close the surrounding literal / call in the pre-fix generator
_HIT = f"__import__('builtins').{SENTINEL}.append(1)"
FRAGMENTS = [
    f"x', MISSING) or {_HIT} or d.get('x",
    f"x'] or {_HIT} or value['x",
    f"x']; {_HIT}; d['x",
    f"x') or {_HIT} or (lambda *a: 0)('x",
    f"x'}} or {_HIT} or {{'x",
    f"x' or {_HIT} or 'x",
    f'x" or {_HIT} or "x',
    f'x", MISSING) or {_HIT} or d.get("x',
    f"x': 0, **({_HIT} or {{}}), 'y",
    f"'''+str({_HIT})+'''",
    f"\\', MISSING) or {_HIT} or d.get(\\'x",
    f"x\\",
    f"x\\' or {_HIT} #",
    f"x'\n{_HIT}\n'x",
    f"x'\n    {_HIT}\n    'x",
    f"{{{_HIT}}}",
    f"%s%(x)s{{0}}{{}}",
    f"x' if {_HIT} else 'x",
    f'x" if {_HIT} else "x',
    f"x', MISSING) and {_HIT} and d.get('x",
    f"x' and {_HIT} and 'x",
]

CORPUS = [
    "", "a", "it's", 'a"b', "'\"", "'", '"', "''", '""', "'''", '"""', "\\", "\\\\", "\\'", "\\n", "\n", "\r", "\r\n",
    "\0", "\t", "a b", "{brace}", "{", "}", "{{}}", "%s", "%", "back\\slash", "new\nline", "\u00fc\u00f1\u00ed", "\x7f", "\x80", "\x9f", "\xa0",
    "\xad", "\u0301", "e\u0301", "\u2028", "\u2029", "\ud800", "\udfff", "\U0001f600", "\U0001f600", "\U0010ffff", "\uffff", "\ufffe",
    "\\x41", "\\u0041", "\\N{BULLET}", "\\U00000041", "\\101", "\\x4", "\\u12", "None", "True", "MISSING", "d", "value", "kwargs",
    "__class__", "x" * 200, "'" * 7, "\\" * 7, "a'b\"c\\d\ne", "\x00\x01\x02", "\x1b[0m", " ", "  ", "\u200b", "\ufeff", "#", "# x", "a#'",
    "r'x'", "b'x'", "f'{x}'", "rb", "0", "1e5", "-", "a.b", "a-b", "a b c", "\u4e2d\u6587", "\ufb01", "\u00aa", "\u2160",
] + FRAGMENTS


def rand_string(rng, maxlen=8) -> str:
    mode = rng.random()
    if mode < 0.12:
        return rng.choice(CORPUS)
    if mode < 0.2:
        # mutate a fragment
        f = rng.choice(FRAGMENTS)
        i = rng.randrange(len(f) + 1)
        return f[:i] + rng.choice(ALPHABET) + f[i:]
    if mode < 0.3:
        # arbitrary code points
        return "".join(chr(rng.choice([rng.randrange(0, 0x80), rng.randrange(0x80, 0x100), rng.randrange(0x100, 0x3000),
                                       rng.randrange(0xd800, 0xe000), rng.randrange(0xe000, 0x10000), rng.randrange(0x10000, 0x110000)]))
                       for _ in range(rng.randrange(1, maxlen)))
    n = rng.randrange(1, maxlen + 1)
    return "".join(rng.choice(ALPHABET) for _ in range(n))


def str_class(s: str) -> str:
    """coarse class of a string for the input-distribution histogram"""
    cl = []
    if "'" in s: cl.append("sq")
    if '"' in s: cl.append("dq")
    if "\\" in s: cl.append("bs")
    if "\n" in s or "\r" in s: cl.append("nl")
    if "\0" in s: cl.append("nul")
    if any(0xd800 <= ord(c) < 0xe000 for c in s): cl.append("sur")
    if any(ord(c) > 0xffff for c in s): cl.append("astral")
    if any(0x80 <= ord(c) and not c.isprintable() for c in s): cl.append("np")
    if any(0x80 <= ord(c) and c.isprintable() for c in s): cl.append("uni")
    if SENTINEL in s: cl.append("code")
    if "{" in s or "%" in s: cl.append("fmt")
    return "+".join(cl) or ("empty" if not s else "plain")


# ---------------------------------------------------------------------------
# Coq terms
# ---------------------------------------------------------------------------

def coq_nl(cps) -> str:
    return "[" + ";".join(str(int(c)) for c in cps) + "]"


def cps(s: str):
    return [ord(c) for c in s]


# ---------------------------------------------------------------------------
# evaluating case files: bounded parallelism and a second try when coqc died without a verdict
# ---------------------------------------------------------------------------

def _bad_idx(name, imports, gen_imports, defs, cases, ok_fun, case_type, shard=400, timeout=900, needs=None, par=4, tries=3):
    """vlib.coq_bad_idx on groups of at most `par` shards at a time (vlib starts one coqc per shard, 12 at
    once: several hundred MB each on a machine that other checks share).  A coqc that was killed or timed
    out printed no Coq error and gave NO verdict: that group is evaluated again (at most `tries` times, after
    a pause); a Coq error or an unparsable answer is never retried.  Nothing passes without an evaluated answer."""
    import time as _time
    bad_all, logs = [], []
    group = max(1, shard * par)
    for gi, start in enumerate(range(0, max(len(cases), 1), group)):
        chunk = cases[start:start + group]
        for attempt in range(tries):
            bad, log = vlib.coq_bad_idx(f"{name}_g{gi}", imports, gen_imports, defs, chunk, ok_fun, case_type,
                                        shard=shard, timeout=timeout, needs=needs)
            if bad is not None:
                break
            verdictless = ("Error" not in log and "unparsable" not in log and "does not build" not in log) or "TIMEOUT" in log
            if not verdictless or attempt == tries - 1:
                return None, log
            _time.sleep(20 * (attempt + 1))
        bad_all.extend(start + i for i in bad)
        logs.append(log[-200:])
    return bad_all, "\n".join(logs)[-2000:]


# ---------------------------------------------------------------------------
# reference lexer = the running CPython
# ---------------------------------------------------------------------------

def translate_newlines(t: str) -> str:
    """what the compiler does to a source *string* before tokenizing (tokenizer.c translate_newlines)"""
    return t.replace("\r\n", "\n").replace("\r", "\n")


def py_lex(text: str, bytes_lit: bool = False):
    """(value, len(rest)) of the string literal token at the head of `text` according to the
    running CPython (tokenize for the extent, compile+eval for the value), or None."""
    t = translate_newlines(text)
    # the literal is looked at in isolation: characters the compiler refuses anywhere in a
    # source (NUL, lone surrogates) may follow it; cut the text before the first of them
    cut = next((i for i, c in enumerate(t) if c == "\0" or 0xd800 <= ord(c) < 0xe000), len(t))
    try:
        with warnings.catch_warnings():
            warnings.simplefilter("ignore")
            g = tokenize.generate_tokens(io.StringIO(t[:cut]).readline)
            tok = next(g)
    except Exception:
        return None
    if tok.type != tokenize.STRING or tok.start != (1, 0):
        return None
    lit = tok.string
    end = len(lit)            # (tok.end columns are unreliable for multi-line non-ASCII tokens)
    if t[:end] != lit:
        return None
    try:
        with warnings.catch_warnings():
            warnings.simplefilter("ignore")
            v = eval(compile(lit, "<c16>", "eval"), {"__builtins__": {}}, {})
    except Exception:
        return None
    # length of the rest in the ORIGINAL text: newline translation (CRLF / CR -> LF) may have shortened what
    # follows the literal, so the end of the token is mapped back (the token ends with a quote, never inside CRLF)
    j = end
    while j <= len(text) and translate_newlines(text[:j]) != t[:end]:
        j += 1
    if j > len(text):
        return None
    if bytes_lit:
        if not isinstance(v, bytes):
            return None
        return list(v), len(text) - j
    if not isinstance(v, str):
        return None
    return cps(v), len(text) - j


RESTS = ["", "]", ", MISSING)", ": 1}", ")", "\n", " ", "] = 1\n", "'", '"', "''", '""', "'x'", "x", "\\", "#", "}"]


def lex_inputs(rng, n: int):
    """texts whose head is (or looks like) a string literal"""
    out = []
    strings = list(CORPUS)
    while len(strings) < n:
        strings.append(rand_string(rng))
    for i, s in enumerate(strings[:n]):
        rest = RESTS[i % len(RESTS)] if i % 3 else rng.choice(RESTS)
        k = i % 8
        if k in (0, 1, 2):
            text = repr(s) + rest
        elif k == 3:
            text = ascii(s) + rest
        elif k == 4:
            text = "'" + s + "'" + rest
        elif k == 5:
            text = '"' + s + '"' + rest
        elif k == 6:
            q = rng.choice(["'''", '"""'])
            text = q + s + q + rest
        else:
            text = rng.choice(["'", '"', "'''", "''", '"""']) + s + rest
        out.append(text)
    return out


def lex_input_ok(text: str) -> bool:
    """narrow exclusions of the lexer correspondence (stated in the evidence):
    \\N{name} escapes are not modelled (model answers None)."""
    return "\\N" not in text


def model_tie(ctx: vlib.Ctx):
    rng = ctx.rng
    n = ctx.budget(500, 4000)
    # ---- repr / ascii
    strings = list(CORPUS) + [c for c in ALPHABET]
    while len(strings) < n:
        strings.append(rand_string(rng, 10))
    tab = sorted({ord(c) for s in strings for c in s if ord(c) >= 0x80 and c.isprintable()})
    cases = [f"({coq_nl(cps(s))}, ({coq_nl(cps(repr(s)))}, {coq_nl(cps(ascii(s)))}))" for s in strings]
    defs = "Local Open Scope N_scope.\nDefinition ptab : list N := " + coq_nl(tab) + ".\n"
    _corr(ctx, "repr-model-vs-cpython", "PyStrLit", defs, cases, "repr_case_ok ptab", "list N * (list N * list N)",
          lambda i: repr(strings[i]))
    for s in strings:
        ctx.hist("repr_tie_classes", str_class(s))
    # ---- repr(bytes)
    bs = [s.encode("utf-8", "surrogatepass") for s in strings[: n // 2]] + [bytes([i]) for i in range(256)]
    cases = [f"({coq_nl(list(b))}, {coq_nl(cps(repr(b)))})" for b in bs]
    _corr(ctx, "bytes-repr-model-vs-cpython", "PyStrLit", "Local Open Scope N_scope.\n", cases, "bytes_case_ok", "list N * list N",
          lambda i: repr(bs[i]))
    # ---- lexer
    texts = [t for t in lex_inputs(rng, n) if lex_input_ok(t)]
    cases = []
    for t in texts:
        e = py_lex(t)
        cases.append(f"({coq_nl(cps(t))}, " + ("None" if e is None else f"Some ({coq_nl(e[0])}, {e[1]}%nat)") + ")")
        ctx.hist("lex_tie_outcome", "literal" if e is not None else "rejected")
    _corr(ctx, "lex-model-vs-cpython", "PyStrLit", "Local Open Scope N_scope.\n", cases, "lex_case_ok",
          "list N * option (list N * nat)", lambda i: repr(texts[i]))
    # ---- bytes lexer
    btexts = []
    for i, b in enumerate(bs):
        r = RESTS[i % len(RESTS)]
        btexts.append(repr(b) + r)
        if i % 4 == 0:
            s = strings[i % len(strings)]
            btexts.append("b'" + s + "'" + r)
    btexts = [t for t in btexts if lex_input_ok(t)]
    cases = []
    for t in btexts:
        e = py_lex(t, bytes_lit=True)
        cases.append(f"({coq_nl(cps(t))}, " + ("None" if e is None else f"Some ({coq_nl(e[0])}, {e[1]}%nat)") + ")")
    _corr(ctx, "bytes-lex-model-vs-cpython", "PyStrLit", "Local Open Scope N_scope.\n", cases, "lexb_case_ok",
          "list N * option (list N * nat)", lambda i: repr(btexts[i]))
    # ---- the hypothesis on the printable oracle, and what compile() needs, for every code point
    bad = [c for c in range(0x110000) if chr(c).isprintable() and (0xd800 <= c < 0xe000 or c in (0, 10, 13))]
    ctx.correspondence("oracle_ok(str.isprintable): no surrogate/NUL/newline is printable", 0x110000, len(bad), str(bad[:5]))
    if bad:
        ctx.not_shown("oracle_ok(str.isprintable)", str(bad[:5]))



# ---------------------------------------------------------------------------
# literal VALUES (round 3): render_lit / eval_lit vs repr / eval / get_field_default_literal
# ---------------------------------------------------------------------------

class Nm:
    """an object that the generator binds by reference under a name"""
    def __init__(self, name):
        self.name = name

    def __eq__(self, o):
        return isinstance(o, Nm) and o.name == self.name

    def __hash__(self):
        return hash(self.name)

    def __repr__(self):
        return "__import__('builtins')." + SENTINEL + ".append(1)"


class _Names(dict):
    def __missing__(self, k):
        return Nm(k)


NAME_POOL = ["v_0123456789abcdef", "v_a", "x", "bx", "b", "rb", "Truex", "none", "_", "v_é", "中"]


def rand_lit(rng, depth=0, names=True):
    k = rng.random()
    if depth < 3 and k < 0.3:
        n = rng.choice([0, 1, 1, 2, 2, 3, 5])
        return tuple(rand_lit(rng, depth + 1, names) for _ in range(n))
    if k < 0.5:
        return rand_string(rng, 6)
    if k < 0.6:
        return rand_string(rng, 5).encode("utf-8", "surrogatepass")
    if k < 0.78:
        return rng.choice([0, 1, -1, 7, 10, -10, 100, 255, 2**31, -2**63, 10**30, rng.randrange(-10**6, 10**6)])
    if k < 0.86:
        return rng.choice([True, False])
    if k < 0.92 or not names:
        return None
    return Nm(rng.choice(NAME_POOL))


def coq_lit(v) -> str:
    if isinstance(v, bool):
        return "(LBool %s)" % ("true" if v else "false")
    if v is None:
        return "LNone"
    if isinstance(v, str):
        return "(LStr %s)" % coq_nl(cps(v))
    if isinstance(v, bytes):
        return "(LBytes %s)" % coq_nl(list(v))
    if isinstance(v, int):
        return "(LInt (%d)%%Z)" % v
    if isinstance(v, Nm):
        return "(LName %s)" % coq_nl(cps(v.name))
    if isinstance(v, tuple):
        return "(LTuple [" + "; ".join(coq_lit(x) for x in v) + "])"
    raise TypeError(v)


def py_render(v) -> str:
    """CPython's own rendering: repr() for literal kinds, the bound name for objects, tuples like repr(tuple)"""
    if isinstance(v, Nm):
        return v.name
    if isinstance(v, tuple):
        if len(v) == 1:
            return "(" + py_render(v[0]) + ",)"
        return "(" + ", ".join(py_render(x) for x in v) + ")"
    return repr(v)


def has_nm(v) -> bool:
    return isinstance(v, Nm) or (isinstance(v, tuple) and any(has_nm(x) for x in v))


def real_default_literal(values):
    """CodeBuilder.get_field_default_literal of /repo on each value -> (text, value with every
    object that was imported by reference replaced by Nm(its name))"""
    import dataclasses
    from mashumaro.core.meta.code.builder import CodeBuilder

    @dataclasses.dataclass
    class _H:
        x: int = 0
    out = []
    for v in values:
        cb = CodeBuilder(_H)
        bound = {}
        orig = cb.ensure_object_imported

        def rec(obj, name=None, _b=bound, _o=orig):
            _b[id(obj)] = (obj, name)
            return _o(obj, name)
        cb.ensure_object_imported = rec
        try:
            text = cb.get_field_default_literal(v)
        except Exception as e:
            out.append((None, f"{type(e).__name__}: {e}"))
            continue

        def subst(x):
            if id(x) in bound and bound[id(x)][0] is x:
                return Nm(bound[id(x)][1])
            if isinstance(x, tuple):
                return tuple(subst(y) for y in x)
            return x
        out.append((text, subst(v)))
    return out


EVAL_RESTS = [":", ")", "", " :", ", 1)", "]", "\n"]
HAND_EXPRS = ["(1)", "( 1 , 2 )", "(1,)", "((1))", "((),)", "()", "( )", "(1 2)", "007", "0", "-0", "-5", "True", "Truex", "None",
              "(None,)", "b'x'", "bx", "('a',)", "(1,,)", "(,)", "(1", "(1,", "(1, 2", "'a", "(", ")", "-", "-x", "1x", "10", "(True, False)",
              "('it\\'s', \"x\")", "(((1, 2), 3), ())", "(1 ,2)", "(1, 2, )", "x'y'", "1(", "x("]


def lit_tie(ctx: vlib.Ctx):
    rng = ctx.rng
    n = ctx.budget(400, 3000)
    vals = [(), ("it's",), ("a", 1), (("x",), ()), (True, None, -1), ("'", '"', "\\"), (b"\x00'", "\ud800"), 10**40, -(10**20)]
    while len(vals) < n:
        vals.append(rand_lit(rng))
    # ---- render_lit vs CPython repr / name binding
    tab = sorted({c for v in vals for c in map(ord, py_render(v)) if c >= 0x80 and chr(c).isprintable()})
    defs = "Local Open Scope N_scope.\nDefinition ptab : list N := " + coq_nl(tab) + ".\n"
    cases = [f"({coq_lit(v)}, {coq_nl(cps(py_render(v)))})" for v in vals]
    _corr(ctx, "render_lit-model-vs-cpython-repr", "PyStrLit PyLit", defs, cases, "render_case_ok ptab", "lit * list N", lambda i: repr(vals[i])[:80])
    # ---- render_lit vs the real get_field_default_literal (objects and bytes are imported by name)
    class Obj:
        def __repr__(self):
            return "x') or " + _HIT + " or ('"
    dvals = [v for v in vals if not has_nm(v)][: n // 2]
    dvals += [(Obj(), 1), (Obj(),), ((Obj(), "a"), b"b"), Obj(), b"bytes", (1.5, "a")][:6]
    real = real_default_literal(dvals)
    cases, shown = [], []
    for v, (text, ev) in zip(dvals, real):
        if text is None:
            ctx.not_shown("get_field_default_literal raised", f"{v!r}: {ev}")
            continue
        if any(isinstance(x, float) for x in _flat(ev)):
            continue        # float repr is not in the model (stated)
        if any(not isinstance(x, (str, bytes, int, bool, type(None), Nm)) for x in _flat(ev)):
            ctx.not_shown("get_field_default_literal left an object un-named", repr(v)[:100])
            continue
        cases.append(f"({coq_lit(ev)}, {coq_nl(cps(text))})")
        shown.append(text)
    _corr(ctx, "render_lit-model-vs-get_field_default_literal", "PyStrLit PyLit", defs, cases, "render_case_ok ptab", "lit * list N",
          lambda i: shown[i][:80])
    # ---- (T) validation: the branch table K10 read from get_field_default_literal, interpreted in Coq
    #      (shape), against the real function on the same default values
    import enum as _enum
    import collections as _coll

    class Fl(_enum.IntFlag):
        A = 1
        B = 4
    NTp = _coll.namedtuple("NTp", ["a"])
    extra = [Fl.A, Fl.A | Fl.B, (Fl.B, "x"), NTp(1), (NTp("a"), 2), float("nan"), (float("inf"), 1), Obj(), (Obj(), (Obj(), "a")), b"by", (b"b", ("c",))]
    svals = [v for v in dvals if not any(isinstance(x, float) for x in _flat(v))] + extra
    sreal = real_default_literal(svals)
    cases, shown = [], []
    for v, (text, ev) in zip(svals, sreal):
        if text is None:
            continue
        ids = {}

        def dv(x):
            if isinstance(x, _enum.IntFlag):
                return "(DIntFlag (%d)%%Z)" % int(x)
            if isinstance(x, bool):
                return "(DBool %s)" % ("true" if x else "false")
            if x is None:
                return "DNone"
            if type(x) is str:
                return "(DStr %s)" % coq_nl(cps(x))
            if type(x) is int:
                return "(DInt (%d)%%Z)" % x
            if type(x) is tuple:
                return "(DTuple [" + "; ".join(dv(y) for y in x) + "])"
            ids[id(x)] = len(ids) + 1
            return "(DOther %d)" % ids[id(x)]
        term = dv(v)
        # the real function's fresh names -> v_<identity index>, in order of import = order of traversal
        names = [nm.name for nm in _flat(ev) if isinstance(nm, Nm)]
        t2 = text
        for k, nmn in enumerate(names):
            t2 = t2.replace(nmn, "v_%d" % (k + 1))
        cases.append(f"({term}, {coq_nl(cps(t2))})")
        shown.append(text)
    vlib.coq_make(["gen/K10.vo", "theories/DefaultLit.vo"])
    bad, log = _bad_idx("c16_shape", "PyStrLit PyLit Splice DefaultLit", "From VerifGen Require Import K10.", defs, cases,
                                "fun c => match shape default_literal_branches (fst c) with Some l => leqb (render_lit (tab_oracle ptab) l) (snd c) | None => false end",
                                "dval * list N", shard=500, needs=["theories/PyLit.vo", "theories/DefaultLit.vo", "gen/K10.vo"])
    nm_ = "K10-branch-table(shape)-vs-get_field_default_literal"
    if bad is None:
        ctx.correspondence(nm_, len(cases), -1, log)
        ctx.not_shown("translation validation " + nm_, log)
    else:
        ctx.correspondence(nm_, len(cases), len(bad), "; ".join(shown[i][:60] for i in bad[:8]))
        if bad:
            ctx.not_shown("translation validation " + nm_, "; ".join(shown[i][:80] for i in bad[:8]))
    ctx.count(n=len(cases))
    # ---- eval_lit vs CPython eval
    exprs = [py_render(v) for v in vals[: n // 2] if _names_ok(v)] + HAND_EXPRS
    cases, texts = [], []
    for i, e in enumerate(exprs):
        if "\\N" in e or "\r" in e or "\0" in e or any(0xd800 <= ord(c) < 0xe000 for c in e):
            continue     # lexer-tie exclusions (see lex_input_ok / py_lex); raw CR/NUL/surrogates cannot be produced by repr
        rest = EVAL_RESTS[i % len(EVAL_RESTS)] if i < len(exprs) - len(HAND_EXPRS) else ":"
        try:
            with warnings.catch_warnings():
                warnings.simplefilter("ignore")
                val = eval(compile(e, "<c16>", "eval"), {"__builtins__": {}}, _Names())
            exp = f"Some ({coq_lit(val)}, {len(rest)}%nat)"
        except Exception:
            exp = "None"
        cases.append(f"({coq_nl(cps(e + rest))}, {exp})")
        texts.append(e + rest)
    _corr(ctx, "eval_lit-model-vs-cpython-eval", "PyStrLit PyLit", "Local Open Scope N_scope.\n", cases, "eval_case_ok",
          "list N * option (lit * nat)", lambda i: repr(texts[i])[:80])


def _flat(v):
    if isinstance(v, tuple):
        for x in v:
            yield from _flat(x)
    else:
        yield v


def _names_ok(v) -> bool:
    import keyword
    import unicodedata
    for x in _flat(v):
        if isinstance(x, Nm):
            nm = x.name
            if not (nm.isidentifier() and not keyword.iskeyword(nm) and unicodedata.normalize("NFKC", nm) == nm):
                return False
    return True


# ---------------------------------------------------------------------------
# whole-line tokenizer (round 4): tok_line of the Coq model vs CPython's tokenizer on the lines
# mashumaro really generated during the oracle, plus hand-made lines
# ---------------------------------------------------------------------------

TQ1 = "'" * 3
TQ2 = '"' * 3
HAND_LINES = [
    "x = 'a' # 'b'", "value = d.get('it\\'s', MISSING)", "r'x'", TQ1 + "a" + TQ1, "f(b'x', 'y')", "f(b\"\\xff\")", "'a' 'b'",
    "x = 1 \\", "kwargs[\"it's\"] = value", "d = {'a': 1, \"b\": 2}", "# only a comment 'x'", "x = ''", "x = '' ''", "bb'x'", "B'x'",
    "f'{x}'", "u'x'", "x = 'a", "x = \"a'", "if value == 'x\\n':", "    raise ValueError('Argument for m.A should be a dict') from None",
    "a.b'c'", "x = b''", "x = 1b'c'", "'\\x41\\u00e9\\U0001f600'", "x = b'\\x00' + b\"'\"", "y = 'caf\u00e9'", "'a'#'b'\n'c'",
]


def py_line_literals(text: str):
    """values of the string / bytes literal tokens of `text` in order, by CPython's tokenizer; None when CPython
    refuses the text or it uses what the line model does not cover (prefixes other than b, triple quotes,
    f-strings, backslash continuation outside literals)"""
    if "\0" in text or any(0xd800 <= ord(c) < 0xe000 for c in text) or "\r" in text:
        return None
    toks = []
    try:
        with warnings.catch_warnings():
            warnings.simplefilter("ignore")
            for t in tokenize.generate_tokens(io.StringIO(text).readline):
                toks.append(t)
    except tokenize.TokenError as e:
        if "EOF in multi-line statement" not in str(e):
            return None
    except (SyntaxError, IndentationError):
        return None
    out = []
    fstring = getattr(tokenize, "FSTRING_START", -1)
    for t in toks:
        if t.type == fstring or t.type == tokenize.ERRORTOKEN:
            return None
        if t.type == tokenize.STRING:
            i = min(j for j, c in enumerate(t.string) if c in "'\"")
            pre = t.string[:i]
            if pre not in ("", "b") or t.string[i:i + 3] in (TQ1, TQ2):
                return None
            if t.start[1] > 0 and (t.line[t.start[1] - 1].isalnum() or t.line[t.start[1] - 1] == "_" or ord(t.line[t.start[1] - 1]) >= 128):
                return None      # a literal glued to a preceding name / number: not modelled
            try:
                with warnings.catch_warnings():
                    warnings.simplefilter("ignore")
                    v = eval(compile(t.string, "<c16>", "eval"), {"__builtins__": {}}, {})
            except Exception:
                return None
            out.append(v)
    # an explicit continuation (backslash-newline outside a literal) is not modelled
    in_strings = "".join(t.string for t in toks if t.type == tokenize.STRING)
    if text.count("\\\n") + (1 if text.endswith("\\") else 0) > in_strings.count("\\\n"):
        return None
    return out


def coq_lvals(vs) -> str:
    if vs is None:
        return "None"
    return "Some [" + "; ".join(("VB " + coq_nl(list(v))) if isinstance(v, bytes) else ("VS " + coq_nl(cps(v))) for v in vs) + "]"


def float_law(ctx: vlib.Ctx):
    """the law behind C16_float_inert and the TFloat kind: repr of a finite float is digits . e + - only
    (evaluated by the Coq predicate float_text_ok) and float(repr(x)) == x (CPython's guarantee, checked here)"""
    import math
    import struct
    rng = ctx.rng
    n = ctx.budget(400, 4000)
    fl = [0.0, -0.0, 1.0, -1.0, 0.1, 1e16, 1e-5, 1.5e300, 5e-324, 2.2250738585072014e-308, 1.7976931348623157e308,
          123456789.123456789, 1e22, 1e23, 0.30000000000000004, float(2**53), -1e-7, 3.141592653589793]
    while len(fl) < n:
        x = struct.unpack("<d", struct.pack("<Q", rng.getrandbits(64)))[0]
        if math.isfinite(x):
            fl.append(x)
        fl.append(rng.uniform(-1e6, 1e6))
    bad_rt = [x for x in fl if float(repr(x)) != x or math.copysign(1, float(repr(x))) != math.copysign(1, x)]
    cases = [coq_nl(cps(repr(x))) for x in fl]
    bad, log = _bad_idx("c16_float", "PyStrLit PyLine", "", "Local Open Scope N_scope.\n", cases, "float_text_ok", "list N",
                                shard=1000, needs=["theories/PyLine.vo"])
    name = "float-repr-law (float_text_ok (repr x), float(repr x) == x)"
    if bad is None:
        ctx.correspondence(name, len(cases), -1, log)
        ctx.not_shown("law " + name, log)
    else:
        nb = len(bad) + len(bad_rt)
        ctx.correspondence(name, len(cases), nb, "; ".join(repr(fl[i]) for i in bad[:5]) + " | " + "; ".join(map(repr, bad_rt[:5])))
        if nb:
            ctx.not_shown("law " + name, "; ".join(repr(fl[i]) for i in bad[:5]) + " | " + "; ".join(map(repr, bad_rt[:5])))
    ctx.count(n=len(cases))


def line_tie(ctx: vlib.Ctx):
    rng = ctx.rng
    n = ctx.budget(700, 4000)
    lines = set()
    for code in GENERATED:
        for ln in code.split("\n"):
            if ln.strip():
                lines.add(ln)
    lines = sorted(lines)
    quoted = [l for l in lines if "'" in l or '"' in l]
    plain = [l for l in lines if not ("'" in l or '"' in l)]
    rng.shuffle(quoted)
    rng.shuffle(plain)
    pick = quoted[: n - 60] + plain[:60]
    whole = sorted(set(GENERATED))          # whole generated functions as multi-line texts, too
    rng.shuffle(whole)
    pick += whole[: n // 10]
    pick += HAND_LINES
    cases, shown = [], []
    nlit = 0
    for t in pick:
        e = py_line_literals(t)
        if e:
            nlit += len(e)
        cases.append(f"({coq_nl(cps(t))}, {coq_lvals(e)})")
        shown.append(t)
        ctx.hist("line_tie", "with-literals" if e else ("rejected/not-modelled" if e is None else "no-literal"))
    ctx.coverage["line_tie_generated_texts"] = {"captured_programs": len(GENERATED), "distinct_lines": len(lines), "literal_tokens_compared": nlit}
    bad, log = _bad_idx("c16_line", "PyStrLit PyLine", "", "Local Open Scope N_scope.\n", cases, "line_case_ok",
                                "list N * option (list lval)", shard=400, needs=["theories/PyLine.vo"])
    name = "line-tokens-model-vs-cpython-tokenizer (generated lines)"
    if bad is None:
        ctx.correspondence(name, len(cases), -1, log)
        ctx.not_shown("correspondence " + name, log)
    else:
        ctx.correspondence(name, len(cases), len(bad), "; ".join(repr(shown[i])[:100] for i in bad[:6]))
        if bad:
            ctx.not_shown("correspondence " + name, "; ".join(repr(shown[i])[:120] for i in bad[:6]))
    ctx.count(n=len(cases))


# ---------------------------------------------------------------------------
# roles (round 6): the ROLE the text classifier of PyUse.v gives every literal of the generated
# functions vs the role CPython's own parser gives it (parent node of the ast.Constant)
# ---------------------------------------------------------------------------

def _ast_role(chain, field, idx, node) -> str:
    """chain = [(ancestor, field, idx) ...] nearest last; the role of `node` in its parent"""
    import ast
    parent = chain[-1][0]
    if isinstance(parent, ast.Subscript) and field == "slice":
        return "USub"
    if isinstance(parent, ast.Call) and field == "args":
        if idx == 0:
            return "UGet" if isinstance(parent.func, ast.Attribute) and parent.func.attr == "get" else "UArg"
        return "UElem"
    if isinstance(parent, ast.Dict) and field == "keys":
        return "UDictKey"
    if isinstance(parent, (ast.Set, ast.List)) and field == "elts":
        return "UElem"
    if isinstance(parent, ast.Tuple) and field == "elts":
        # the first element of a tuple written WITHOUT parentheses stands where the tuple stands
        if idx == 0 and (parent.lineno, parent.col_offset) == (node.lineno, node.col_offset) and len(chain) > 1:
            _, pf, pi = chain[-2]
            return _ast_role(chain[:-1], pf, pi, parent)
        return "UElem"
    if isinstance(parent, ast.Compare) and field == "comparators" and isinstance(parent.ops[idx], (ast.Eq, ast.NotEq)):
        return "UCmp"
    return "UOther"


def py_use_roles(text: str):
    """[(role, value)] of every string / bytes literal token of `text`, in order, by CPython's PARSER; None
    when CPython refuses the text or the line model does not cover it (see py_line_literals); "skip" when a
    literal token is not the start of an ast.Constant (implicit concatenation) - such texts are left out"""
    import ast
    vals = py_line_literals(text)
    if vals is None:
        return None
    try:
        with warnings.catch_warnings():
            warnings.simplefilter("ignore")
            tree = ast.parse(text)
            toks = list(tokenize.generate_tokens(io.StringIO(text).readline))
    except Exception:
        return None
    lines = text.split("\n")
    role_at = {}

    def visit(node, chain):
        for field, val in ast.iter_fields(node):
            items = val if isinstance(val, list) else [val]
            for idx, ch in enumerate(items):
                if not isinstance(ch, ast.AST):
                    continue
                here = chain + [(node, field, idx)]
                if isinstance(ch, ast.Constant) and isinstance(ch.value, (str, bytes)):
                    ln = lines[ch.lineno - 1]
                    col = len(ln.encode("utf-8")[: ch.col_offset].decode("utf-8", "replace"))
                    role_at[(ch.lineno, col)] = _ast_role([(a, f, i) for a, f, i in here], field, idx, ch)
                visit(ch, here)
    visit(tree, [])
    out, k = [], 0
    for t in toks:
        if t.type == tokenize.STRING:
            r = role_at.get(t.start)
            if r is None or k >= len(vals):
                return "skip"
            out.append((r, vals[k]))
            k += 1
    return out


def coq_uses(us) -> str:
    if us is None:
        return "None"
    return "Some [" + "; ".join("(%s, %s)" % (r, ("VB " + coq_nl(list(v))) if isinstance(v, bytes) else ("VS " + coq_nl(cps(v)))) for r, v in us) + "]"


USE_HAND = [
    "value = d.get('a', MISSING)", "kwargs['a'] = value", "x = {'a': 1, 'b': 'c'}", "s = {'a', 'b'}", "f('a', 'b')", "return 'a'",
    "if value == 'a':\n    pass", "if value != b'a':\n    pass", "x = ('a', 1)", "x = ('a')", "x = ['a', 'b']", "t = typing.Literal['a', 'b']",
    "budget('a')", "if value.__class__ is ('a').__class__ and value == 'a':\n    pass", "x = 'a', 'b'",
    "raise ValueError('a') from None", "x = f(y)['a']", "x = f(y)('a')", "x = 'abc'[0]", "d['a']['b'] = 1", "f(k='a')", "x = {**d, 'a': 1}",
]


def use_tie(ctx: vlib.Ctx):
    rng = ctx.rng
    n = ctx.budget(250, 1200)
    whole = sorted(set(GENERATED))
    rng.shuffle(whole)
    cases, shown = [], []
    nlit = 0
    for t in whole[:n] + USE_HAND:
        e = py_use_roles(t)
        if e == "skip":
            ctx.hist("use_tie", "left-out (implicit concatenation)")
            continue
        if e:
            nlit += len(e)
            for r, _ in e:
                ctx.hist("use_tie_roles", r)
        ctx.hist("use_tie", "with-literals" if e else ("rejected/not-modelled" if e is None else "no-literal"))
        cases.append(f"({coq_nl(cps(t))}, {coq_uses(e)})")
        shown.append(t)
    ctx.coverage["use_tie_generated_texts"] = {"captured_programs": len(GENERATED), "distinct_programs": len(whole), "literal_roles_compared": nlit}
    bad, log = _bad_idx("c16_use", "PyStrLit PyLine PyUse", "", "Local Open Scope N_scope.\n", cases, "use_case_ok",
                                "list N * option (list (use * lval))", shard=40, needs=["theories/PyUse.vo"])
    name = "use-roles-model-vs-cpython-ast (generated functions)"

    def brief(i):
        t = shown[i]
        e = py_use_roles(t)
        return repr(t)[:160] + " expected roles " + str([r for r, _ in (e or [])][:12])
    if bad is None:
        ctx.correspondence(name, len(cases), -1, log)
        ctx.not_shown("correspondence " + name, log)
    else:
        ctx.correspondence(name, len(cases), len(bad), "; ".join(brief(i) for i in bad[:4]))
        if bad:
            ctx.not_shown("correspondence " + name, "; ".join(brief(i) for i in bad[:4]))
    ctx.count(n=len(cases))


# ---------------------------------------------------------------------------
# helpers.literal_repr (round 6): the table K116a read from /repo, interpreted by LitRepr.v, vs the
# real function on real objects (exact builtin values and instances of subclasses whose __repr__ is
# adversarial text)
# ---------------------------------------------------------------------------

def literal_repr_tie(ctx: vlib.Ctx):
    rng = ctx.rng
    n = ctx.budget(150, 1500)
    try:
        from mashumaro.core.meta.helpers import literal_repr
    except Exception as e:
        ctx.not_shown("helpers.literal_repr", f"cannot import: {type(e).__name__}: {e}")
        return

    def sub(base, payload, text):
        ns = {} if text is None else {"__repr__": (lambda self, _t=text: _t)}
        return type("Sub" + base.__name__, (base,), ns)(payload)
    objs = []       # (object, payload, exact, own repr text)
    strings = list(CORPUS[: n // 3])
    while len(strings) < n:
        strings.append(rand_string(rng, 8))
    for i, s in enumerate(strings):
        evil = rng.choice(FRAGMENTS) if i % 2 else rand_string(rng, 8)
        kind = i % 6
        if kind in (0, 1):
            objs.append((s, s, True, ""))
            objs.append((sub(str, s, evil), s, False, evil))
        elif kind == 2:
            b = s.encode("utf-8", "surrogatepass")
            objs.append((b, b, True, ""))
            objs.append((sub(bytes, b, evil), b, False, evil))
        elif kind == 3:
            z = rng.choice([0, 1, -1, 7, 255, -(2 ** 63), 10 ** 30, rng.randrange(-10 ** 6, 10 ** 6)])
            objs.append((z, z, True, ""))
            objs.append((sub(int, z, evil), z, False, evil))
        elif kind == 4:
            objs.append((sub(str, s, None), s, False, repr(s)))      # subclass without an override
        else:
            v = rng.choice([True, False, None])
            objs.append((v, v, True, ""))
    cases, shown, texts = [], [], []
    for o, payload, exact, own in objs:
        try:
            t = literal_repr(o)
        except Exception as e:
            ctx.not_shown("helpers.literal_repr raised", f"{type(o).__name__}({payload!r}): {type(e).__name__}: {e}")
            continue
        if not isinstance(t, str):
            ctx.not_shown("helpers.literal_repr returned a non-string", repr(t)[:100])
            continue
        texts.append(t)
        cases.append(f"(({coq_lit(payload)}, {'true' if exact else 'false'}, {coq_nl(cps(own))}), {coq_nl(cps(t))})")
        shown.append(f"{type(o).__name__}({payload!r}) -> {t!r}")
        ctx.hist("literal_repr_tie", ("exact " if exact else "subclass of ") + type(payload).__name__)
    tab = sorted({c for t in texts for c in map(ord, t) if c >= 0x80 and chr(c).isprintable()})
    defs = "Local Open Scope N_scope.\nDefinition ptab : list N := " + coq_nl(tab) + ".\n"
    bad, log = _bad_idx("c16_litrepr", "PyStrLit PyLit LitRepr", "From VerifGen Require Import K116a.", defs, cases,
                                "lr_case_ok (tab_oracle ptab) literal_repr_bases literal_repr_hit literal_repr_fallback",
                                "(lit * bool * list N) * list N", shard=500, needs=["theories/LitRepr.vo", "gen/K116a.vo"])
    name = "K116a-table(LitRepr.lr_model)-vs-helpers.literal_repr"
    if bad is None:
        ctx.correspondence(name, len(cases), -1, log)
        ctx.not_shown("translation validation " + name, log)
    else:
        ctx.correspondence(name, len(cases), len(bad), "; ".join(shown[i][:100] for i in bad[:6]))
        if bad:
            ctx.not_shown("translation validation " + name, "; ".join(shown[i][:120] for i in bad[:6]))
    ctx.count(n=len(cases))


def _corr(ctx, name, imports, defs, cases, okf, ctype, show):
    bad, log = _bad_idx("c16_" + name.split("-vs-")[0].replace("-", "_"), imports, "", defs, cases, okf, ctype,
                                shard=500, needs=["theories/PyStrLit.vo", "theories/PyLit.vo"])
    if bad is None:
        ctx.correspondence(name, len(cases), -1, log)
        ctx.not_shown("correspondence " + name, log)
    else:
        detail = "; ".join(show(i) for i in bad[:8])
        ctx.correspondence(name, len(cases), len(bad), detail)
        if bad:
            ctx.not_shown("correspondence " + name, "model and CPython disagree on: " + detail)
    ctx.count(n=len(cases))


# ---------------------------------------------------------------------------
# oracle on the real implementation
# ---------------------------------------------------------------------------

SRC_HEADER = '''\
import builtins, collections, enum
from base64 import encodebytes
from dataclasses import dataclass, field
from typing import *
from mashumaro import DataClassDictMixin, pass_through
from mashumaro.config import (BaseConfig, TO_DICT_ADD_BY_ALIAS_FLAG, TO_DICT_ADD_OMIT_NONE_FLAG,
                              ADD_DIALECT_SUPPORT, ADD_SERIALIZATION_CONTEXT)
from mashumaro.codecs.basic import BasicDecoder, BasicEncoder
from mashumaro.exceptions import (ExtraKeysError, InvalidFieldValue, MissingField, MissingDiscriminatorError,
                                  SuitableVariantNotFoundError)
from mashumaro.types import Alias, Discriminator
OUT = []
def eq(what, fn, exp):
    try:
        got = fn()
    except Exception as e:
        OUT.append([what, "raised " + type(e).__name__ + ": " + str(e)[:200], repr(exp)])
        return
    if type(got) is not type(exp) or got != exp:
        OUT.append([what, repr(got), repr(exp)])
def raises(what, fn, exc, attr=None, val=None):
    try:
        r = fn()
    except exc as e:
        if attr is not None and getattr(e, attr) != val:
            OUT.append([what + " ." + attr, repr(getattr(e, attr)), repr(val)])
        return
    except Exception as e:
        OUT.append([what, type(e).__name__ + ": " + str(e)[:200], exc.__name__])
        return
    OUT.append([what, "returned " + repr(r), exc.__name__])
S = %(S)s
'''

def header(s: str) -> str:
    return SRC_HEADER.replace('%(S)s', repr(s))


# value types of the aliased field: trivial (value is used as it is), with default, non-trivial packer, optional
FIELD_KINDS = {
    "int": ("int", "5", "5", ""),
    # identity (un)packer: the generator takes the `unpacked_value == "value"` branches
    "any": ("Any", "5", "5", ""),
    "any-default": ("Any", "5", "5", "default=1, "),
    "pass-through": ("int", "5", "5", ""),
    "int-default": ("int", "5", "5", "default=1, "),
    "list": ("List[int]", "[5, 6]", "[5, 6]", ""),
    "opt-list-default": ("Optional[List[int]]", "[5]", "[5]", "default=None, "),
    "date": ("__import__('datetime').date", "__import__('datetime').date(2020, 1, 2)", "'2020-01-02'", ""),
}


def _config(opts: dict, extra: str = "") -> str:
    lines = ["    class Config(BaseConfig):"]
    for k, v in opts.items():
        lines.append(f"        {k} = {v}")
    if extra:
        lines.append(extra)
    if len(lines) == 1:
        lines.append("        pass")
    return "\n".join(lines)


def src_alias(s, how, fk, opts):
    """field alias given by metadata / Annotated Alias / Config.aliases"""
    ftype, val, wire, dflt = FIELD_KINDS[fk]
    cgo = [o for o in ("TO_DICT_ADD_BY_ALIAS_FLAG", "TO_DICT_ADD_OMIT_NONE_FLAG") if opts.get(o)]
    copts = {k: v for k, v in opts.items() if k[0].islower()}
    if cgo:
        copts["code_generation_options"] = "[" + ", ".join(cgo) + "]"
    extra = ""
    pt = "'serialize': pass_through, 'deserialize': pass_through" if fk == "pass-through" else ""
    if how == "metadata":
        fld = f"    x: {ftype} = field({dflt}metadata={{'alias': S{', ' + pt if pt else ''}}})"
    elif how == "annotated":
        fld = f"    x: Annotated[{ftype}, Alias(S)]" + (f" = field({dflt}metadata={{{pt}}})" if (dflt or pt) else "")
    else:
        fld = f"    x: {ftype}" + (f" = field({dflt}metadata={{{pt}}})" if (dflt or pt) else "")
        copts["aliases"] = "{'x': S}"
    body = header(s) + f"""
@dataclass
class A(DataClassDictMixin):
{fld}
    y: int = 2
{_config(copts)}
V = {val}
W = {wire}
"""
    by_alias_default = bool(opts.get("serialize_by_alias"))
    flag = bool(opts.get("TO_DICT_ADD_BY_ALIAS_FLAG"))
    chk = ["def check():"]
    chk.append("    eq('from_dict by alias', lambda: A.from_dict({S: W, 'y': 3}), A(V, 3))")
    if opts.get("allow_deserialization_not_by_alias"):
        chk.append("    eq('from_dict by name', lambda: A.from_dict({'x': W, 'y': 3}), A(V, 3))")
        chk.append("    if S != 'x': eq('alias wins over name', lambda: A.from_dict({S: W, 'x': None, 'y': 3}), A(V, 3))")
    elif not dflt and opts.get("forbid_extra_keys"):
        chk.append("    if S != 'x': raises('alias required', lambda: A.from_dict({'x': W, 'y': 3}), ExtraKeysError, 'extra_keys', {'x'})")
    elif not dflt:
        chk.append("    if S != 'x': raises('alias required', lambda: A.from_dict({'x': W, 'y': 3}), MissingField, 'field_name', 'x')")
    if opts.get("forbid_extra_keys"):
        chk.append("    raises('extra key', lambda: A.from_dict({S: W, 'y': 3, S + '~': 1}), ExtraKeysError, 'extra_keys', {S + '~'})")
    chk.append(f"    eq('to_dict', lambda: A(V, 3).to_dict(), {{{'S' if by_alias_default else repr('x')}: W, 'y': 3}})")
    if flag:
        chk.append("    eq('to_dict(by_alias=True)', lambda: A(V, 3).to_dict(by_alias=True), {S: W, 'y': 3})")
        chk.append("    eq('to_dict(by_alias=False)', lambda: A(V, 3).to_dict(by_alias=False), {'x': W, 'y': 3})")
    chk.append("    return OUT")
    return body + "\n".join(chk) + "\n"


def src_typeddict(s, total, codec):
    body = header(s) + f"""
TD = TypedDict('TD', {{S: int, 'other': List[int]}}, total={total})
@dataclass
class A(DataClassDictMixin):
    t: TD
    u: Optional[TD] = None
def check():
    eq('from_dict', lambda: A.from_dict({{'t': {{S: 1, 'other': [2]}}}}), A({{S: 1, 'other': [2]}}))
    eq('to_dict', lambda: A({{S: 1, 'other': [2]}}).to_dict(), {{'t': {{S: 1, 'other': [2]}}, 'u': None}})
    eq('nested', lambda: A.from_dict({{'t': {{S: 1, 'other': []}}, 'u': {{S: 7, 'other': [1]}}}}).u, {{S: 7, 'other': [1]}})
"""
    if total:
        body += "    raises('missing key', lambda: A.from_dict({'t': {'other': [2]}}), InvalidFieldValue, 'field_name', 't')\n"
    else:
        body += "    eq('optional key absent', lambda: A.from_dict({'t': {'other': [2]}}).t, {'other': [2]})\n"
        body += "    eq('optional key absent to_dict', lambda: A({'other': [2]}).to_dict()['t'], {'other': [2]})\n"
    if codec:
        body += "    eq('decoder', lambda: BasicDecoder(TD).decode({S: 1, 'other': [2]}), {S: 1, 'other': [2]})\n"
        body += "    eq('encoder', lambda: BasicEncoder(TD).encode({S: 1, 'other': [2]}), {S: 1, 'other': [2]})\n"
    return body + "    return OUT\n"


def src_discriminator(s, how):
    if how == "config":
        return header(s) + """
@dataclass
class V(DataClassDictMixin):
    class Config(BaseConfig):
        discriminator = Discriminator(field=S, include_subtypes=True)
@dataclass
class V1(V):
    a: int = 0
@dataclass
class V2(V):
    b: int = 0
setattr(V1, S, 'one')
setattr(V2, S, 'two')
def check():
    eq('variant one', lambda: V.from_dict({S: 'one', 'a': 3}), V1(3))
    eq('variant two', lambda: V.from_dict({S: 'two', 'b': 4}), V2(4))
    raises('missing tag', lambda: V.from_dict({'a': 3}), MissingDiscriminatorError, 'field_name', S)
    raises('unknown tag', lambda: V.from_dict({S: 'three'}), SuitableVariantNotFoundError, 'discriminator_name', S)
    return OUT
"""
    if how == "config-forbid":
        return header(s) + """
@dataclass
class V(DataClassDictMixin):
    class Config(BaseConfig):
        discriminator = Discriminator(field=S, include_subtypes=True)
        forbid_extra_keys = True
@dataclass
class V1(V):
    a: int = 0
setattr(V1, S, 'one')
def check():
    eq('variant one', lambda: V.from_dict({S: 'one', 'a': 3}), V1(3))
    raises('extra key', lambda: V.from_dict({S: 'one', 'a': 3, S + '~': 1}), ExtraKeysError, 'extra_keys', {S + '~'})
    return OUT
"""
    return header(s) + """
@dataclass
class V1(DataClassDictMixin):
    a: int = 0
@dataclass
class V2(DataClassDictMixin):
    b: int = 0
setattr(V1, S, 'one')
setattr(V2, S, 'two')
@dataclass
class H(DataClassDictMixin):
    v: Annotated[Union[V1, V2], Discriminator(field=S, include_supertypes=True)]
def check():
    eq('variant one', lambda: H.from_dict({'v': {S: 'one', 'a': 3}}), H(V1(3)))
    eq('variant two', lambda: H.from_dict({'v': {S: 'two', 'b': 4}}), H(V2(4)))
    raises('missing tag', lambda: H.from_dict({'v': {'a': 3}}), InvalidFieldValue, 'field_name', 'v')
    eq('decoder', lambda: BasicDecoder(Annotated[Union[V1, V2], Discriminator(field=S, include_supertypes=True)]).decode({S: 'two', 'b': 1}), V2(1))
    return OUT
"""


def src_literal(s, how):
    if how == "str":
        return header(s) + """
@dataclass
class A(DataClassDictMixin):
    x: Literal[S, 'other', 7]
    y: Optional[Literal[S]] = None
def check():
    eq('from_dict', lambda: A.from_dict({'x': S}), A(S))
    eq('from_dict y', lambda: A.from_dict({'x': 7, 'y': S}), A(7, S))
    eq('to_dict', lambda: A(S, S).to_dict(), {'x': S, 'y': S})
    raises('other value', lambda: A.from_dict({'x': S + '~'}), InvalidFieldValue, 'field_name', 'x')
    raises('other value out', lambda: A(S + '~').to_dict(), InvalidFieldValue, 'field_name', 'x')
    eq('decoder', lambda: BasicDecoder(Literal[S]).decode(S), S)
    eq('encoder', lambda: BasicEncoder(Literal[S]).encode(S), S)
    return OUT
"""
    if how == "bytes":
        return header(s) + """
B = S.encode('utf-8', 'surrogatepass')
@dataclass
class A(DataClassDictMixin):
    x: Literal[B, b'other']
def check():
    w = encodebytes(B).decode()
    eq('from_dict', lambda: A.from_dict({'x': w}), A(B))
    eq('to_dict', lambda: A(B).to_dict(), {'x': w})
    raises('other value', lambda: A.from_dict({'x': encodebytes(B + b'~').decode()}), InvalidFieldValue, 'field_name', 'x')
    return OUT
"""
    if how == "enum-value":
        return header(s) + """
E = enum.Enum('E', {'M': S, 'N': S + '~'})
@dataclass
class A(DataClassDictMixin):
    x: E
    y: Literal[E.M] = E.M
def check():
    eq('from_dict', lambda: A.from_dict({'x': S, 'y': S}), A(E.M, E.M))
    eq('from_dict N', lambda: A.from_dict({'x': S + '~'}), A(E.N))
    eq('to_dict', lambda: A(E.N).to_dict(), {'x': S + '~', 'y': S})
    raises('literal other member', lambda: A.from_dict({'x': S, 'y': S + '~'}), InvalidFieldValue, 'field_name', 'y')
    return OUT
"""
    if how == "default":
        return header(s) + """
@dataclass
class A(DataClassDictMixin):
    x: str = S
    t: Tuple[str, int] = (S, 1)
    class Config(BaseConfig):
        omit_default = True
def check():
    eq('default omitted', lambda: A().to_dict(), {})
    eq('other kept', lambda: A(S + '~', (S + '~', 1)).to_dict(), {'x': S + '~', 't': [S + '~', 1]})
    eq('from_dict', lambda: A.from_dict({}), A(S, (S, 1)))
    return OUT
"""
    if how == "subclass":
        return header(s) + """
class SubStr(str):
    def __repr__(self): return S
class SubBytes(bytes):
    def __repr__(self): return S
@dataclass
class A(DataClassDictMixin):
    x: Literal[SubStr('v')]
@dataclass
class B(DataClassDictMixin):
    x: Literal[SubBytes(b'v'), 'w']
def check():
    eq('from_dict', lambda: A.from_dict({'x': 'v'}), A('v'))
    raises('other value', lambda: A.from_dict({'x': 'u'}), InvalidFieldValue, 'field_name', 'x')
    eq('from_dict bytes', lambda: B.from_dict({'x': encodebytes(b'v').decode()}), B(b'v'))
    eq('from_dict str member', lambda: B.from_dict({'x': 'w'}), B('w'))
    return OUT
"""
    if how == "default-object":
        return header(s) + """
class Evil:
    def __init__(self, s): self.s = s
    def __repr__(self): return self.s
    def __eq__(self, o): return isinstance(o, Evil) and o.s == self.s
    def __hash__(self): return hash(self.s)
class EvilStr(str):
    def __repr__(self): return str(self)
class Fl(enum.IntFlag):
    A = 1
    B = 2
@dataclass
class A(DataClassDictMixin):
    g: Any = EvilStr(S)
    t: Tuple[Any, str] = (Evil(S), S)
    u: Tuple[Tuple[str, ...], int] = ((S,), 1)
    w: Tuple[str] = (S,)
    e: Any = Evil(S)
    f: Fl = Fl.B
    fl: float = 1.5e300
    ft: Tuple[float, str] = (-0.1, S)
    b: Any = S.encode('utf-8', 'surrogatepass')
    class Config(BaseConfig):
        omit_default = True
def check():
    eq('defaults omitted', lambda: A().to_dict(), {})
    eq('others kept', lambda: A(EvilStr(S + '~'), (Evil(S + '~'), S), ((S, S), 1), (S + '~',), Evil(S + '~'), Fl.A, 2.5, (0.1, S), b'~').to_dict(),
       {'g': EvilStr(S + '~'), 't': [Evil(S + '~'), S], 'u': [[S, S], 1], 'w': [S + '~'], 'e': Evil(S + '~'), 'f': 1, 'fl': 2.5, 'ft': [0.1, S], 'b': b'~'})
    eq('from_dict', lambda: A.from_dict({}), A())
    return OUT
"""
    raise ValueError(how)


def src_namedtuple(s, how):
    """s is an identifier here (Python refuses anything else as a named-tuple field name)"""
    return header(s) + f"""
NT = collections.namedtuple('NT', [S, 'other'])
@dataclass
class A(DataClassDictMixin):
    t: {'NT' if how == 'config' else "NT = field(metadata={'serialize': 'as_dict', 'deserialize': 'as_dict'})"}
    class Config(BaseConfig):
        namedtuple_as_dict = {how == 'config'}
def check():
    eq('to_dict', lambda: A(NT(1, 2)).to_dict(), {{'t': {{S: 1, 'other': 2}}}})
    eq('from_dict', lambda: A.from_dict({{'t': {{S: 1, 'other': 2}}}}), A(NT(1, 2)))
    return OUT
"""


def src_enum_member_name(s):
    """functional-API enum whose member NAME is the string (any string is accepted by Enum);
    the member is used as a Literal value (fixed in /repo by 1446c19: E[name!r] instead of E.name)"""
    return header(s) + """
E = enum.Enum('E', {S: 1, 'ok': 2})
@dataclass
class A(DataClassDictMixin):
    x: Literal[E[S]]
    y: Literal[E[S], E.ok, 'z'] = E.ok
def check():
    eq('from_dict', lambda: A.from_dict({'x': 1}), A(E[S]))
    eq('from_dict y', lambda: A.from_dict({'x': 1, 'y': 1}), A(E[S], E[S]))
    eq('to_dict', lambda: A(E[S], E[S]).to_dict(), {'x': 1, 'y': 1})
    raises('other member', lambda: A.from_dict({'x': 2}), InvalidFieldValue, 'field_name', 'x')
    raises('other member out', lambda: A(E.ok).to_dict(), InvalidFieldValue, 'field_name', 'x')
    eq('decoder', lambda: BasicDecoder(Literal[E[S]]).decode(1), E[S])
    eq('encoder', lambda: BasicEncoder(Literal[E[S]]).encode(E[S]), 1)
    return OUT
"""


def src_literal_bool():
    """bool / int Literal values (string independent): literal_repr must render True as True, not as 1 -
    the generated test compares classes (`value.__class__ is (True).__class__`)"""
    return header("") + """
@dataclass
class A(DataClassDictMixin):
    x: Literal[True, 2]
    y: Literal[1, False] = 1
def check():
    eq('from_dict True', lambda: A.from_dict({'x': True}).x, True)
    eq('from_dict 2', lambda: A.from_dict({'x': 2, 'y': False}).y, False)
    eq('from_dict 1', lambda: A.from_dict({'x': 2, 'y': 1}).y, 1)
    eq('to_dict', lambda: A(True, False).to_dict(), {'x': True, 'y': False})
    raises('1 is not True', lambda: A.from_dict({'x': 1}), InvalidFieldValue, 'field_name', 'x')
    raises('0 is not False', lambda: A.from_dict({'x': 2, 'y': 0}), InvalidFieldValue, 'field_name', 'y')
    eq('decoder', lambda: BasicDecoder(Literal[True]).decode(True), True)
    return OUT
"""


def enum_name_ok(s: str) -> bool:
    """names the Enum functional API itself accepts as an ordinary member (it refuses
    _sunder_/dunder names, descriptors and a few reserved words)"""
    if s == "ok":
        return False
    try:
        import enum as _e
        with warnings.catch_warnings():
            warnings.simplefilter("ignore")
            E = _e.Enum("E", {s: 1, "ok": 2})
        return E[s].name == s and E[s].value == 1 and len(list(E)) == 2
    except Exception:
        return False


IDENTS = ["a", "x1", "_x"[1:], "é", "中", "ﬁ", "ª", "camelCase", "x_y", "Āb", "d", "value", "kwargs", "MISSING", "self", "cls"]


GENERATED: list = []          # generated source texts captured during the oracle (for the line-tokens tie)
_REC_INSTALLED = False


def install_recorder():
    """rebind the module-global `exec` of the generator modules to a recording wrapper (no edit of /repo)"""
    global _REC_INSTALLED
    if _REC_INSTALLED:
        return
    import importlib
    for mn in ("mashumaro.core.meta.code.builder", "mashumaro.core.meta.types.pack", "mashumaro.core.meta.types.unpack",
               "mashumaro.core.meta.types.common"):
        m = importlib.import_module(mn)

        def rec(code, *a, _e=builtins.exec, **k):
            if isinstance(code, str) and len(GENERATED) < 30000:
                GENERATED.append(code)
            return _e(code, *a, **k)
        m.exec = rec
    _REC_INSTALLED = True


def run_src(src: str):
    """exec the self-contained case; returns (failures, sentinel_hits)"""
    install_recorder()
    hits = []
    setattr(builtins, SENTINEL, hits)
    name = "c16_case"
    mod = types.ModuleType(name)
    sys.modules[name] = mod
    out = []
    try:
        with warnings.catch_warnings():
            warnings.simplefilter("ignore")
            exec(compile(src, "<c16-case>", "exec"), mod.__dict__)
            out = list(mod.check())
    except BaseException as e:  # class creation failed (SyntaxError, NameError, ...)
        if isinstance(e, (KeyboardInterrupt, SystemExit)):
            raise
        out = [["class creation / check raised", f"{type(e).__name__}: {str(e)[:300]}", "no exception"]]
    finally:
        sys.modules.pop(name, None)
    return out, list(hits)


def alias_cases(rng, s):
    how = rng.choice(["metadata", "annotated", "config"])
    fk = rng.choice(list(FIELD_KINDS))
    opts = {}
    for o in ("serialize_by_alias", "allow_deserialization_not_by_alias", "forbid_extra_keys", "omit_default", "omit_none",
              "TO_DICT_ADD_BY_ALIAS_FLAG", "TO_DICT_ADD_OMIT_NONE_FLAG"):
        if rng.random() < 0.4:
            opts[o] = True
    return ("alias-" + how, fk + "|" + ",".join(sorted(opts)), src_alias(s, how, fk, opts))


def gen_case(rng, s, pos):
    if pos in ("alias", "alias2"):
        return alias_cases(rng, s)
    if pos == "typeddict":
        total, codec = rng.random() < 0.5, rng.random() < 0.5
        return ("typeddict-key", f"total={total},codec={codec}", src_typeddict(s, total, codec))
    if pos == "discriminator":
        how = rng.choice(["config", "annotated", "config-forbid"])
        return ("discriminator-" + how, "", src_discriminator(s, how))
    if pos == "enum-name":
        return ("literal-enum-member-name", "", src_enum_member_name(s))
    if pos == "default-object":
        return (pos, "", src_literal(s, pos))
    if pos == "literal-subclass":
        return (pos, "", src_literal(s, "subclass"))
    if pos in ("literal-str", "literal-bytes", "enum-value", "default"):
        return (pos, "", src_literal(s, pos.replace("literal-", "")))
    raise ValueError(pos)


POSITIONS = ["alias", "alias2", "typeddict", "discriminator", "literal-str", "literal-bytes", "enum-value", "default", "enum-name", "default-object", "literal-subclass"]


def in_domain(s: str, pos: str) -> bool:
    """narrow, stated exclusions (not findings):
    - an empty discriminator field means 'no field' in the documented API (field: Optional[str]);
    - a TypedDict key equal to the fixed second key 'other' of the test schema would merge two keys;
    - an alias equal to the name of the other field 'y' makes two fields read one key (C09's subject)."""
    if pos == "discriminator":
        # (a class attribute named like a dunder of every class cannot carry a tag in the test schema)
        return s != "" and s not in ("a", "b") and not (s.startswith("__") and s.endswith("__"))
    if pos == "typeddict":
        return s != "other"
    if pos in ("alias", "alias2"):
        return s not in ("y", "x~")
    if pos == "literal-str":
        return s not in ("other",) and s + "~" != "other"
    if pos == "enum-name":
        return enum_name_ok(s)
    if pos == "literal-bytes":
        return s.encode("utf-8", "surrogatepass") not in (b"other",) 
    return True


def classify(pos: str, s: str, fails) -> dict:
    return {"position": pos, "kind": "string-not-data"}


def oracle(ctx: vlib.Ctx, boost: bool = False):
    rng = ctx.rng
    n = ctx.budget(600, 5000)
    if boost:
        n *= 2
    strings = list(CORPUS)
    while len(strings) < n:
        strings.append(rand_string(rng, 10))
    strings = strings[:n]
    nfail = 0
    for i, s in enumerate(strings):
        # every string goes to every position class in the first (corpus) part, then round robin x2
        poss = POSITIONS if i < len(CORPUS) else [POSITIONS[i % len(POSITIONS)], POSITIONS[(i * 7 + 3) % len(POSITIONS)]]
        for pos in dict.fromkeys(poss):
            if not in_domain(s, pos):
                continue
            p, variant, src = gen_case(rng, s, pos)
            fails, hits = run_src(src)
            ctx.count((p, s))
            ctx.hist("positions", p)
            ctx.hist("string_classes", str_class(s))
            if fails or hits:
                nfail += 1
                what = f"{p} [{variant}] with string {s!r}: " + (
                    "SENTINEL FIRED (schema string was executed); " if hits else "") + "; ".join(
                    f"{w}: got {g}, expected {e}" for w, g, e in fails[:3])
                ctx.fail(what[:600], {"entry": "exec(source); check()", "source": src, "string": s, "position": p,
                                      "variant": variant, "observed": fails[:5], "sentinel_hits": len(hits),
                                      "expected": "no failures, sentinel not fired"},
                         classify(p, s, fails))
            if i < 3:
                ctx.sample({"position": p, "variant": variant, "string": s, "failures": fails, "sentinel": len(hits)})
    # the empty alias and a quote alias through EVERY combination of the alias-relevant options
    # (independent of the random stream: the empty string has no second chance among random strings)
    import itertools
    OPTS = ("serialize_by_alias", "allow_deserialization_not_by_alias", "forbid_extra_keys", "omit_default", "TO_DICT_ADD_BY_ALIAS_FLAG")
    for s in ("", "it's"):
        for how in ("metadata", "annotated", "config"):
            for fk in ("int", "int-default", "any"):
                for bits in itertools.product((False, True), repeat=len(OPTS)):
                    opts = {o: True for o, b in zip(OPTS, bits) if b}
                    src = src_alias(s, how, fk, opts)
                    fails, hits = run_src(src)
                    p = "alias-" + how
                    ctx.count((p, s, fk, bits))
                    ctx.hist("positions", p + "-exhaustive-options")
                    if fails or hits:
                        variant = fk + "|" + ",".join(sorted(opts))
                        ctx.fail((f"{p} [{variant}] with string {s!r}: " + ("SENTINEL FIRED; " if hits else "") +
                                  "; ".join(f"{w}: got {g}, expected {e}" for w, g, e in fails[:3]))[:600],
                                 {"entry": "exec(source); check()", "source": src, "string": s, "position": p, "variant": variant,
                                  "observed": fails[:5], "sentinel_hits": len(hits), "expected": "no failures, sentinel not fired"},
                                 classify(p, s, fails))
    # named-tuple keys: identifiers only (Python refuses everything else)
    for j, s in enumerate(IDENTS):
        for how in ("config", "metadata"):
            fails, hits = run_src(src_namedtuple(s, how))
            ctx.count(("namedtuple-" + how, s))
            ctx.hist("positions", "namedtuple-as-dict-" + how)
            if fails or hits:
                ctx.fail(f"namedtuple-as-dict [{how}] with field {s!r}: {fails[:2]}",
                         {"entry": "exec(source); check()", "source": src_namedtuple(s, how), "string": s,
                          "position": "namedtuple-as-dict", "observed": fails[:5], "sentinel_hits": len(hits)},
                         {"position": "namedtuple-as-dict", "kind": "string-not-data"})
    # bool / int Literal values through helpers.literal_repr
    fails, hits = run_src(src_literal_bool())
    ctx.count(("literal-bool-int", ""))
    ctx.hist("positions", "literal-bool-int")
    if fails or hits:
        ctx.fail(f"Literal[True, 2] / Literal[1, False]: {fails[:3]}",
                 {"entry": "exec(source); check()", "source": src_literal_bool(), "string": "", "position": "literal-bool-int",
                  "observed": fails[:5], "sentinel_hits": len(hits), "expected": "no failures"},
                 {"position": "literal-bool-int", "kind": "string-not-data"})
    return nfail


# ---------------------------------------------------------------------------
# the check
# ---------------------------------------------------------------------------

THEOREMS = ["C16_text_use_bytes", "C16_literal_repr_site", "C16_literal_repr_general", "C16_literal_repr_inert", "C16_literal_repr_eval", "C16_literal_repr_refuted", "C16_use_stable", "C16_text_use", "C16_site_use", "C16_site_use_whole", "C16_key_eq_exact", "C16_float_inert", "C16_ident_sites", "C16_ident_site", "C16_line_literal", "C16_line_literal_bytes", "C16_site_line", "C16_render_eval", "C16_sites_full", "C16_site_value", "C16_default_branches_safe", "C16_default_literal_general",
            "C16_default_literal", "C16_repr_tuple_refuted", "C16_repr_lex", "C16_ascii_lex", "C16_repr_bytes_lex", "C16_repr_clean", "C16_raw_plain_lex",
            "C16_raw_refuted", "C16_sites", "C16_site_literal", "C16_site_guarded", "C16_ident_char_inert",
            "C16_site_literal_bytes"]


def k10_evidence(ctx: vlib.Ctx):
    """the splice table as seen on this run (for the evidence file and for aiming the search)"""
    import importlib.util
    spec = importlib.util.spec_from_file_location("k10_splices", os.path.join(vlib.VERIF, "tools", "kernels", "k10_splices.py"))
    m = importlib.util.module_from_spec(spec)
    try:
        spec.loader.exec_module(m)
        rep = m.report()
    except Exception as e:
        ctx.notes.append(f"K10 report failed: {type(e).__name__}: {e}")
        return None
    bad = [r for r in rep["sites"] if r["kind"] not in ("KRepr", "KAscii", "KGuardedIdent")
           or (r["kind"] in ("KRepr", "KAscii") and (not r.get("types") or any(t in ("TTuple", "TAny") or t.endswith("Sub") for t in r["types"])))]
    ctx.coverage["k10"] = {"rows": len(rep["sites"]), "counts": rep["counts"], "excluded_in_raise": rep["excluded_in_raise"],
                           "formatted_values_in_source": rep["total_formatted_values"],
                           "not_ok_rows": [f"{r['kind']} {r['file'].split('/')[-1]}:{r['line']} {r['expr'][:60]} ({r['origin'][:60]})" for r in bad[:20]],
                           "sites": [f"{r['kind']} {r['file'].split('/')[-1]}:{r['line']} {r['func']} {r['expr'][:40]} <{r['origin'][:30]}> {r['before'][-24:]!r} . {r['after'][:12]!r}"
                                     for r in rep["sites"]][:80]}
    isites = rep.get("ident_sites", [])
    ctx.coverage["k10"]["ident_sites"] = len(isites)
    ctx.coverage["k10"]["ident_sites_not_plain"] = [f"{r['file'].split('/')[-1]}:{r['line']} {r['expr']} <{r['origin'][:40]}>" for r in isites if not r["plain"]][:10]
    if ctx.coverage["k10"]["ident_sites_not_plain"]:
        ctx.coverage["k10"]["not_ok_rows"] += ["ident " + x for x in ctx.coverage["k10"]["ident_sites_not_plain"]]
    for r in rep["sites"]:
        ctx.hist("k10_origin", r["origin"][:40])
    return rep


def run(ctx: vlib.Ctx):
    ctx.coverage["rule"] = (
        "strings: hand-written corpus (quotes, backslash, newline, CR, NUL, braces, %, non-ASCII, combining, non-BMP, lone "
        "surrogates, U+0085/2028, escape look-alikes, code fragments closing the literal with a sentinel side effect) + random "
        "strings over that alphabet + random code points; each corpus string goes to every position (metadata/Annotated/Config "
        "alias x field kind (incl. Any / pass_through identity unpackers) x option subset, TypedDict key, discriminator field "
        "Config/Annotated/forbid, Literal str/bytes, enum value, enum member NAME inside Literal, default value, default tuples holding objects whose "
        "__repr__ is the string / IntFlag / bytes defaults), random strings to two positions each; distinct = (position, string); named-tuple keys: identifiers only")
    ctx.assumptions += [
        "the printable oracle of repr is arbitrary in the theorems except that lone surrogates are not printable (checked for str.isprintable on all code points each run)",
        "strings are sequences of code points < 0x110000; bytes are < 256",
        "K10: every producer of generated sub-expressions lives in builder.py/pack.py/unpack.py/common.py; user-supplied pack/unpack callables, "
        "SerializationStrategy objects and type names are bound by reference/name (C17), not scanned here",
        "dataclass and named-tuple field names are identifiers (enforced by Python); enum member names are DATA (any string the Enum API accepts)",
    ]
    ctx.trusted += [
        "PyStrLit.v: py_repr / py_ascii / py_repr_bytes / lex_string / lex_bytes model CPython 3.12 unicode_repr, bytes_repr and the "
        "tokenizer + literal evaluation for non-prefixed and b-prefixed literals (compared with repr/ascii/tokenize+compile each run); "
        "\\N{name} escapes are not modelled (lexer answers None)",
        "tools/kernels/k10_splices.py: the abstract interpreter over the generator's AST and its explicit origin rules "
        "(PARAM_RULES, ATTR_RULES, EXPR_RULES, CALL_RULES): what counts as DATA, CODE, identifier",
        "site_ok looks at the static text of the f-string around the value (before: no quote/#/backslash, last char not an identifier "
        "char; after: not a quote), not at text contributed by other placeholders of the same line",
    ]
    # a coqc that was killed (memory pressure on a shared machine) or timed out printed no Coq error: no verdict.
    # Then the build is run again (the recorded obligations of the aborted attempt are dropped first); a Coq
    # error - which always names a file and a line - is final at once.
    import time as _time
    for attempt in range(3):
        marks = (len(ctx.obligations), len(ctx.unshown), len(ctx.axioms))
        br = ctx.theorems("props/C16_strings.vo", THEOREMS, kernels=["K10", "K116a"])
        if br.ok or br.failed_file is not None or attempt == 2:
            break
        ctx.notes.append(f"build attempt {attempt + 1} ended without a Coq verdict (killed / timed out), run again: {(br.error or '')[-200:]}")
        del ctx.obligations[marks[0]:], ctx.unshown[marks[1]:], ctx.axioms[marks[2]:]
        _time.sleep(30 * (attempt + 1))
    rep = k10_evidence(ctx)
    if not br.ok:
        # say which half broke: the pure string-literal theorems do not depend on /repo
        pure = ctx.build(["theories/PyStrLitProofs.vo"])
        bad_rows = (ctx.coverage.get("k10") or {}).get("not_ok_rows", [])
        if pure.ok:
            for o in ctx.obligations:
                if o["name"] in ("C16_repr_lex", "C16_ascii_lex", "C16_repr_bytes_lex", "C16_repr_clean", "C16_raw_plain_lex") and not o["ok"]:
                    o["detail"] = ("lemma of theories/PyStrLitProofs.vo still checks; not re-stated because props/C16_strings.v "
                                   "does not build: " + o["detail"])[:1500]
        if bad_rows:
            ctx.not_shown("K10: splice sites of /repo that fail site_ok (C16_sites)", "; ".join(bad_rows))
    if br.ok and not ctx.quick():
        # second opinion: the standalone checker on the compiled property file
        rc, log, secs = vlib.run(["timeout", "900", "coqchk", "-silent", "-o", "-Q", "theories", "Verif", "-Q", "gen", "VerifGen",
                                  "-Q", "props", "VerifProps", "VerifProps.C16_strings"], cwd=vlib.COQ, timeout=930)
        ok = rc == 0 and "Axioms: <none>" in log
        ctx.obligation("coqchk VerifProps.C16_strings (no axioms)", ok, log[-400:])
        if not ok:
            ctx.not_shown("coqchk VerifProps.C16_strings", log[-800:])
    model_tie(ctx)
    lit_tie(ctx)
    literal_repr_tie(ctx)
    float_law(ctx)
    broken = bool(ctx.unshown)
    oracle(ctx, boost=broken)
    line_tie(ctx)
    use_tie(ctx)


def replay(rep: dict) -> int:
    src = rep.get("source")
    if not src:
        print("replay file names a broken obligation, no failing input:", json.dumps(rep.get("not_shown", rep), indent=1)[:3000])
        return 2
    fails, hits = run_src(src)
    print("position:", rep.get("position"), "string:", repr(rep.get("string")))
    print("failures:", fails)
    print("sentinel hits:", len(hits))
    if fails or hits:
        print("REPRODUCED")
        return 1
    print("not reproduced")
    return 0
