"""C13 helper: correspondence of the document model (DialectDoc.v: codec_strategies / choice / codec_document,
kernels K13C and K13U) with the real codecs."""
from __future__ import annotations

import datetime
import importlib.util
import itertools
import os
import sys
import types
import uuid

from harness import vlib

FMTS = ["FBasic", "FJson", "FYaml", "FOrjson", "FMsgpack", "FToml"]
TYPE_IDS = {datetime.datetime: 1, datetime.date: 2, datetime.time: 3, uuid.UUID: 4, bytes: 5, bytearray: 6, int: 7, str: 8}


class _Ident:
    """stands in for a format library inside a codec module: dumps/packb = identity"""

    def __getattr__(self, name):
        return lambda x, *a, **k: x


def pre_encoder_mapping(fmt: str, T, D, value):
    """The mapping the real Encoder of the format hands to its format library (the real __init__ runs)."""
    from mashumaro.codecs import BasicEncoder
    from mashumaro.codecs import json as cj, msgpack as cm, orjson as co, toml as ct, yaml as cy
    ident = lambda x: x  # noqa: E731
    if value is None:
        value = T()
    kw = {} if D is None else {"default_dialect": D}
    if fmt == "FBasic":
        return BasicEncoder(T, **kw).encode(value)
    if fmt == "FJson":
        return cj.JSONEncoder(T, post_encoder_func=ident, **kw).encode(value)
    if fmt == "FYaml":
        return cy.YAMLEncoder(T, post_encoder_func=ident, **kw).encode(value)
    if fmt == "FMsgpack":
        return cm.MessagePackEncoder(T, post_encoder_func=ident, **kw).encode(value)
    mod, attr = (co, "orjson") if fmt == "FOrjson" else (ct, "tomli_w")
    saved = getattr(mod, attr)
    setattr(mod, attr, _Ident())          # harness-side rebinding of the module global, /repo is untouched
    try:
        enc = (co.ORJSONEncoder if fmt == "FOrjson" else ct.TOMLEncoder)(T, **kw)
    finally:
        setattr(mod, attr, saved)
    return enc.encode(value)


# ---------------------------------------------------------------------------
# (T) validation of K13C's tables against the running classes, K13U against the real function
# ---------------------------------------------------------------------------

def _plugin(name):
    p = os.path.join(vlib.VERIF, "tools", "kernels", name)
    spec = importlib.util.spec_from_file_location("c13_" + name[:-3], p)
    m = importlib.util.module_from_spec(spec)
    spec.loader.exec_module(m)
    return m


def kernel_tables_validation(ctx: vlib.Ctx):
    from mashumaro.core.const import Sentinel
    from mashumaro.helper import pass_through
    from mashumaro.mixins.msgpack import MessagePackDialect
    from mashumaro.mixins.orjson import OrjsonDialect
    from mashumaro.mixins.toml import TOMLDialect
    real = {"OrjsonDialect": OrjsonDialect, "MessagePackDialect": MessagePackDialect, "TOMLDialect": TOMLDialect}
    bad = []
    n = 0
    try:
        k = _plugin("k13c_codec_plan.py")
        opts, strats = k.dialect_tables()
    except Exception as e:  # noqa: BLE001
        ctx.correspondence("K13C-tables-vs-running-classes", 0, -1, f"{type(e).__name__}: {e}")
        ctx.not_shown("translation validation K13C", f"{type(e).__name__}: {e}")
        return
    tnames = {v: kk for kk, v in k.TYPE_IDS.items()}
    for (cname, o), (_c2, s) in zip(opts, strats):
        cls = real[cname]
        # options: what the AST table says == what the class binds itself
        own = {a: v for a, v in cls.__dict__.items() if not a.startswith("__") and a != "serialization_strategy"}
        said = {x.split('"')[1] for x in o}
        n += 1
        if said != set(own):
            bad.append(f"{cname}: options {sorted(said)} vs {sorted(own)}")
        for a, v in own.items():
            n += 1
            txt = next(x for x in o if x.split('"')[1] == a)
            exp = ("KBool true" if v is True else "KBool false" if v is False else
                   "KTuple [" + "; ".join(f"KObj {k.COLL_IDS[t.__name__]}" for t in v) + "]")
            if exp not in txt:
                bad.append(f"{cname}.{a}: {txt} vs {v!r}")
        ss = cls.serialization_strategy
        n += 1
        if {tnames[int(x[1:].split(',')[0])] for x in s} != {t.__name__ for t in ss}:
            bad.append(f"{cname}: strategy keys {s} vs {list(ss)}")
        for t, v in ss.items():
            n += 1
            txt = next(x for x in s if int(x[1:].split(',')[0]) == k.TYPE_IDS[t.__name__])
            if v is pass_through:
                ok = "SStrat 0" in txt
            else:
                ok = "SDict" in txt and all(f'"{d}"' in txt for d in v) and (('("serialize", 0)' in txt) == (v.get("serialize") is pass_through))
            if not ok:
                bad.append(f"{cname}[{t.__name__}]: {txt} vs {v!r}")
    ctx.count(n=n)
    ctx.correspondence("K13C-tables-vs-running-classes", n, len(bad), "; ".join(bad[:4]))
    if bad:
        ctx.not_shown("translation validation K13C", "; ".join(bad[:4]))

    # K13U: the translated get_unpack_method_flags vs the real one
    from dataclasses import dataclass
    from mashumaro import DataClassDictMixin
    from mashumaro.config import ADD_DIALECT_SUPPORT, BaseConfig
    from mashumaro.core.meta.code.builder import CodeBuilder
    cases, descr = [], []
    for a, b in itertools.product([False, True], repeat=2):
        def mk(sup, nm):
            cfg = type("Config", (BaseConfig,), {"code_generation_options": [ADD_DIALECT_SUPPORT] if sup else []})
            return dataclass(type(nm, (DataClassDictMixin,), {"__annotations__": {"x": int}, "x": 1, "Config": cfg}))
        A, B = mk(a, "A"), mk(b, "B")
        got = CodeBuilder(A).get_unpack_method_flags(B)
        enc = lambda s: 'KNs [("ADD_DIALECT_SUPPORT", KBool ' + ("true" if s else "false") + ")]"  # noqa: E731
        cases.append(f"({enc(a)}, {enc(b)}, {vlib.coq_str(got)})")
        descr.append((a, b, got))
    ctx.count(n=len(cases))
    if ctx.kernel_report.get("K13U", {}).get("ok"):
        badi, log = vlib.coq_bad_idx("c13_k13u", "PyK_c08", "From VerifGen Require Import K13U.", "", cases,
                                     "fun c => match get_unpack_method_flags (fst (fst c)) (snd (fst c)) with "
                                     "Ok (KStr s) => String.eqb s (snd c) | _ => false end", "kv * kv * string",
                                     needs=["gen/K13U.vo"])
        if badi is None:
            ctx.correspondence("K13U-translation-vs-python", len(cases), -1, log)
            ctx.not_shown("translation validation K13U", log)
        else:
            ctx.correspondence("K13U-translation-vs-python", len(cases), len(badi), str([descr[i] for i in badi]))
            if badi:
                ctx.not_shown("translation validation K13U", str([descr[i] for i in badi]))
    else:
        ctx.not_shown("translation validation K13U", "K13U did not translate")


# ---------------------------------------------------------------------------
# (M) which serializer is in force at the default-dialect level (choice model)
# ---------------------------------------------------------------------------

def strategy_choice_corr(ctx: vlib.Ctx, direction: str = "serialize"):
    from mashumaro.codecs._builder import CodecCodeBuilder
    from mashumaro.core.meta.types.common import FieldContext, ValueSpec
    from mashumaro.core.meta.types.pack import get_overridden_serialization_method
    from mashumaro.core.meta.types.unpack import get_overridden_deserialization_method
    getter = get_overridden_serialization_method if direction == "serialize" else get_overridden_deserialization_method
    from mashumaro.dialect import Dialect
    from mashumaro.helper import pass_through
    from mashumaro.mixins.msgpack import MessagePackDialect
    from mashumaro.mixins.orjson import OrjsonDialect
    from mashumaro.mixins.toml import TOMLDialect
    from mashumaro.types import SerializationStrategy
    fmt_dialect = {"FOrjson": OrjsonDialect, "FMsgpack": MessagePackDialect, "FToml": TOMLDialect}

    class St(SerializationStrategy):
        def serialize(self, v):
            return v

        def deserialize(self, v):
            return v

    # callables of the format dialects carry the numbers kernel K13C gave them
    import re as _re
    known: dict[int, int] = {}
    try:
        k13c = _plugin("k13c_codec_plan.py")
        _o, strats = k13c.dialect_tables()
        real = {"OrjsonDialect": OrjsonDialect, "MessagePackDialect": MessagePackDialect, "TOMLDialect": TOMLDialect}
        tname = {v: kk for kk, v in k13c.TYPE_IDS.items()}
        for cname, ents in strats:
            for txt in ents:
                tid = int(txt[1:].split(",")[0])
                rv = next(v for t, v in real[cname].serialization_strategy.items() if t.__name__ == tname[tid])
                if isinstance(rv, dict):
                    for dname, n in _re.findall(r'\("(serialize|deserialize)", (\d+)\)', txt):
                        known[id(rv[dname])] = int(n)
    except Exception:  # noqa: BLE001  (K13C's own validation reports a broken table)
        known = {}
    r = ctx.rng
    types_ = [t for t in TYPE_IDS if t not in (int, str)] + [int]
    cases, descr = [], []
    n = ctx.budget(120, 900)
    for _ in range(n):
        fmt = r.choice(FMTS)
        ids: dict[int, int] = {}
        keep = []

        def num(o):
            if o is pass_through:
                return 0
            if id(o) in known:
                return known[id(o)]
            if id(o) not in ids:
                ids[id(o)] = 200 + len(ids)
                keep.append(o)
            return ids[id(o)]

        usr = None
        if r.random() < 0.8:
            usr = {}
            for t in r.sample(types_, r.randint(0, 4)):
                k = r.randrange(5)
                if k == 0:
                    usr[t] = St()
                elif k == 1:
                    usr[t] = pass_through
                else:
                    usr[t] = {nm: (lambda v: v) for nm in r.choice([["serialize"], ["deserialize"], ["serialize", "deserialize"], []])}
        D = None if usr is None else type("D", (Dialect,), {"serialization_strategy": usr})
        # the default dialect exactly as the codec classes compute it (plan checked by C13_codec_plans)
        if fmt in fmt_dialect:
            dd = fmt_dialect[fmt].merge(D) if D is not None else fmt_dialect[fmt]
        else:
            dd = D
        ty = r.choice(types_)
        b = CodecCodeBuilder.new(type_args=(), default_dialect=dd)
        b.reset()
        spec = ValueSpec(type=ty, expression="value", builder=b, field_ctx=FieldContext(name="", metadata={}))
        got = getter(spec)

        def enc_usr(u):
            if u is None:
                return "None"
            parts = []
            for t, v in u.items():
                if isinstance(v, SerializationStrategy):
                    parts.append(f"({TYPE_IDS[t]}, SStrat {num(v)})")
                else:
                    parts.append(f"({TYPE_IDS[t]}, SDict [" + "; ".join(f'("{k}", {num(f)})' for k, f in v.items()) + "])")
            return "Some [" + "; ".join(parts) + "]"

        eu = enc_usr(usr)
        if got is None:
            e = "ENone"
        elif got is pass_through:
            e = "EStrat 0"
        elif getattr(got, "__self__", None) is not None and isinstance(got.__self__, SerializationStrategy):
            e = f"EStrat {num(got.__self__)}"
        else:
            e = f"EFun {num(got)}"
        # a dict entry {"serialize": pass_through} of a format dialect yields pass_through itself: EFun 0 in the model
        cases.append(f"({fmt}, {eu}, {TYPE_IDS[ty]}, {e})")
        descr.append(f"{fmt} {eu} type {ty.__name__} -> {e}")
        ctx.count(("choice", fmt, eu, ty.__name__))
    okf = ("fun c => let '(f, usr, ty, e) := c in let g := effective (sm_get (codec_strategies f usr) ty) \"" + direction + "\" in "
           "eff_eqb g e || (match g, e with EFun 0, EStrat 0 => true | _, _ => false end)")
    bad, log = vlib.coq_bad_idx("c13_choice_" + direction, "OptProj DialectMerge DialectDoc", "From VerifGen Require Import K13C.",
                                "Open Scope nat_scope.\n", cases, okf, "choice_case", shard=500, needs=["theories/DialectDoc.vo"])
    name = ("serializer-choice-model-vs-get_overridden_serialization_method" if direction == "serialize"
            else "deserializer-choice-model-vs-get_overridden_deserialization_method")
    if bad is None:
        ctx.correspondence(name, len(cases), -1, log)
        ctx.not_shown("correspondence " + name, log)
    else:
        ctx.correspondence(name, len(cases), len(bad), "; ".join(descr[i] for i in bad[:3]))
        if bad:
            ctx.not_shown("correspondence " + name, "; ".join(descr[i] for i in bad[:3]))


# ---------------------------------------------------------------------------
# (M) whole documents: codec_document vs the mapping the real Encoder hands to its library
# ---------------------------------------------------------------------------

DOC_SRC = r'''
from dataclasses import dataclass, field
from typing import Optional
import datetime, uuid
from mashumaro.config import BaseConfig
from mashumaro.dialect import Dialect

CFG = type("Config", (BaseConfig,), dict(CFG_NS))
'''

KINDS = {
    # kind: (annotation, default source or None, type id, nullable, python type for values)
    "optint": ("Optional[int]", "None", 7, True),
    "int": ("int", None, 7, False),
    "intd": ("int", "1", 7, False),
    "str": ("str", None, 8, False),
    "dt": ("datetime.datetime", None, 1, False),
    "optdt": ("Optional[datetime.datetime]", "None", 1, True),
    "date": ("datetime.date", None, 2, False),
    "bytes": ("bytes", None, 5, False),
    "uuid": ("uuid.UUID", None, 4, False),
}


def gen_shape(r):
    kinds = r.sample(list(KINDS), r.randint(2, 5))
    # fields without default first (dataclass rule)
    kinds.sort(key=lambda k: KINDS[k][1] is not None)
    fields = []
    for i, k in enumerate(kinds):
        alias = f"al{i}" if r.random() < 0.35 else None
        fields.append((f"f{i}", k, alias))
    return fields


def shape_source(fields) -> str:
    lines = ["@dataclass", "class T:"]
    for name, kind, alias in fields:
        ann, dflt, _ty, _n = KINDS[kind]
        if alias is not None:
            rhs = f" = field({'default=' + dflt + ', ' if dflt is not None else ''}metadata={{'alias': {alias!r}}})"
        else:
            rhs = f" = {dflt}" if dflt is not None else ""
        lines.append(f"    {name}: {ann}{rhs}")
    lines.append("    Config = CFG")
    return "\n".join(lines) + "\n"


def gen_value(r, kind):
    if kind in ("optint",):
        return r.choice([None, 3, 0])
    if kind == "int":
        return r.choice([0, 5])
    if kind == "intd":
        return r.choice([1, 2])
    if kind == "str":
        return r.choice(["q", "Hello"])
    if kind == "dt":
        return r.choice([datetime.datetime(2020, 1, 2, 3, 4, 5), datetime.datetime(2021, 6, 7, 8, 9, 10)])
    if kind == "optdt":
        return r.choice([None, datetime.datetime(2020, 1, 2, 3, 4, 5)])
    if kind == "date":
        return r.choice([datetime.date(2021, 5, 6), datetime.date(1999, 12, 31)])
    if kind == "bytes":
        return r.choice([b"xy", b"\x00\xff"])
    if kind == "uuid":
        return uuid.UUID(int=r.choice([1, 2 ** 100 + 7]))
    raise KeyError(kind)


class PvEnc:
    """Python values -> OptProj.pv terms; objects are numbered up to == and type."""

    def __init__(self):
        self.objs = []

    def __call__(self, v) -> str:
        if v is None:
            return "PNone"
        if v is True or v is False:
            return f"(PBool {'true' if v else 'false'})"
        if type(v) is int:
            return f"(PInt ({v})%Z)"
        if type(v) is str:
            return f"(PStr {vlib.coq_str(v)})"
        for i, o in enumerate(self.objs):
            if type(o) is type(v) and o == v:
                return f"(POpq {i + 1})"
        self.objs.append(v)
        return f"(POpq {len(self.objs)})"


def tri(v):
    return {None: "U", True: "T", False: "F"}[v]


def document_corr(ctx: vlib.Ctx):
    import base64
    from mashumaro.dialect import Dialect
    r = ctx.rng
    n_shapes = ctx.budget(14, 50)
    cases, descr = [], []
    for si in range(n_shapes):
        fields = gen_shape(r)
        cfg = {o: r.choice([None, None, None, True, False]) for o in ("omit_none", "omit_default", "serialize_by_alias")}
        cfg_ns = [(o, v) for o, v in cfg.items() if v is not None]
        mod = types.ModuleType(f"c13_doc_{si}_{id(fields)}")
        sys.modules[mod.__name__] = mod
        try:
            mod.__dict__["CFG_NS"] = cfg_ns
            exec(DOC_SRC + shape_source(fields), mod.__dict__)
            T = mod.__dict__["T"]
            for _ in range(ctx.budget(2, 3)):
                dopts = {o: r.choice([None, None, True, False]) for o in ("omit_none", "omit_default", "serialize_by_alias")}
                use_D = r.random() < 0.85
                # user strategies: callables that return fresh, comparable values
                funs = {}
                usr = None
                if use_D and r.random() < 0.6:
                    usr = {}
                    for t, tid in ((datetime.datetime, 1), (datetime.date, 2), (bytes, 5), (uuid.UUID, 4)):
                        if r.random() < 0.4:
                            fid = 300 + len(funs)
                            f = (lambda v, fid=fid: f"<{fid}:{v!s}>")
                            funs[fid] = f
                            usr[t] = {"serialize": f} if r.random() < 0.8 else {"deserialize": (lambda v: v)}
                ns = {k: v for k, v in dopts.items() if v is not None}
                if usr is not None:
                    ns["serialization_strategy"] = usr
                D = type("D", (Dialect,), ns) if use_D else None
                vals = {name: gen_value(r, kind) for name, kind, _a in fields}
                for fmt in FMTS:
                    if fmt == "FToml" and not (dopts.get("omit_none") is not False and cfg.get("omit_none") is not False) \
                            and any(v is None for v in vals.values()):
                        pass          # the mapping is still produced (tomli_w is not called here)
                    try:
                        got = pre_encoder_mapping(fmt, T, D, T(**vals))
                    except Exception as e:  # noqa: BLE001
                        got = {"__exc__": f"{type(e).__name__}"}
                    enc = PvEnc()
                    raws = [enc(vals[name]) for name, _k, _a in fields]
                    # tables of the built-in packers and of the user callables on the values at hand
                    bt, at = [], []
                    for name, kind, _a in fields:
                        v = vals[name]
                        if v is None:
                            continue
                        tid = KINDS[kind][2]
                        if tid in (1, 2):
                            bt.append(f"({tid}, {enc(v)}, {enc(v.isoformat())})")
                        elif tid == 5:
                            bt.append(f"({tid}, {enc(v)}, {enc(base64.encodebytes(v).decode())})")
                        elif tid == 4:
                            bt.append(f"({tid}, {enc(v)}, {enc(str(v))})")
                        else:
                            bt.append(f"({tid}, {enc(v)}, {enc(v)})")
                        for fid, f in funs.items():
                            at.append(f"({fid}, {enc(v)}, {enc(f(v))})")
                    ds = []
                    for name, kind, alias in fields:
                        _ann, dflt, tid, nullable = KINDS[kind]
                        d = "DNo" if dflt is None else f"(DVal {enc(eval(dflt))})"
                        al = "None" if alias is None else f"(Some {vlib.coq_str(alias)})"
                        ds.append("{| d_plan := mk_plan " + vlib.coq_str(name) + f" {al} {'true' if nullable else 'false'} {d}; d_ty := {tid} |}}")
                    def enc_usr(u):
                        if u is None:
                            return "None"
                        parts = []
                        for t, v in u.items():
                            fid = next((k for k, f in funs.items() if f is v.get("serialize")), 299)
                            ent = [f'("serialize", {fid})'] if "serialize" in v else ['("deserialize", 298)']
                            parts.append(f"({TYPE_IDS[t]}, SDict [" + "; ".join(ent) + "])")
                        return "Some [" + "; ".join(parts) + "]"
                    Dn = "None" if D is None else ("Some {| n_on := " + tri(dopts["omit_none"]) + "; n_od := " + tri(dopts["omit_default"])
                                                   + "; n_ba := " + tri(dopts["serialize_by_alias"]) + " |}")
                    cn = ("{| n_on := " + tri(cfg["omit_none"]) + "; n_od := " + tri(cfg["omit_default"]) + "; n_ba := "
                          + tri(cfg["serialize_by_alias"]) + " |}")
                    if "__exc__" in got:
                        exp = '[("__exc__", PNone)]'
                    else:
                        exp = "[" + "; ".join(f"({vlib.coq_str(k)}, {enc(v)})" for k, v in got.items()) + "]"
                    cases.append(f"({fmt}, {Dn}, {enc_usr(usr)}, {cn}, [" + "; ".join(ds) + "], [" + "; ".join(raws) + "], ["
                                 + "; ".join(bt) + "], [" + "; ".join(at) + "], [7; 8], " + exp + ")")
                    descr.append(f"{fmt} D={dopts if D else None} strategies={list(usr) if usr else None} Config={cfg_ns} "
                                 f"fields={[(a, b, c) for a, b, c in fields]} values={vals} -> {got}")
                    ctx.count(("doc", fmt, si, str(dopts), str(sorted(vals.items(), key=str))))
        finally:
            sys.modules.pop(mod.__name__, None)
    bad, log = vlib.coq_bad_idx("c13_doc", "OptProj DialectMerge DialectDoc", "From VerifGen Require Import K13C.",
                                "Open Scope nat_scope.\n", cases, "doc_case_ok", "doc_case", shard=120, needs=["theories/DialectDoc.vo"])
    name = "codec_document-model-vs-real-encoders"
    if bad is None:
        ctx.correspondence(name, len(cases), -1, log)
        ctx.not_shown("correspondence " + name, log)
    else:
        ctx.correspondence(name, len(cases), len(bad), " || ".join(descr[i][:700] for i in bad[:2]))
        if bad:
            ctx.not_shown("correspondence " + name, f"{len(bad)} documents differ, e.g. {descr[bad[0]][:1500]}")
    ctx.sample({"document_case": descr[0][:400]} if descr else {})


def decoder_accepts(fmt: str, T, D):
    """(accepts {'nt': {'x': 1, 'y': 2}}, accepts {'nt': [1, 2]}) for the real Decoder of the format"""
    import json as _json
    import msgpack
    import orjson
    import tomli_w
    import yaml
    from mashumaro.codecs import BasicDecoder
    from mashumaro.codecs.json import JSONDecoder
    from mashumaro.codecs.msgpack import MessagePackDecoder
    from mashumaro.codecs.orjson import ORJSONDecoder
    from mashumaro.codecs.toml import TOMLDecoder
    from mashumaro.codecs.yaml import YAMLDecoder
    table = {"FBasic": (BasicDecoder, lambda d: d), "FJson": (JSONDecoder, _json.dumps), "FYaml": (YAMLDecoder, yaml.safe_dump),
             "FOrjson": (ORJSONDecoder, orjson.dumps), "FMsgpack": (MessagePackDecoder, lambda d: msgpack.packb(d, use_bin_type=True)),
             "FToml": (TOMLDecoder, tomli_w.dumps)}
    cls, render = table[fmt]
    dec = cls(T) if D is None else cls(T, default_dialect=D)
    out = []
    for doc in ({"nt": {"x": 1, "y": 2}}, {"nt": [1, 2]}):
        try:
            r = dec.decode(render(doc))
            out.append(tuple(r.nt) == (1, 2))
        except Exception:  # noqa: BLE001
            out.append(False)
    return tuple(out)


from typing import NamedTuple as _NamedTuple


class NTm(_NamedTuple):          # module-level: generated code refers to it as <module>.NTm
    x: int
    y: int


_NT = NTm


def NTHolder(cns: dict):
    """a fresh holder type + instance factory: returns the TYPE; pre_encoder_mapping(value=None) builds the instance"""
    global _NT
    from dataclasses import dataclass, field
    from typing import NamedTuple
    from mashumaro.config import BaseConfig
    T = dataclass(type("H", (), {"__annotations__": {"nt": _NT}, "nt": _NT(1, 2), "Config": type("Config", (BaseConfig,), dict(cns))}))
    return T


def no_copy_corr(ctx: vlib.Ctx):
    """codec_nc (DialectDecode.v) vs get_dialect_or_config_option("no_copy_collections", ()) of the real builder."""
    from dataclasses import dataclass
    from mashumaro.core.meta.code.builder import CodeBuilder
    from mashumaro.dialect import Dialect
    from mashumaro.mixins.msgpack import MessagePackDialect
    from mashumaro.mixins.orjson import OrjsonDialect
    from mashumaro.mixins.toml import TOMLDialect
    fmt_dialect = {"FOrjson": OrjsonDialect, "FMsgpack": MessagePackDialect, "FToml": TOMLDialect}
    ids = {list: 1, dict: 2}
    cases, descr = [], []
    for fmt in FMTS:
        for dmode in ("none", None, (), (list,), (dict,), (list, dict)):
            D = None if dmode == "none" else type("D", (Dialect,), {} if dmode is None else {"no_copy_collections": dmode})
            dd = (fmt_dialect[fmt].merge(D) if D is not None else fmt_dialect[fmt]) if fmt in fmt_dialect else D
            T = dataclass(type("T", (), {"__annotations__": {"x": int}, "x": 1}))
            got = tuple(CodeBuilder(T, default_dialect=dd).get_dialect_or_config_option("no_copy_collections", ()))
            Dn = "None" if dmode == "none" else ("(Some None)" if dmode is None else "(Some (Some [" + "; ".join(str(ids[t]) for t in dmode) + "]))")
            cases.append(f"({fmt}, {Dn}, [" + "; ".join(str(ids[t]) for t in got) + "])")
            descr.append((fmt, str(dmode), str(got)))
            ctx.count(("nc", fmt, str(dmode)))
    bad, log = vlib.coq_bad_idx("c13_nc", "OptProj DialectMerge DialectDoc DialectDecode", "From VerifGen Require Import K13C.",
                                "Open Scope nat_scope.\n", cases, "nc_case_ok", "nc_case", needs=["theories/DialectDecode.vo"])
    name = "no_copy_collections-model-vs-builder-resolution"
    if bad is None:
        ctx.correspondence(name, len(cases), -1, log)
        ctx.not_shown("correspondence " + name, log)
    else:
        ctx.correspondence(name, len(cases), len(bad), str([descr[i] for i in bad[:4]]))
        if bad:
            ctx.not_shown("correspondence " + name, str([descr[i] for i in bad[:4]]))


def namedtuple_mode_corr(ctx: vlib.Ctx):
    """nd_in_force (DialectDecode.v) vs the option the real builder resolves, exhaustively:
    6 formats x user dialect {none, unset, True, False} x Config.dialect {unset, True, False} x Config {unset, True, False}."""
    from dataclasses import dataclass
    from mashumaro.config import BaseConfig
    from mashumaro.core.meta.code.builder import CodeBuilder
    from mashumaro.dialect import Dialect
    from mashumaro.mixins.msgpack import MessagePackDialect
    from mashumaro.mixins.orjson import OrjsonDialect
    from mashumaro.mixins.toml import TOMLDialect
    fmt_dialect = {"FOrjson": OrjsonDialect, "FMsgpack": MessagePackDialect, "FToml": TOMLDialect}
    tri_name = {None: "U", True: "T", False: "F"}
    cases, descr = [], []
    for fmt in FMTS:
        for dmode in ("none", None, True, False):
            for cfgd in (None, True, False):
                for cfg in (None, True, False):
                    D = None if dmode == "none" else type("D", (Dialect,), {} if dmode is None else {"namedtuple_as_dict": dmode})
                    dd = (fmt_dialect[fmt].merge(D) if D is not None else fmt_dialect[fmt]) if fmt in fmt_dialect else D
                    cns = {}
                    if cfg is not None:
                        cns["namedtuple_as_dict"] = cfg
                    if cfgd is not None:
                        cns["dialect"] = type("CD", (Dialect,), {"namedtuple_as_dict": cfgd})
                    T = dataclass(type("T", (), {"__annotations__": {"x": int}, "x": 1, "Config": type("Config", (BaseConfig,), cns)}))
                    got = bool(CodeBuilder(T, default_dialect=dd).get_dialect_or_config_option("namedtuple_as_dict", False))
                    # ... and what the real Encoder of the format then does with a named tuple (end to end, pack side)
                    try:
                        out = pre_encoder_mapping(fmt, NTHolder(cns), D, None)
                        beh = isinstance(out.get("nt"), dict)
                    except Exception as e:  # noqa: BLE001
                        beh = f"{type(e).__name__}"
                    # ... and the real Decoder: a dict document is accepted iff as_dict, a list document iff not
                    dec = decoder_accepts(fmt, NTHolder(cns), D)
                    if dec != (got, not got):
                        ctx.fail(f"{fmt} decoder with default_dialect namedtuple_as_dict={dmode}, Config.dialect={cfgd}, Config={cfg}: accepts "
                                 f"(dict document, list document) = {dec}, the builder resolves as_dict={got}",
                                 {"entry": "ntmode", "format": fmt, "dialect": str(dmode), "config_dialect": cfgd, "config": cfg,
                                  "observed": str(dec), "expected": got}, {"kind": "namedtuple-mode-not-resolved", "format": fmt, "side": "decode"})
                    if beh != got:
                        ctx.fail(f"{fmt} encoder with default_dialect namedtuple_as_dict={dmode}, Config.dialect={cfgd}, Config={cfg}: "
                                 f"named tuple rendered as {'dict' if beh is True else 'list' if beh is False else beh}, the builder resolves as_dict={got}",
                                 {"entry": "ntmode", "format": fmt, "dialect": str(dmode), "config_dialect": cfgd, "config": cfg,
                                  "observed": str(beh), "expected": got}, {"kind": "namedtuple-mode-not-resolved", "format": fmt})
                    Dn = "None" if dmode == "none" else f"(Some {tri_name[dmode]})"
                    cases.append(f"({fmt}, {Dn}, {tri_name[cfgd]}, {tri_name[cfg]}, {'true' if got else 'false'})")
                    descr.append((fmt, dmode, cfgd, cfg, got))
                    ctx.count(("nd", fmt, str(dmode), cfgd, cfg))
    bad, log = vlib.coq_bad_idx("c13_nd", "OptProj DialectMerge DialectDoc DialectDecode", "From VerifGen Require Import K13C.",
                                "", cases, "nd_case_ok", "nd_case", shard=500, needs=["theories/DialectDecode.vo"])
    name = "namedtuple-mode-model-vs-builder-resolution"
    if bad is None:
        ctx.correspondence(name, len(cases), -1, log)
        ctx.not_shown("correspondence " + name, log)
    else:
        ctx.correspondence(name, len(cases), len(bad), str([descr[i] for i in bad[:4]]))
        if bad:
            ctx.not_shown("correspondence " + name, str([descr[i] for i in bad[:4]]))


def run_all(ctx: vlib.Ctx):
    kernel_tables_validation(ctx)
    strategy_choice_corr(ctx)
    strategy_choice_corr(ctx, "deserialize")
    namedtuple_mode_corr(ctx)
    no_copy_corr(ctx)
    document_corr(ctx)


def ntmode_replay(rep: dict) -> int:
    """re-run one combination of the named-tuple sweep"""
    from mashumaro.core.meta.code.builder import CodeBuilder
    from mashumaro.dialect import Dialect
    from mashumaro.mixins.msgpack import MessagePackDialect
    from mashumaro.mixins.orjson import OrjsonDialect
    from mashumaro.mixins.toml import TOMLDialect
    fmt_dialect = {"FOrjson": OrjsonDialect, "FMsgpack": MessagePackDialect, "FToml": TOMLDialect}
    fmt, cfgd, cfg = rep["format"], rep["config_dialect"], rep["config"]
    dmode = {"none": "none", "None": None, "True": True, "False": False}[rep["dialect"]]
    D = None if dmode == "none" else type("D", (Dialect,), {} if dmode is None else {"namedtuple_as_dict": dmode})
    dd = (fmt_dialect[fmt].merge(D) if D is not None else fmt_dialect[fmt]) if fmt in fmt_dialect else D
    cns = {}
    if cfg is not None:
        cns["namedtuple_as_dict"] = cfg
    if cfgd is not None:
        cns["dialect"] = type("CD", (Dialect,), {"namedtuple_as_dict": cfgd})
    T = NTHolder(cns)
    got = bool(CodeBuilder(T, default_dialect=dd).get_dialect_or_config_option("namedtuple_as_dict", False))
    try:
        beh = isinstance(pre_encoder_mapping(fmt, NTHolder(cns), D, None).get("nt"), dict)
    except Exception as e:  # noqa: BLE001
        beh = type(e).__name__
    dec = decoder_accepts(fmt, NTHolder(cns), D)
    print("resolved as_dict", got, "rendered as dict", beh, "decoder accepts (dict, list)", dec)
    if beh != got or dec != (got, not got):
        print("REPRODUCED")
        return 1
    print("not reproduced")
    return 0
