"""C09 - input keys are resolved by the documented alias rules.

1. theorems (coq/props/C09_keys.v) about the reference `keymodel` and about the model of the
   generated code built around the kernels translated from /repo (K4);
2. correspondence: the Coq models are evaluated (vm_compute) on the same classes / input dicts
   as the real `from_dict` / `BasicDecoder.decode`;
3. oracle: an independent Python `keymodel` written from the property text, compared with the
   real implementation on every generated case (always runs).
"""
from __future__ import annotations

import itertools
import keyword
import sys
import types

from harness import vlib
from harness.vlib import coq_str, coq_z

# ---------------------------------------------------------------------------
# class specifications
# ---------------------------------------------------------------------------
# field spec: {"name", "meta": str|None, "ann": None | [("alias", s) | ("other",)], "cfg": str|None,
#              "dflt": bool, "ty": "int"|"any"}
# class spec: {"fields": [...], "allow": bool, "forbid": bool, "discr": None | ("field", s) | ("nofield",),
#              "mixin": bool,
#              "noninit": [{"name", "meta", "cfg"}]   members declared field(init=False): from_dict does not read them
#              "classvar": [name]}                     ClassVar members: not fields at all

DEFAULT = -1          # default value of defaulted fields; never used as an input value
NAMES = ["x", "y", "z"]
TAG = "k"


def cfg_aliases(spec) -> dict:
    out = {f["name"]: f["cfg"] for f in spec["fields"] if f["cfg"] is not None}
    out.update({f["name"]: f["cfg"] for f in spec.get("noninit", []) if f["cfg"] is not None})
    return out


def member_names(spec) -> list:
    return ([f["name"] for f in spec["fields"]] + [f["name"] for f in spec.get("noninit", [])]
            + list(spec.get("classvar", [])))


def class_source(spec) -> str:
    """Self-contained Python source defining class K (and Base when a discriminator is used)."""
    L = ["from dataclasses import dataclass, field",
         "from typing import Any, ClassVar",
         "from typing_extensions import Annotated",
         "from mashumaro import DataClassDictMixin",
         "from mashumaro.config import BaseConfig",
         "from mashumaro.types import Alias, Discriminator",
         ""]
    base = "DataClassDictMixin" if spec["mixin"] else ""
    if spec["discr"] is not None:
        L.append("@dataclass")
        L.append(f"class Base({base}):" if base else "class Base:")
        L.append("    class Config(BaseConfig):")
        if spec["discr"][0] == "field":
            L.append(f"        discriminator = Discriminator(field={spec['discr'][1]!r}, include_subtypes=True)")
        else:
            L.append("        discriminator = Discriminator(include_subtypes=True)")
        L.append("")
        base = "Base"
    L.append("@dataclass")
    L.append(f"class K({base}):" if base else "class K:")
    if spec["discr"] is not None and spec["discr"][0] == "field":
        fld = spec["discr"][1]
        if fld.isidentifier() and not keyword.iskeyword(fld) and fld not in member_names(spec):
            L.append(f"    {fld}: ClassVar[str] = {TAG!r}")
    # fields without default first (dataclass rule)
    for f in spec["fields"]:
        ty = "int" if f["ty"] == "int" else "Any"
        if f["ann"] is not None:
            items = ", ".join(f"Alias({a[1]!r})" if a[0] == "alias" else "'other'" for a in f["ann"])
            ty = f"Annotated[{ty}, {items}]"
        args = []
        if f["dflt"]:
            args.append(f"default={DEFAULT}")
        md = {}
        if f.get("mo"):
            md["description"] = "other metadata"
        if f["meta"] is not None:
            md["alias"] = f["meta"]
        if md:
            args.append(f"metadata={md!r}")
        rhs = f" = field({', '.join(args)})" if args else ""
        L.append(f"    {f['name']}: {ty}{rhs}")
    for f in spec.get("noninit", []):
        md = f", metadata={{'alias': {f['meta']!r}}}" if f["meta"] is not None else ""
        L.append(f"    {f['name']}: int = field(init=False, default=0{md})")
    for n in spec.get("classvar", []):
        L.append(f"    {n}: ClassVar[int] = 3")
    L.append("    class Config(BaseConfig):")
    L.append(f"        aliases = {cfg_aliases(spec)!r}")
    L.append(f"        allow_deserialization_not_by_alias = {spec['allow']!r}")
    L.append(f"        forbid_extra_keys = {spec['forbid']!r}")
    if not spec["fields"]:
        L.append("    pass")
    return "\n".join(L) + "\n"


_modn = [0]


def build_class(src: str):
    _modn[0] += 1
    name = f"c09_case_{_modn[0]}"
    mod = types.ModuleType(name)
    sys.modules[name] = mod
    try:
        exec(src, mod.__dict__)
    finally:
        pass
    return mod


def drop_module(mod):
    sys.modules.pop(mod.__name__, None)


# ---------------------------------------------------------------------------
# running the real implementation
# ---------------------------------------------------------------------------

def observe(spec, call, d: dict):
    """Canonical outcome of call(d): ("inst", [(fname, None | (key, value))]) | ("missing", fname)
    | ("extra", [keys in input order]) | ("exc", text)."""
    from mashumaro.exceptions import ExtraKeysError, MissingField
    try:
        obj = call(dict(d))
    except ExtraKeysError as e:
        ek = e.extra_keys
        try:
            ekl = list(ek)
        except TypeError:
            return ("exc", f"ExtraKeysError.extra_keys not iterable: {ek!r}")
        if len(set(ekl)) != len(ekl) or any(k not in d for k in ekl):
            return ("exc", f"ExtraKeysError.extra_keys {ek!r} is not a set of input keys")
        return ("extra", [k for k in d if k in ek])
    except MissingField as e:
        return ("missing", e.field_name)
    except Exception as e:  # anything else is never expected here
        return ("exc", f"{type(e).__name__}: {e}")
    vals = []
    byval = {v: k for k, v in d.items() if type(v) is int}
    for f in spec["fields"]:
        try:
            v = getattr(obj, f["name"])
        except AttributeError:
            return ("exc", f"attribute {f['name']} missing on the result")
        if v == DEFAULT and f["dflt"] and not isinstance(v, bool):
            vals.append((f["name"], None))
        elif type(v) is int and v in byval:
            vals.append((f["name"], (byval[v], v)))
        else:
            return ("exc", f"field {f['name']} holds {v!r} which is no input value")
    if type(obj).__name__ != "K":
        return ("exc", f"result is a {type(obj).__name__}")
    return ("inst", vals)


def entries(spec, mod):
    """(name, callable) entry points of the class."""
    from mashumaro.codecs import BasicDecoder
    out = []
    if spec["mixin"]:
        out.append(("K.from_dict", mod.K.from_dict))
    out.append(("BasicDecoder(K).decode", BasicDecoder(mod.K).decode))
    if tag_dispatch_ok(spec):
        # through the class-level discriminator of the parent: Base dispatches on d[field] == K.<field>
        if spec["mixin"]:
            out.append(("Base.from_dict", mod.Base.from_dict))
        out.append(("BasicDecoder(Base).decode", BasicDecoder(mod.Base).decode))
    return out


def tag_dispatch_ok(spec) -> bool:
    """The parent's discriminator field is a class attribute of K (declared by class_source) and no field can
    be read from that key (the tag value is a string, not one of the distinct ints)."""
    if spec["discr"] is None or spec["discr"][0] != "field":
        return False
    fld = spec["discr"][1]
    if not (fld.isidentifier() and not keyword.iskeyword(fld)) or fld in member_names(spec):
        return False
    return all(fld not in o_candidates(spec, f) and fld != (o_alias(spec, f) or "") for f in spec["fields"])


# ---------------------------------------------------------------------------
# the oracle: KEYMODEL written from the property text (independent of builder.py)
# ---------------------------------------------------------------------------

def o_alias(spec, f):
    """alias: field metadata over an Annotated Alias over Config.aliases; None if the field has none."""
    if f["meta"] is not None:
        return f["meta"]
    if f["ann"] is not None:
        al = [a[1] for a in f["ann"] if a[0] == "alias"]
        if al:
            return al[-1]          # several Alias annotations: the outermost / last one
    return cfg_aliases(spec).get(f["name"])


def o_candidates(spec, f):
    a = o_alias(spec, f)
    if a is None:
        return [f["name"]]
    return [a, f["name"]] if spec["allow"] else [a]


def o_accepted(spec):
    acc = set()
    for f in spec["fields"]:
        acc.update(o_candidates(spec, f))
    # a Discriminator whose field is None or "" is one without field everywhere in the library: no key to accept
    if spec["discr"] is not None and spec["discr"][0] == "field" and spec["discr"][1] != "":
        acc.add(spec["discr"][1])
    return acc


def o_keymodel(spec, d: dict):
    acc = o_accepted(spec)
    extra = [k for k in d if k not in acc]
    if spec["forbid"] and extra:
        return ("extra", extra)
    vals = []
    for f in spec["fields"]:
        got = None
        for k in o_candidates(spec, f):
            if k in d:
                got = (k, d[k])
                break
        if got is None and not f["dflt"]:
            return ("missing", f["name"])
        vals.append((f["name"], got))
    return ("inst", vals)


# ---------------------------------------------------------------------------
# generation
# ---------------------------------------------------------------------------

STRANGERS = ["q", "None", "alias", "", None, 1]


def gen_spec(rng, force=None):
    force = force or {}
    nf = force.get("nf", rng.choice([1, 1, 2, 2, 2, 3, 3, 0] if rng.random() < 0.25 else [1, 2, 2, 3, 3]))
    names = NAMES[:nf]
    discr = None
    r = rng.random()
    if r < 0.30:
        discr = ("field", rng.choice(["kind", "kind", "kind", "type", "type", "y", "y", "None", "None", "w", ""]))
    elif r < 0.36:
        discr = ("nofield",)
    fields = []
    pool_common = ["s1", "s2"]           # aliases several fields may share
    for i, n in enumerate(names):
        def pick(tag):
            r = rng.random()
            if r < 0.52:
                return f"{tag}_{n}"
            if r < 0.66:
                return rng.choice([m for m in NAMES if m != n])      # shadowed alias: another field's name
            if r < 0.76:
                return rng.choice(pool_common)
            if r < 0.82:
                return n                                             # alias equal to the own name
            if r < 0.88:
                return rng.choice(["None", "alias", "kind"])
            if r < 0.93:
                return ""
            return rng.choice(["it's", "a b", "A", "é"])
        combo = rng.randrange(8)
        meta = pick("m") if combo & 1 else None
        cfg = pick("c") if combo & 4 else None
        ann = None
        if combo & 2:
            shape = rng.choice(["a", "ao", "oa", "aa", "aoa", "aa", "a"])
            ann = []
            for j, ch in enumerate(shape):
                ann.append(("alias", pick(f"a{j}")) if ch == "a" else ("other",))
        elif rng.random() < 0.2:
            ann = [("other",)]                                        # Annotated without Alias
        fields.append({"name": n, "meta": meta, "ann": ann, "cfg": cfg, "dflt": False,
                       "ty": rng.choice(["int", "any"]), "mo": rng.random() < 0.25})
    # defaults: a suffix of the fields (dataclass rule: no non-default after default)
    k = rng.randrange(nf + 1) if nf else 0
    for f in fields[nf - k:] if k else []:
        f["dflt"] = True
    # members that are not read by from_dict: field(init=False) (possibly with aliases of their own) and ClassVar
    noninit, classvar = [], []
    if rng.random() < 0.45:
        for n in rng.sample(["w", "v"], rng.choice([1, 1, 2])):
            noninit.append({"name": n, "meta": rng.choice([None, None, f"m_{n}", "s1"]),
                            "cfg": rng.choice([None, None, f"c_{n}", "s2"])})
    if rng.random() < 0.2:
        classvar.append("u")
    spec = {"fields": fields, "allow": rng.random() < 0.5, "forbid": rng.random() < 0.5, "discr": discr,
            "mixin": rng.random() < 0.6, "noninit": noninit, "classvar": classvar}
    spec.update({k: v for k, v in force.items() if k in ("allow", "forbid", "mixin")})
    return spec


def candidate_keys(spec, rng, limit=8):
    names = [f["name"] for f in spec["fields"]]
    eff = [o_alias(spec, f) for f in spec["fields"] if o_alias(spec, f) is not None]
    losing = []
    for f in spec["fields"]:
        for a in [f["meta"], f["cfg"]] + [x[1] for x in (f["ann"] or []) if x[0] == "alias"]:
            if a is not None:
                losing.append(a)
    must = []
    for k in names + eff:
        if k not in must:
            must.append(k)
    opt = []
    for k in losing + ([spec["discr"][1]] if spec["discr"] and spec["discr"][0] == "field" else []):
        if k not in must and k not in opt:
            opt.append(k)
    strangers = [s for s in STRANGERS if s not in must and s not in opt]
    rng.shuffle(strangers)
    rng.shuffle(opt)
    out = list(must)[:limit]
    dead = [f["name"] for f in spec.get("noninit", [])] + list(spec.get("classvar", []))
    dead_al = [a for f in spec.get("noninit", []) for a in (f["meta"], f["cfg"]) if a is not None]
    dead = [k for i, k in enumerate(dead + dead_al) if k not in must and k not in (dead + dead_al)[:i]]
    opt = [k for k in opt if k not in dead]
    strangers = [k for k in strangers if k not in dead]
    # names (and aliases) of members from_dict does not read, one stranger, the losing alias strings, more strangers
    rest = dead[:2] + strangers[:1] + dead[2:] + opt + strangers[1:]
    for k in rest:
        if len(out) >= limit:
            break
        out.append(k)
    return out


def subsets(keys, rng, n_max):
    """All subsets if there are at most n_max, else the empty one, the full one and a sample."""
    total = 1 << len(keys)
    if total <= n_max:
        masks = list(range(total))
    else:
        masks = {0, total - 1}
        for i in range(len(keys)):
            masks.add(1 << i)
        while len(masks) < n_max:
            masks.add(rng.randrange(total))
        masks = sorted(masks)
    for m in masks:
        ks = [k for i, k in enumerate(keys) if m >> i & 1]
        yield ks


def make_dict(ks, keys, rng):
    ks = list(ks)
    rng.shuffle(ks)
    return {k: 100 + keys.index(k) for k in ks}


# ---------------------------------------------------------------------------
# Coq rendering
# ---------------------------------------------------------------------------

def c_ostr(s):
    return "None" if s is None else f"(Some {coq_str(s)})"


def c_spec(spec) -> str:
    fs = []
    for f in spec["fields"]:
        if f["ann"] is None:
            ann = "None"
        else:
            ann = "(Some [" + "; ".join(f"AAlias {coq_str(a[1])}" if a[0] == "alias" else "AOther" for a in f["ann"]) + "])"
        fs.append(f"mkF {coq_str(f['name'])} {c_ostr(f['meta'])} {ann} {vlib.coq_bool(f['dflt'])}")
    al = "; ".join(f"({coq_str(k)}, {coq_str(v)})" for k, v in cfg_aliases(spec).items())
    if spec["discr"] is None:
        dk = "None"
    elif spec["discr"][0] == "field":
        dk = f"(Some (Some {coq_str(spec['discr'][1])}))"
    else:
        dk = "(Some None)"
    return f"(mkC [{'; '.join(fs)}] [{al}] {vlib.coq_bool(spec['allow'])} {vlib.coq_bool(spec['forbid'])} {dk})"


def c_key(k) -> str:
    if k is None:
        return "KeyNone"
    if isinstance(k, int):
        return f"(KeyI {coq_z(k)})"
    return f"(KeyS {coq_str(k)})"


def c_dict(d) -> str:
    return "[" + "; ".join(f"({c_key(k)}, {coq_z(v)})" for k, v in d.items()) + "]"


def c_outcome(o) -> str:
    if o[0] == "inst":
        items = []
        for n, kv in o[1]:
            items.append(f"({coq_str(n)}, " + ("None" if kv is None else f"Some ({c_key(kv[0])}, {coq_z(kv[1])})") + ")")
        return "(OInst [" + "; ".join(items) + "])"
    if o[0] == "missing":
        return f"(OMissing {coq_str(o[1])})"
    if o[0] == "extra":
        return "(OExtra [" + "; ".join(c_key(k) for k in o[1]) + "])"
    return '(OMissing "<unexpected exception>")'     # never equal to a model outcome (no such field name)



def coq_check(name, model, items, ok_fun, ctx, shard=500):
    """Like vlib.coq_bad_idx, but every shard file carries only the class definitions its cases use.
    items: [(class index, definition text, case text)]."""
    imports, gen_imports, needs = model
    br = vlib.coq_make(["theories/Wire.vo", "theories/PyK.vo"] + needs)
    if not br.ok:
        return None, "model does not build: " + (br.error or "")
    files = []
    for si in range(0, max(len(items), 1), shard):
        chunk = items[si:si + shard]
        defs, seen = [], set()
        for ci, dtxt, _ in chunk:
            if ci not in seen:
                seen.add(ci)
                defs.append(dtxt)
        txt = vlib.CASE_HEADER.format(imports=imports, gen_imports=gen_imports) + "\n".join(defs) + "\n"
        txt += "Definition cases : list (cls * dict * outcome * bool) :=\n  [" + ";\n   ".join(c for _, _, c in chunk) + "].\n"
        txt += f"Eval vm_compute in (bad_idx ({ok_fun}) cases).\n"
        files.append((f"{name}_{si // shard}", txt))
    res = vlib.coq_eval_many(files, timeout=600, jobs=4 if ctx.quick() else 12)
    bad = []
    for n, (ok, out) in enumerate(res):
        if not ok:
            return None, out[-3000:]
        idx = vlib.parse_nat_list(out)
        if idx is None:
            return None, "unparsable coq output: " + out[-1500:]
        bad.extend(n * shard + i for i in idx)
    return bad, f"{len(files)} case files"


def kernel_validation(ctx, rng):
    """(T) the translated get_field_alias evaluated in Coq vs the original staticmethod called in Python."""
    import typing
    from typing_extensions import Annotated
    from mashumaro.config import BaseConfig
    from mashumaro.core.meta.code.builder import CodeBuilder
    from mashumaro.types import Alias
    real = getattr(CodeBuilder, "_CodeBuilder__get_field_alias", None)
    if real is None:
        ctx.not_shown("translation validation K4", "CodeBuilder.__get_field_alias not found")
        return
    items, shown = [], []
    pool = ["a", "b", "x", "y", "", "None", "alias", "it's"]
    for i in range(ctx.budget(300, 3000)):
        n = rng.choice(NAMES)
        meta = rng.choice(pool) if rng.random() < 0.4 else None
        ann = None
        if rng.random() < 0.6:
            ann = [("alias", rng.choice(pool)) if rng.random() < 0.6 else ("other",) for _ in range(rng.randrange(1, 4))]
        al = {m: rng.choice(pool) for m in NAMES if rng.random() < 0.4}
        ftype = int if ann is None else Annotated[tuple([int] + [Alias(a[1]) if a[0] == "alias" else "other" for a in ann])]
        md = {}
        if rng.random() < 0.3:
            md["description"] = "d"
        if meta is not None:
            md["alias"] = meta
        cfg = type("Config", (BaseConfig,), {"aliases": al})
        try:
            got = real(n, ftype, md, cfg)
        except Exception as e:
            got = f"<{type(e).__name__}>"
        f = {"name": n, "meta": meta, "ann": ann, "cfg": None, "dflt": False, "ty": "int"}
        spec = {"fields": [f], "allow": False, "forbid": False, "discr": None, "mixin": True}
        cl = c_spec(spec).replace("[] false false None)", "[" + "; ".join(f"({coq_str(k)}, {coq_str(v)})" for k, v in al.items())
                                  + "] false false None)")
        items.append((i, f"Definition c{i} : cls := {cl}.",
                      f"(c{i}, [], OMissing {coq_str('' if got is None else 'S' + got)}, {vlib.coq_bool(got is None)})"))
        shown.append((n, md, ann, al, got))
        ctx.count(("k4", i))
    okf = ("fun c => match c with (cl, _, o, isnone) => match c_fields cl, o with "
           "| [f], OMissing e => match impl_alias cl f with "
           "  | Ok KNone => isnone | Ok (KStr s) => negb isnone && String.eqb (String \"S\" s) e | _ => false end "
           "  && (match alias_of cl f with None => isnone | Some s => negb isnone && String.eqb (String \"S\" s) e end) "
           "| _, _ => false end end")
    bad, log = coq_check("c09_k4", ("KeyModel KeyImpl PyK_alias", "From VerifGen Require Import K4.", ["theories/KeyImpl.vo"]),
                         items, okf, ctx)
    name = "K4.get_field_alias-translation-vs-python"
    if bad is None:
        ctx.correspondence(name, len(items), -1, log)
        ctx.not_shown("translation validation K4", log)
    else:
        ctx.correspondence(name, len(items), len(bad), str([shown[i] for i in bad[:5]]))
        if bad:
            ctx.not_shown("translation validation K4", f"inputs {[shown[i] for i in bad[:5]]}")

# ---------------------------------------------------------------------------
# the check
# ---------------------------------------------------------------------------

THEOREMS = ["K4_precedence", "K4_key_plan", "K4_allowed_keys", "C09_impl_is_code", "C09_keys",
            "C09_field_key", "C09_outcome", "C09_alias_wins", "C09_fallback", "C09_accepted_covers_reads",
            "C09_reads_allowed", "C09_extra_members", "C09_extra_exact", "C09_ignored", "C09_forbidden_reported"]


def jsonable_key(k):
    return {"none": True} if k is None else ({"int": k} if isinstance(k, int) else k)


def unjson_key(k):
    if isinstance(k, dict):
        return None if "none" in k else k["int"]
    return k


def replay_of(spec, src, entry, d, obs, exp):
    return {"entry": entry, "source": src, "class": "K", "spec": spec,
            "input": [[jsonable_key(k), v] for k, v in d.items()],
            "observed": repr(obs), "expected": repr(exp)}


def run(ctx: vlib.Ctx):
    ctx.coverage["rule"] = (
        "class = 0..3 fields, each with any of the three alias sources (metadata / Annotated Alias list incl. several "
        "Alias and non-Alias items / Config.aliases; alias strings fresh, shadowing another field's name, shared, own name, "
        "'None', 'alias', the discriminator field, '' and non-identifier strings) x allow_deserialization_not_by_alias x "
        "forbid_extra_keys x inherited Config discriminator (with/without field) x mixin/plain x optional init=False members "
        "(with aliases of their own) and ClassVar members; input = subset of <= 8 candidate keys (names, winning and losing "
        "aliases, names/aliases of the members that are not read, discriminator field, strangers incl. 'None', 'alias', '', None, 1), "
        "every key bound to a distinct int; thorough: all subsets. distinct = (class spec, key subset)")
    ctx.trusted += [
        "tools/kernels/k4_alias.py: slicer that recognises the emitted `X = d.get(<key>, MISSING)` lines / `if X is MISSING:` "
        "guards of FieldUnpackerCodeBlockBuilder.build and the allowed_keys statements of _add_unpack_method_lines "
        "(expressions are translated; statement shapes are pattern-checked, fail closed)",
        "coq/theories/PyK_alias.v: kernel primitives (for-loop as fold, isinstance by class name, sets as lists)",
        "KeyImpl.v hand-written part (order extra-key check -> fields in order; dict.get; MISSING fall-through; MissingField "
        "for a field without default): compared with the real from_dict "
        "on every run",
        "encoding of Python objects as kernel values (Alias instance = namespace with class name and .name; "
        "Annotated metadata = tuple; Config.aliases / field metadata = dict) and `{x!r}` / `'{fname}'` splices denoting the "
        "string x (C16)",
    ]
    ctx.assumptions += [
        "C09_keys has no domain restriction; a Discriminator whose field is '' counts as one without field (as everywhere "
        "in the library)",
        "alias values are strings (Alias(None) / aliases={..: None} are outside the property's quantifier)",
        "input keys are hashable scalars (str / None / int); values are irrelevant to key resolution (distinct ints used)",
    ]
    br = ctx.theorems("props/C09_keys.vo", THEOREMS, kernels=["K4"])
    # every registered name must be a theorem of the props file with its own Print Assumptions, all closed
    import os
    import re
    ptxt = open(os.path.join(vlib.COQ, "props", "C09_keys.v")).read()
    absent = [n for n in THEOREMS if not re.search(r"^Theorem %s\b" % n, ptxt, re.M)
              or ("Print Assumptions %s." % n) not in ptxt]
    if absent:
        ctx.not_shown("theorems of props/C09_keys.vo", f"not stated in the props file: {absent}")
    if br.ok:
        pa = br.assumptions.get("print_assumptions", [])
        if len(pa) != len(THEOREMS) or any(a != "Closed under the global context" for a in pa):
            ctx.not_shown("assumptions of props/C09_keys.vo", f"expected {len(THEOREMS)} x closed, got {pa}")
    k4_ok = bool(ctx.kernel_report.get("K4", {}).get("ok"))
    if not ctx.quick() and br.ok:
        # second opinion of the independent checker on the compiled library of the property file
        rc, out, secs = vlib.run(["timeout", "600", "coqchk", "-silent", "-o"] + vlib.COQ_FLAGS[:9] + ["VerifProps.C09_keys"],
                                 cwd=vlib.COQ, timeout=640)
        good = rc == 0 and "* Axioms: <none>" in out
        ctx.obligation("coqchk VerifProps.C09_keys (axioms: none)", good, out[-600:])
        if not good:
            ctx.not_shown("coqchk VerifProps.C09_keys", out[-1500:])

    rng = ctx.rng
    if k4_ok:
        kernel_validation(ctx, rng)
    n_classes = ctx.budget(260, 500)
    sub_max = ctx.budget(32, 256)
    forced = [{"allow": a, "forbid": b, "mixin": m, "nf": nf} for a in (False, True) for b in (False, True)
              for m in (False, True) for nf in (1, 2)]
    cases = []          # (spec, src, entry, d, obs)
    coq_defs = []
    coq_cases = []
    dom_cases = []
    n_mismatch_oracle = 0
    for ci in range(n_classes):
        spec = gen_spec(rng, forced[ci] if ci < len(forced) else None)
        src = class_source(spec)
        try:
            mod = build_class(src)
        except Exception as e:
            # class creation must succeed for every generated configuration (post D6 any alias string is fine)
            ctx.fail(f"class creation fails: {type(e).__name__}: {e}",
                     {"entry": "class-creation", "source": src, "spec": spec, "input": [], "observed": repr(e),
                      "expected": "class K is created"}, {"kind": "class-creation", "exc": type(e).__name__})
            continue
        try:
            ents = entries(spec, mod)
        except Exception as e:
            ctx.fail(f"decoder creation fails: {type(e).__name__}: {e}",
                     {"entry": "decoder-creation", "source": src, "spec": spec, "input": [], "observed": repr(e),
                      "expected": "BasicDecoder(K) is created"}, {"kind": "class-creation", "exc": type(e).__name__})
            drop_module(mod)
            continue
        keys = candidate_keys(spec, rng)
        ctx.hist("alias_sources", "|".join(
            "".join(t for t, on in (("m", f["meta"] is not None), ("a", bool(f["ann"]) and any(x[0] == "alias" for x in f["ann"])),
                                    ("c", f["cfg"] is not None)) if on) or "-" for f in spec["fields"]) or "(no fields)")
        ctx.hist("options", f"allow={int(spec['allow'])} forbid={int(spec['forbid'])} "
                            f"discr={'-' if spec['discr'] is None else spec['discr'][0]} {'mixin' if spec['mixin'] else 'plain'}")
        ctx.hist("empty_alias", "some field's resolved alias is ''" if any(o_alias(spec, f) == "" for f in spec["fields"])
                 else "none")
        ctx.hist("non_init_members", f"init=False:{len(spec['noninit'])} ClassVar:{len(spec['classvar'])}")
        coq_defs.append(f"Definition c{ci} : cls := {c_spec(spec)}.")
        for ks in subsets(keys, rng, sub_max):
            d = make_dict(ks, keys, rng)
            exp = o_keymodel(spec, d)
            obs_all = []
            for ename, call in ents:
                via_base = "Base" in ename
                if via_base:
                    if spec["discr"][1] not in d:
                        continue                      # MissingDiscriminatorError: not a key-resolution case
                    dd = dict(d)
                    dd[spec["discr"][1]] = TAG
                    obs = observe(spec, call, dd)
                    # the tag key is accepted and never read: same outcome as K's own entry point on d
                    ctx.count((ci, tuple(map(repr, ks)), ename))
                    ctx.hist("outcome", obs[0] + " (via Base)")
                    if obs != exp:
                        n_mismatch_oracle += 1
                        ctx.fail(f"{ename}({dd!r}) -> {obs!r}, KEYMODEL says {exp!r}",
                                 replay_of(spec, src, ename, dd, obs, exp),
                                 {"kind": "key-resolution", "observed": obs[0], "expected": exp[0]})
                    continue
                obs = observe(spec, call, d)
                obs_all.append(obs)
                ctx.count((ci, tuple(map(repr, ks)), ename))
                ctx.hist("outcome", obs[0])
                if obs != exp:
                    n_mismatch_oracle += 1
                    sig = {"kind": "key-resolution", "observed": obs[0], "expected": exp[0]}
                    ctx.fail(f"{ename}({d!r}) -> {obs!r}, KEYMODEL says {exp!r}",
                             replay_of(spec, src, ename, d, obs, exp), sig)
            # all entry points agree? (if not, the oracle has already flagged at least one of them)
            obs0 = obs_all[0]
            coq_cases.append((ci, coq_defs[-1], f"(c{ci}, {c_dict(d)}, {c_outcome(obs0)}, true)"))
            cases.append((spec, src, ents[0][0], d, obs0))
            if len(ctx.coverage["samples"]) < 6 and len(ks) >= 2 and rng.random() < 0.02:
                ctx.sample({"class": src, "input": repr(d), "observed": repr(obs0)})
        drop_module(mod)

    # ---- correspondence: Coq models vs the real implementation, same cases
    ok_impl = "fun c => match c with (cl, d, o, _) => res_outcome_eqb (impl_from_dict cl d) o end"
    ok_ref = "fun c => match c with (cl, d, o, _) => outcome_eqb (keymodel cl d) o end"
    ok_both = ("fun c => match c with (cl, d, o, _) => "
               "res_outcome_eqb (impl_from_dict cl d) o && outcome_eqb (keymodel cl d) o end")
    IMPL = ("KeyModel KeyImpl PyK_alias", "From VerifGen Require Import K4.", ["theories/KeyImpl.vo"])
    REF = ("KeyModel", "", ["theories/KeyModel.vo"])

    def report(name, bad, log, n):
        if bad is None:
            ctx.correspondence(name, n, -1, log)
            ctx.not_shown("correspondence " + name, log)
            return
        det = ""
        if bad:
            spec, src, en, d, obs = cases[bad[0]]
            det = f"{len(bad)} cases, first: class\n{src}\ninput {d!r}: implementation {obs!r}"
        ctx.correspondence(name, n, len(bad), det)
        if bad:
            ctx.not_shown("correspondence " + name, det)

    n = len(coq_cases)
    n_dom = n
    n_impl, n_ref = "impl-model(K4)-vs-from_dict", "keymodel(reference)-vs-from_dict"
    if k4_ok:
        bad, log = coq_check("c09_both", IMPL, coq_cases, ok_both, ctx)
        if bad is None or bad:
            # attribute: run the two comparisons separately (on the disagreeing cases, or on all if Coq failed)
            sub = list(range(n)) if bad is None else bad[:2000]
            sub_cases = [coq_cases[i] for i in sub]
            b1, l1 = coq_check("c09_impl", IMPL, sub_cases, ok_impl, ctx)
            b2, l2 = coq_check("c09_ref", REF, sub_cases, ok_ref, ctx)
            report(n_impl, None if b1 is None else [sub[i] for i in b1], l1, n)
            report(n_ref, None if b2 is None else [sub[i] for i in b2], l2, n_dom)
        else:
            report(n_impl, [], log, n)
            report(n_ref, [], log, n_dom)
    else:
        ctx.correspondence(n_impl, n, -1, "kernel K4 did not translate")
        ctx.not_shown("correspondence " + n_impl, "kernel K4 did not translate: "
                      + str(ctx.kernel_report.get("K4", {}).get("error")))
        bad, log = coq_check("c09_ref", REF, coq_cases, ok_ref, ctx)
        report(n_ref, bad, log, n_dom)
    ctx.notes.append(f"oracle mismatches (incl. listed findings): {n_mismatch_oracle}")


# ---------------------------------------------------------------------------
# replay
# ---------------------------------------------------------------------------

def replay(rep: dict) -> int:
    if rep.get("kind") == "no-failing-input-found":
        print("nothing to replay: no failing input was found; broken obligations:")
        for u in rep.get("not_shown", []):
            print(" -", u["name"], ":", u["detail"][:400])
        return 0
    spec = rep["spec"]
    for f in spec["fields"]:
        if f["ann"] is not None:
            f["ann"] = [tuple(a) for a in f["ann"]]
    if spec["discr"] is not None:
        spec["discr"] = tuple(spec["discr"])
    spec.setdefault("noninit", [])
    spec.setdefault("classvar", [])
    try:
        mod = build_class(rep["source"])
    except Exception as e:
        print("class creation:", type(e).__name__, e)
        if rep["entry"] == "class-creation":
            print("REPRODUCED")
            return 1
        return 2
    d = {unjson_key(k): v for k, v in rep["input"]}
    call = None
    for ename, c in entries(spec, mod):
        if ename == rep["entry"]:
            call = c
    if call is None:
        print("unknown entry", rep["entry"])
        return 2
    obs = observe(spec, call, d)
    exp = o_keymodel(spec, d)
    print(rep["source"])
    print("entry   ", rep["entry"])
    print("input   ", d)
    print("observed", obs)
    print("expected", exp)
    if obs != exp:
        print("REPRODUCED")
        return 1
    print("not reproduced")
    return 0
