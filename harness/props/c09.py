"""C09 - input keys are resolved by the documented alias rules.

1. theorems (coq/props/C09_keys.v) about the reference `keymodel` and about the model of the
   generated code built around the kernels translated from /repo (K4);
2. correspondence: the Coq models are evaluated (vm_compute) on the same classes / input dicts
   as the real `from_dict` / `BasicDecoder.decode`;
3. oracle: an independent Python `keymodel` written from the property text, compared with the
   real implementation on every generated case (always runs).
"""
from __future__ import annotations

import itertools
import keyword
import sys
import types

from harness import vlib
from harness.vlib import coq_str, coq_z

# ---------------------------------------------------------------------------
# class specifications
# ---------------------------------------------------------------------------
# declaration: {"name", "meta": str|None, "ann": None | [("alias", s) | ("other",)], "init": bool,
#               "dflt": None | "int" | "none", "ty": "int"|"any"|"optint", "mo": bool, "kw": bool (kw_only=True),
#               "tv": bool (written with the class's type variable T instead of int)}
# config:      {"plain": bool (class Config: instead of class Config(BaseConfig):),
#               "inherit": None | class name (class Config(<name>.Config):), and per option None = not written:
#               "aliases": {name: alias}|None, "allow": bool|None, "forbid": bool|None}
# level:       {"cls": "A"|"B"|"K", "decls": [declaration...], "config": None | config,
#               "hook": None | [("drop", k) | ("put", k, v) | ("rename", a, b)]  (a __pre_deserialize__ classmethod)}
#               config may carry "dialect_support": True (code_generation_options = [ADD_DIALECT_SUPPORT])
# class spec:  {"levels": [level...]  (base-most first, K last), "classvar": [name] (ClassVar members of K),
#               "initvar": [name] (InitVar members of K, with default), "shape": "chain" | "roots" (K(B, A): the
#               ancestors are unrelated classes), "generic": bool (A is Generic[T], bound to int by its heirs),
#               "discr": None | ("field", s) | ("nofield",)  (Config discriminator of a common parent `Base`),
#               "mixin": None | "dict" | "json" | "orjson" | "msgpack" | "yaml"}

DEFAULT = -1          # int default of defaulted fields; never used as an input value
NONE_CODE = -7        # how the Python value None crosses to Coq (values are opaque to the model)
NAMES = ["x", "y", "z"]
TAG = "k"


def norm_spec(spec):
    """After a JSON round trip: tuples back."""
    for lv in spec["levels"]:
        for f in lv["decls"]:
            if f["ann"] is not None:
                f["ann"] = [tuple(a) for a in f["ann"]]
    if spec["discr"] is not None:
        spec["discr"] = tuple(spec["discr"])
    return spec


def member_names(spec) -> list:
    out = []
    for lv in spec["levels"]:
        out += [f["name"] for f in lv["decls"]]
    return out + list(spec.get("classvar", [])) + list(spec.get("initvar", []))


def decl_source(f) -> str:
    ty = f["tystr"] if "tystr" in f else {"int": "T" if f.get("tv") else "int", "any": "Any", "optint": "Optional[int]",
                                         "nested": "Optional[N]" if f["dflt"] == "none" else "N"}[f["ty"]]
    if f["ann"] is not None:
        items = ", ".join(f"Alias({a[1]!r})" if a[0] == "alias" else "'other'" for a in f["ann"])
        ty = f"Annotated[{ty}, {items}]"
    args = []
    if not f["init"]:
        args.append("init=False")
    if f.get("kw"):
        args.append("kw_only=True")
    if f["dflt"] == "int":
        args.append(f"default={f.get('dv', DEFAULT)}")
    elif f["dflt"] == "none":
        args.append("default=None")
    md = {}
    if f.get("mo"):
        md["description"] = "other metadata"
    if f["meta"] is not None:
        md["alias"] = f["meta"]
    if md:
        args.append(f"metadata={md!r}")
    rhs = f" = field({', '.join(args)})" if args else ""
    return f"    {f['name']}: {ty}{rhs}"


MIXINS = {"dict": "DataClassDictMixin", "json": "DataClassJSONMixin", "orjson": "DataClassORJSONMixin",
          "msgpack": "DataClassMessagePackMixin", "yaml": "DataClassYAMLMixin"}


def class_source(spec) -> str:
    """Self-contained Python source: [Base with the Config discriminator,] the ancestors A, B and the class K."""
    L = ["from dataclasses import dataclass, field, InitVar",
         "from typing import Any, ClassVar, Dict, Generic, List, Optional, TypeVar",
         "from typing_extensions import Annotated",
         "from mashumaro import DataClassDictMixin",
         "from mashumaro.mixins.json import DataClassJSONMixin",
         "from mashumaro.mixins.orjson import DataClassORJSONMixin",
         "from mashumaro.mixins.msgpack import DataClassMessagePackMixin",
         "from mashumaro.mixins.yaml import DataClassYAMLMixin",
         "from mashumaro.config import BaseConfig, ADD_DIALECT_SUPPORT",
         "from mashumaro.dialect import Dialect",
         "from mashumaro.types import Alias, Discriminator",
         "",
         "class D1(Dialect):",
         "    serialize_by_alias = True",
         "    omit_none = True",
         "",
         "T = TypeVar('T')",
         ""]
    if spec.get("inner") is not None:
        inner_src = class_source(spec["inner"])
        L.append(inner_src[inner_src.index("T = TypeVar('T')") + len("T = TypeVar('T')"):].strip("\n"))
        L.append("")
    root = MIXINS[spec["mixin"]] if spec["mixin"] else ""
    if spec["discr"] is not None:
        L.append("@dataclass")
        L.append(f"class Base({root}):" if root else "class Base:")
        L.append("    class Config(BaseConfig):")
        if spec["discr"][0] == "field":
            L.append(f"        discriminator = Discriminator(field={spec['discr'][1]!r}, include_subtypes=True)")
        else:
            L.append("        discriminator = Discriminator(include_subtypes=True)")
        L.append("")
        root = "Base"
    levels = spec["levels"]
    generic = spec.get("generic") and len(levels) > 1

    def ref(j):        # how an heir names ancestor j
        return levels[j]["cls"] + ("[int]" if generic and j == 0 else "")

    for j, lv in enumerate(levels):
        if spec.get("shape") == "diamond":
            bases = {"A": [root] if root else [], "B": ["A"], "C": ["A"], "K": ["B", "C"]}[lv["cls"]]
        elif spec.get("shape") == "roots" and lv["cls"] == "K":
            bases = [ref(i) for i in range(j - 1, -1, -1)]            # K(B, A): nearest first
        elif spec.get("shape") == "roots" or j == 0:
            bases = [root] if root else []
        else:
            bases = [ref(j - 1)]
        if generic and j == 0:
            bases = bases + ["Generic[T]"]
        L.append("@dataclass")
        L.append(f"class {lv['cls']}({', '.join(bases)}):" if bases else f"class {lv['cls']}:")
        body = 0
        if lv["cls"] == "K":
            if spec["discr"] is not None and spec["discr"][0] == "field":
                fld = spec["discr"][1]
                if fld.isidentifier() and not keyword.iskeyword(fld) and fld not in member_names(spec):
                    L.append(f"    {fld}: ClassVar[str] = {TAG!r}")
                    body += 1
        for f in lv["decls"]:
            L.append(decl_source(f))
            body += 1
        if lv["cls"] == "K":
            for n in spec.get("classvar", []):
                L.append(f"    {n}: ClassVar[int] = 3")
                body += 1
            for n in spec.get("initvar", []):
                L.append(f"    {n}: InitVar[int] = 0")
                body += 1
        if lv["config"] is not None:
            c = lv["config"]
            if c["inherit"] is not None:
                L.append(f"    class Config({c['inherit']}.Config):")
            elif c["plain"]:
                L.append("    class Config:")
            else:
                L.append("    class Config(BaseConfig):")
            n0 = len(L)
            if c["aliases"] is not None:
                L.append(f"        aliases = {c['aliases']!r}")
            if c["allow"] is not None:
                L.append(f"        allow_deserialization_not_by_alias = {c['allow']!r}")
            if c["forbid"] is not None:
                L.append(f"        forbid_extra_keys = {c['forbid']!r}")
            if c.get("dialect_support"):
                L.append("        code_generation_options = [ADD_DIALECT_SUPPORT]")
            if c.get("dw") == "none":
                L.append("        discriminator = None")
            elif c.get("dw") is not None:
                fld = c["dw"][1]
                L.append("        discriminator = Discriminator(" + (f"field={fld!r}, " if fld is not None else "") + "include_subtypes=True)")
            if len(L) == n0:
                L.append("        pass")
            body += 1
        if lv.get("hook") is not None:
            L.append("    @classmethod")
            L.append("    def __pre_deserialize__(cls, d):")
            L.append("        if not isinstance(d, dict):")
            L.append("            return d")
            L.append("        d = dict(d)")
            for op in lv["hook"]:
                if op[0] == "drop":
                    L.append(f"        d.pop({op[1]!r}, None)")
                elif op[0] == "put":
                    L.append(f"        d[{op[1]!r}] = {op[2]!r}")
                else:
                    L.append(f"        if {op[1]!r} in d:")
                    L.append(f"            d[{op[2]!r}] = d.pop({op[1]!r})")
            L.append("        return d")
            body += 1
        if not body:
            L.append("    pass")
        L.append("")
    return "\n".join(L)


_modn = [0]


def build_class(src: str):
    _modn[0] += 1
    name = f"c09_case_{_modn[0]}"
    mod = types.ModuleType(name)
    sys.modules[name] = mod
    exec(src, mod.__dict__)
    return mod


def drop_module(mod):
    sys.modules.pop(mod.__name__, None)


# ---------------------------------------------------------------------------
# the oracle: KEYMODEL written from the property text + dataclass semantics (independent of builder.py)
# ---------------------------------------------------------------------------

DIAMOND_MRO = {"A": [], "B": ["A"], "C": ["A"], "K": ["B", "C", "A"]}     # checked against the real __mro__


def o_fields_diamond(spec, name="K") -> list:
    """dataclasses: walk the MRO from the far end, every dataclass ancestor contributes its *cumulative* fields, then the
    own declarations; typing.get_type_hints: the same walk over the own annotations only.  Field data (metadata, default,
    init) come from the first, the annotation from the second."""
    own = {lv["cls"]: lv["decls"] for lv in spec["levels"]}

    def cum(c):
        seen = {}
        for b in reversed(DIAMOND_MRO[c]):
            for f in cum(b):
                seen[f["name"]] = f
        for f in own[c]:
            seen[f["name"]] = f
        return list(seen.values())
    hints = {}
    for b in list(reversed(DIAMOND_MRO[name])) + [name]:
        for f in own[b]:
            hints[f["name"]] = f
    return [dict(f, ann=hints[f["name"]]["ann"], ty=hints[f["name"]]["ty"]) for f in cum(name) if f["init"]]


def o_fields(spec) -> list:
    """The init fields K has, by dataclass semantics: collected base-most class first; a re-declaration replaces
    the inherited one in place (dict insertion order); init=False members are not constructor parameters."""
    if spec.get("shape") == "diamond":
        return o_fields_diamond(spec)
    seen = {}
    for lv in spec["levels"]:
        for f in lv["decls"]:
            seen[f["name"]] = f
    return [f for f in seen.values() if f["init"]]


DEFAULT_CFG = {"aliases": {}, "allow": False, "forbid": False}


def o_config_raw(spec):
    """the nearest Config declaration (for options that are not part of the key rules)"""
    for lv in reversed(spec["levels"]):
        if lv["config"] is not None:
            return lv["config"]
    return None


def o_config(spec) -> dict:
    """Config is a plain class attribute: the nearest class that defines one supplies it; an option not written in
    it is looked up in the Config it derives from, if any, else it has its documented default."""
    cur = dict(DEFAULT_CFG)
    for lv in spec["levels"]:
        c = lv["config"]
        if c is None:
            continue
        base = cur if c["inherit"] is not None else DEFAULT_CFG
        cur = {k: (c[k] if c[k] is not None else base[k]) for k in ("aliases", "allow", "forbid")}
    return cur


def o_hook(spec):
    """__pre_deserialize__ is found by attribute lookup: the nearest class that defines one"""
    for lv in reversed(spec["levels"]):
        if lv.get("hook") is not None:
            return lv["hook"]
    return None


def o_apply_hook(spec, d: dict) -> dict:
    h = o_hook(spec)
    if h is None:
        return d
    items = list(d.items())
    for op in h:
        if op[0] == "drop":
            items = [(k, v) for k, v in items if k != op[1] or type(k) is not type(op[1])]
        elif op[0] == "put":
            if any(k == op[1] and type(k) is type(op[1]) for k, _ in items):
                items = [(k, op[2] if (k == op[1] and type(k) is type(op[1])) else v) for k, v in items]
            else:
                items.append((op[1], op[2]))
        else:
            hit = [v for k, v in items if k == op[1] and type(k) is type(op[1])]
            if hit:
                items = [(k, v) for k, v in items if not (k == op[1] and type(k) is type(op[1]))]
                if any(k == op[2] and type(k) is type(op[2]) for k, _ in items):
                    items = [(k, hit[0] if (k == op[2] and type(k) is type(op[2])) else v) for k, v in items]
                else:
                    items.append((op[2], hit[0]))
    return dict(items)


def o_alias(spec, f):
    """alias: field metadata over an Annotated Alias over Config.aliases; None if the field has none."""
    if f["meta"] is not None:
        return f["meta"]
    if f["ann"] is not None:
        al = [a[1] for a in f["ann"] if a[0] == "alias"]
        if al:
            return al[-1]          # several Alias annotations: the outermost / last one
    return o_config(spec)["aliases"].get(f["name"])


def o_candidates(spec, f):
    a = o_alias(spec, f)
    if a is None:
        return [f["name"]]
    return [a, f["name"]] if o_config(spec)["allow"] else [a]


def o_accepted(spec):
    acc = set()
    for f in o_fields(spec):
        acc.update(o_candidates(spec, f))
    # a Discriminator whose field is None or "" is one without field everywhere in the library: no key to accept
    if spec["discr"] is not None and spec["discr"][0] == "field" and spec["discr"][1] != "":
        acc.add(spec["discr"][1])
    return acc


def o_default(f):
    return {"int": f.get("dv", DEFAULT), "none": None}[f["dflt"]]


def o_keymodel(spec, d: dict):
    """("inst", [(field, value)]) | ("missing", field) | ("extra", [keys in input order])"""
    acc = o_accepted(spec)
    extra = [k for k in d if k not in acc]
    if o_config(spec)["forbid"] and extra:
        return ("extra", extra)
    vals = []
    for f in o_fields(spec):
        for k in o_candidates(spec, f):
            if k in d:
                vals.append((f["name"], d[k]))       # the first present candidate, whatever its value (also None)
                break
        else:
            if f["dflt"] is None:
                return ("missing", f["name"])
            vals.append((f["name"], o_default(f)))
    return ("inst", vals)


# ---------------------------------------------------------------------------
# running the real implementation
# ---------------------------------------------------------------------------

def observe(spec, call, d: dict, seen=None):
    """Canonical outcome of call(d): ("inst", [(fname, value)]) | ("missing", fname)
    | ("extra", [keys in input order]) | ("exc", text).  seen: the mapping the key rules see (after a pre-hook)."""
    seen = d if seen is None else seen
    from mashumaro.exceptions import ExtraKeysError, MissingField
    try:
        obj = call(dict(d))
    except ExtraKeysError as e:
        ek = e.extra_keys
        try:
            ekl = list(ek)
        except TypeError:
            return ("exc", f"ExtraKeysError.extra_keys not iterable: {ek!r}")
        if len(set(ekl)) != len(ekl) or any(k not in seen for k in ekl):
            return ("exc", f"ExtraKeysError.extra_keys {ek!r} is not a set of input keys")
        return ("extra", [k for k in seen if k in ek])
    except MissingField as e:
        return ("missing", e.field_name)
    except Exception as e:  # anything else is never expected here
        return ("exc", f"{type(e).__name__}: {e}")
    if type(obj).__name__ != "K":
        return ("exc", f"result is a {type(obj).__name__}")
    vals = []
    for f in o_fields(spec):
        try:
            v = getattr(obj, f["name"])
        except AttributeError:
            return ("exc", f"attribute {f['name']} missing on the result")
        if not (v is None or type(v) is int):
            return ("exc", f"field {f['name']} holds {v!r}")
        vals.append((f["name"], v))
    return ("inst", vals)


def str_keys(d) -> bool:
    return all(isinstance(k, str) for k in d)


def entries(spec, mod):
    """(name, callable, needs_str_keys) entry points of the class: the dict methods, the format methods of the
    mixins (the input dict is first rendered in the format) and the codecs."""
    import json
    import msgpack
    import orjson
    import yaml
    from mashumaro.codecs import BasicDecoder
    from mashumaro.codecs.json import JSONDecoder
    from mashumaro.codecs.msgpack import MessagePackDecoder
    from mashumaro.codecs.orjson import ORJSONDecoder
    from mashumaro.codecs.yaml import YAMLDecoder
    K = mod.K
    out = []
    m = spec["mixin"]
    if m:
        out.append(("K.from_dict", K.from_dict, False))
    if m == "json":
        out.append(("K.from_json", lambda d: K.from_json(json.dumps(d)), True))
    elif m == "orjson":
        out.append(("K.from_json[orjson]", lambda d: K.from_json(orjson.dumps(d)), True))
        out.append(("K.from_json[orjson, str]", lambda d: K.from_json(orjson.dumps(d).decode()), True))
    elif m == "msgpack":
        out.append(("K.from_msgpack", lambda d: K.from_msgpack(msgpack.packb(d)), True))
    elif m == "yaml":
        out.append(("K.from_yaml", lambda d: K.from_yaml(yaml.safe_dump(d)), True))
    out.append(("BasicDecoder(K).decode", BasicDecoder(K).decode, False))
    # a dialect never changes which key a field is read from
    out.append(("BasicDecoder(K, default_dialect=D1).decode", BasicDecoder(K, default_dialect=mod.D1).decode, False))
    if m and (o_config_raw(spec) or {}).get("dialect_support"):
        out.append(("K.from_dict(dialect=D1)", lambda d: K.from_dict(d, dialect=mod.D1), False))
    jd, od, md, yd = JSONDecoder(K), ORJSONDecoder(K), MessagePackDecoder(K), YAMLDecoder(K)
    out.append(("JSONDecoder(K).decode", lambda d: jd.decode(json.dumps(d)), True))
    out.append(("ORJSONDecoder(K).decode", lambda d: od.decode(orjson.dumps(d)), True))
    out.append(("MessagePackDecoder(K).decode", lambda d: md.decode(msgpack.packb(d)), True))
    out.append(("YAMLDecoder(K).decode", lambda d: yd.decode(yaml.safe_dump(d)), True))
    if tag_dispatch_ok(spec):
        # through the class-level discriminator of the parent: Base dispatches on d[field] == K.<field>
        if m:
            out.append(("Base.from_dict", mod.Base.from_dict, False))
        out.append(("BasicDecoder(Base).decode", BasicDecoder(mod.Base).decode, False))
    return out


def cfg_hierarchy(spec, sub):
    """the classes whose Config the last class of `sub` can see or name: an unrelated base without Config of its own
    sees none; otherwise every class defined before it counts (a deriving Config names the nearest one)"""
    last = sub[-1]
    if spec["shape"] == "roots" and last["cls"] != "K" and last["config"] is None:
        return [last]
    return spec["levels"][:spec["levels"].index(last) + 1]


def hook_views(spec, mod):
    """For K and each ancestor: (Coq case `(hooks of the dataclasses of its MRO nearest first, uses the mixins, level whose
    body defines the classmethod that CodeBuilder(cls).get_declared_hook('__pre_deserialize__') returns)`, class, level)"""
    from mashumaro.core.meta.code.builder import CodeBuilder
    from mashumaro.mixins.dict import DataClassDictMixin
    out = []
    levels = spec["levels"]
    for j, lv in enumerate(levels):
        cls = getattr(mod, lv["cls"])
        sub = levels[:j + 1] if (spec["shape"] == "chain" or lv["cls"] == "K") else [lv]
        got = CodeBuilder(cls).get_declared_hook("__pre_deserialize__")
        where = None
        if got is not None:
            owners = [i for i, x in enumerate(sub) if getattr(mod, x["cls"]).__dict__.get("__pre_deserialize__") is got]
            where = owners[0] if len(owners) == 1 else -1         # -1: not the classmethod of any class of the hierarchy
        hs = c_hooks({"levels": list(reversed(sub))})
        mixin = DataClassDictMixin in cls.__mro__
        o = "None" if where is None else f"(Some {where}%nat)" if where >= 0 else "(Some 99%nat)"
        out.append((f"({hs}, {vlib.coq_bool(mixin)}, {o})", lv["cls"], where))
    return out


def source_views(spec, mod):
    """For K and each ancestor: (the part of the hierarchy the class is made of, what CodeBuilder(cls).dataclass_fields
    holds [(name, metadata alias, init)], what CodeBuilder(cls).get_config() holds) as Coq terms."""
    import dataclasses
    from mashumaro.core.meta.code.builder import CodeBuilder
    out = []
    levels = spec["levels"]
    for j, lv in enumerate(levels):
        cls = getattr(mod, lv["cls"])
        sub = levels[:j + 1] if (spec["shape"] == "chain" or lv["cls"] == "K") else [lv]
        b = CodeBuilder(cls)
        flds = []
        for n, f in b.dataclass_fields.items():
            if f._field_type is not dataclasses._FIELD:
                continue                      # ClassVar / InitVar pseudo-fields
            flds.append(f"({coq_str(n)}, {c_ostr(f.metadata.get('alias'))}, {vlib.coq_bool(f.init)})")
        cfg = b.get_config()
        if getattr(cfg, "discriminator", None) is not None:
            continue                          # the class sees Base's Config (it is a dispatcher itself)
        cf = f"(mkCfg {c_aliases(dict(cfg.aliases))} {vlib.coq_bool(cfg.allow_deserialization_not_by_alias)} {vlib.coq_bool(cfg.forbid_extra_keys)})"
        out.append((sub, "[" + "; ".join(flds) + "]", cf))
    return out


def tag_dispatch_ok(spec) -> bool:
    """The parent's discriminator field is a class attribute of K (declared by class_source) and no field can
    be read from that key (the tag value is a string, not an int / None)."""
    if spec["discr"] is None or spec["discr"][0] != "field" or spec.get("no_base"):
        return False
    fld = spec["discr"][1]
    if not (fld.isidentifier() and not keyword.iskeyword(fld)) or fld in member_names(spec):
        return False
    return all(fld not in o_candidates(spec, f) for f in o_fields(spec))


# ---------------------------------------------------------------------------
# generation
# ---------------------------------------------------------------------------

STRANGERS = ["q", "None", "alias", "", None, 1]


def gen_spec(rng, force=None):
    force = force or {}
    nf = force.get("nf", rng.choice([1, 1, 2, 2, 2, 3, 3, 0] if rng.random() < 0.25 else [1, 2, 2, 3, 3]))
    names = NAMES[:nf]
    discr = None
    r = rng.random()
    if r < 0.30:
        discr = ("field", rng.choice(["kind", "kind", "kind", "type", "type", "y", "y", "None", "None", "w", ""]))
    elif r < 0.36:
        discr = ("nofield",)
    pool_common = ["s1", "s2"]           # aliases several fields may share

    def pick(tag, n):
        r = rng.random()
        if r < 0.52:
            return f"{tag}_{n}"
        if r < 0.66:
            return rng.choice([m for m in NAMES if m != n])      # shadowed alias: another field's name
        if r < 0.76:
            return rng.choice(pool_common)
        if r < 0.82:
            return n                                             # alias equal to the own name
        if r < 0.88:
            return rng.choice(["None", "alias", "kind"])
        if r < 0.93:
            return ""
        return rng.choice(["it's", "a b", "A", "é"])

    def sources(n, tag=""):
        """(meta, ann, cfg alias) for one declaration: any combination of the three sources"""
        combo = rng.randrange(8)
        meta = pick("m" + tag, n) if combo & 1 else None
        cfg = pick("c" + tag, n) if combo & 4 else None
        ann = None
        if combo & 2:
            shape = rng.choice(["a", "ao", "oa", "aa", "aoa", "aa", "a"])
            ann = [("alias", pick(f"a{j}{tag}", n)) if ch == "a" else ("other",) for j, ch in enumerate(shape)]
        elif rng.random() < 0.2:
            ann = [("other",)]                                    # Annotated without Alias
        return meta, ann, cfg

    # values None are legal everywhere only if every field accepts None
    nullable = rng.random() < 0.4
    # the declarations K finally sees
    final, cfg_aliases = [], {}
    for n in names:
        meta, ann, _ = sources(n)
        final.append({"name": n, "meta": meta, "ann": ann, "init": True, "dflt": None,
                      "ty": rng.choice(["any", "optint"]) if nullable else rng.choice(["int", "any"]),
                      "mo": rng.random() < 0.25, "kw": rng.random() < 0.15, "tv": False})
    k = rng.randrange(nf + 1) if nf else 0          # defaults: a suffix (no non-default after default)
    for f in (final[nf - k:] if k else []):
        f["dflt"] = rng.choice(["int", "none"]) if f["ty"] != "int" else "int"

    # hierarchy: K alone, A -> K, or A -> B -> K
    depth = force.get("depth", rng.choice([1, 1, 2, 2, 3, 3]))
    cls_names = {1: ["K"], 2: ["A", "K"], 3: ["A", "B", "K"]}[depth]
    levels = [{"cls": c, "decls": [], "config": None} for c in cls_names]
    shape = "roots" if depth == 3 and rng.random() < 0.35 else "chain"
    generic = depth > 1 and rng.random() < 0.25
    firsts = sorted(rng.randrange(depth) for _ in names)          # fields of the bases come first
    decoy_cfg_aliases = {}
    for f, first in zip(final, firsts):
        where = [first] + [j for j in range(first + 1, depth) if rng.random() < 0.45]
        for j in where[:-1]:
            # a declaration that is shadowed by a nearer one: other alias sources, same type/default shape
            meta, ann, _ = sources(f["name"], tag=cls_names[j])
            levels[j]["decls"].append(dict(f, meta=meta, ann=ann, mo=rng.random() < 0.25, kw=f["kw"]))
        levels[where[-1]]["decls"].append(f)
        # sometimes a nearer class turns the field into a non-init member: from_dict does not read it any more
        if where[-1] < depth - 1 and rng.random() < 0.12:
            levels[rng.randrange(where[-1] + 1, depth)]["decls"].append(
                dict(f, init=False, dflt="int" if f["dflt"] is None else f["dflt"]))
    # members that are never read: field(init=False) (possibly with aliases of their own), ClassVar
    classvar = []
    if rng.random() < 0.45:
        for n in rng.sample(["w", "v"], rng.choice([1, 1, 2])):
            levels[rng.randrange(depth)]["decls"].append(
                {"name": n, "meta": rng.choice([None, None, f"m_{n}", "s1"]), "ann": None, "init": False,
                 "dflt": "int", "ty": "int", "mo": False, "kw": False, "tv": False})
    if rng.random() < 0.2:
        classvar.append("u")
    initvar = ["iv"] if rng.random() < 0.2 else []
    if generic:
        for f in levels[0]["decls"]:
            if f["ty"] == "int":
                f["tv"] = True                     # written `x: T` in the generic base A, bound to int by the heirs
    # Config classes: any level may define one; it may derive from the Config it would otherwise see, be a plain
    # class, and write any subset of the options
    def cfg_alias_map(tag):
        out = {}
        for n in names + [f["name"] for lv in levels for f in lv["decls"] if not f["init"]]:
            if n not in out and rng.random() < 0.45:
                out[n] = pick("c" + tag, n)
        return out

    if "allow" in force:
        levels[-1]["config"] = {"plain": False, "inherit": None, "aliases": cfg_alias_map(""),
                                "allow": force["allow"], "forbid": force["forbid"]}
    else:
        lower = None                               # nearest lower level that has a Config
        for j, lv in enumerate(levels):
            if rng.random() < (0.85 if j == depth - 1 else 0.45):
                inherit = lower is not None and rng.random() < 0.5
                plain = levels[lower]["config"]["plain"] if inherit else rng.random() < 0.25
                written = 0.6 if inherit else 0.8
                lv["config"] = {"plain": plain, "inherit": levels[lower]["cls"] if inherit else None,
                                "aliases": cfg_alias_map("" if j == depth - 1 else lv["cls"]) if rng.random() < written else None,
                                "allow": (rng.random() < 0.5) if rng.random() < written else None,
                                "forbid": (rng.random() < 0.5) if rng.random() < written else None}
                lower = j
    # __pre_deserialize__ hooks: K or an ancestor rewrites the mapping first (a farther one is shadowed)
    if "allow" not in force and rng.random() < 0.3:
        pool = names + [a for a in all_alias_strings({"levels": levels}) if a is not None] + ["q", "old", "None", 1, None]

        def ops():
            out = []
            for _ in range(rng.choice([1, 1, 2, 3])):
                r = rng.random()
                if r < 0.3:
                    out.append(("drop", rng.choice(pool)))
                elif r < 0.5:
                    out.append(("put", rng.choice(pool), 900 + len(out)))
                else:
                    a, b = rng.choice(pool), rng.choice(pool)
                    out.append(("rename", a, b))
            return out
        hl = rng.randrange(depth)
        levels[hl]["hook"] = ops()
        if hl > 0 and rng.random() < 0.4:
            levels[rng.randrange(hl)]["hook"] = ops()
    if levels[-1]["config"] is not None and levels[-1]["config"]["inherit"] is None and rng.random() < 0.35:
        levels[-1]["config"]["dialect_support"] = True
    return {"levels": levels, "classvar": classvar, "initvar": initvar, "shape": shape, "generic": generic, "discr": discr,
            "mixin": force["mixin"] if "mixin" in force else rng.choice([None, None, "dict", "dict", "json", "orjson", "msgpack", "yaml"])}


def all_alias_strings(spec) -> list:
    """every alias string written anywhere in the source (winning or not)"""
    out = []
    for lv in spec["levels"]:
        for f in lv["decls"]:
            out += [f["meta"]] + [x[1] for x in (f["ann"] or []) if x[0] == "alias"]
        if lv["config"] is not None:
            out += list((lv["config"]["aliases"] or {}).values())
    return [a for a in out if a is not None]


def candidate_keys(spec, rng, limit=8):
    fields = o_fields(spec)
    names = [f["name"] for f in fields]
    eff = [o_alias(spec, f) for f in fields if o_alias(spec, f) is not None]
    must = []
    for k in names + eff:
        if k not in must:
            must.append(k)
    # names of members from_dict does not read (init=False, ClassVar)
    dead = [n for n in member_names(spec) if n not in must]
    dead = [k for i, k in enumerate(dead) if k not in dead[:i]]
    losing = [a for a in all_alias_strings(spec) if a not in must and a not in dead]
    losing = [k for i, k in enumerate(losing) if k not in losing[:i]]
    if spec["discr"] and spec["discr"][0] == "field" and spec["discr"][1] not in must + dead + losing:
        losing.append(spec["discr"][1])
    strangers = [s for s in STRANGERS if s not in must and s not in dead and s not in losing]
    rng.shuffle(strangers)
    rng.shuffle(losing)
    rng.shuffle(dead)
    out = list(must)[:limit]
    rest = []
    pools = [dead, losing, strangers]          # interleave: a not-read member name, a losing alias, a stranger, ...
    while any(pools):
        for p_ in pools:
            if p_:
                rest.append(p_.pop(0))
    for k in rest:
        if len(out) >= limit:
            break
        out.append(k)
    return out


def subsets(keys, rng, n_max):
    """All subsets if there are at most n_max, else the empty one, the full one, the singletons and a sample."""
    total = 1 << len(keys)
    if total <= n_max:
        masks = list(range(total))
    else:
        masks = {0, total - 1}
        for i in range(len(keys)):
            masks.add(1 << i)
        while len(masks) < n_max:
            masks.add(rng.randrange(total))
        masks = sorted(masks)
    for m in masks:
        yield [k for i, k in enumerate(keys) if m >> i & 1]


def nullable_class(spec) -> bool:
    return all(f["ty"] != "int" for f in o_fields(spec))


def make_dict(ks, keys, rng, p_none=0.0):
    ks = list(ks)
    rng.shuffle(ks)
    return {k: (None if rng.random() < p_none else 100 + keys.index(k)) for k in ks}


def boundary_dicts(spec):
    """For every field with two candidate keys: both present, with each value pattern (the value None is a
    value like any other: presence of the key decides, not its value)."""
    out = []
    pats = [(1, 2)] + ([(None, 2), (1, None), (None, None)] if nullable_class(spec) else [])
    for f in o_fields(spec):
        c = o_candidates(spec, f)
        if len(c) == 2 and c[0] != c[1]:
            for a, b in pats:
                out.append({c[0]: a, c[1]: b})
                out.append({c[1]: b, c[0]: a})
    return out


# ---------------------------------------------------------------------------
# Coq rendering
# ---------------------------------------------------------------------------

def c_ostr(s):
    return "None" if s is None else f"(Some {coq_str(s)})"


def c_fld(f) -> str:
    if f["ann"] is None:
        ann = "None"
    else:
        ann = "(Some [" + "; ".join(f"AAlias {coq_str(a[1])}" if a[0] == "alias" else "AOther" for a in f["ann"]) + "])"
    return f"mkF {coq_str(f['name'])} {c_ostr(f['meta'])} {ann} {vlib.coq_bool(f['dflt'] is not None)}"


def c_aliases(al: dict) -> str:
    return "[" + "; ".join(f"({coq_str(k)}, {coq_str(v)})" for k, v in al.items()) + "]"


def c_discr(spec) -> str:
    if spec["discr"] is None:
        return "None"
    if spec["discr"][0] == "field":
        return f"(Some (Some {coq_str(spec['discr'][1])}))"
    return "(Some None)"


def c_level(lv) -> str:
    decls = "; ".join(f"({c_fld(f)}, {vlib.coq_bool(f['init'])})" for f in lv["decls"])
    if lv["config"] is None:
        cfg = "None"
    else:
        c = lv["config"]
        ob = lambda b: "None" if b is None else f"(Some {vlib.coq_bool(b)})"
        al = "None" if c["aliases"] is None else f"(Some {c_aliases(c['aliases'])})"
        cfg = (f"(Some (mkCD {vlib.coq_bool(c['inherit'] is not None)} {vlib.coq_bool(c['plain'])} {al} "
               f"{ob(c['allow'])} {ob(c['forbid'])}))")
    return f"mkL [{decls}] {cfg}"


def c_spec(spec) -> str:
    """The hierarchy as written; flattening (nearest declaration, nearest Config, init filter) happens in Coq."""
    return f"[{'; '.join(c_level(lv) for lv in spec['levels'])}]"


def c_hooks(spec) -> str:
    def op(o):
        if o[0] == "drop":
            return f"HDrop {c_key(o[1])}"
        if o[0] == "put":
            return f"HPut {c_key(o[1])} {coq_z(o[2])}"
        return f"HRename {c_key(o[1])} {c_key(o[2])}"
    return "[" + "; ".join("None" if lv.get("hook") is None else "(Some [" + "; ".join(op(o) for o in lv["hook"]) + "])"
                           for lv in spec["levels"]) + "]"


def c_val(v) -> str:
    return coq_z(NONE_CODE if v is None else v)


def c_defaults(spec) -> str:
    return "[" + "; ".join(c_val(o_default(f)) if f["dflt"] is not None else "0" for f in o_fields(spec)) + "]"


def c_key(k) -> str:
    if k is None:
        return "KeyNone"
    if isinstance(k, int):
        return f"(KeyI {coq_z(k)})"
    return f"(KeyS {coq_str(k)})"


def c_dict(d) -> str:
    return "[" + "; ".join(f"({c_key(k)}, {c_val(v)})" for k, v in d.items()) + "]"


def c_obs(o) -> str:
    if o[0] == "inst":
        return "(VInst [" + "; ".join(f"({coq_str(n)}, {c_val(v)})" for n, v in o[1]) + "])"
    if o[0] == "missing":
        return f"(VMissing {coq_str(o[1])})"
    if o[0] == "extra":
        return "(VExtra [" + "; ".join(c_key(k) for k in o[1]) + "])"
    return '(VMissing "<unexpected exception>")'     # never equal to a model outcome (no such field name)


CASE_TYPE = "list level * list (option (list hookop)) * option (option string) * list Z * dict * observation"


# ---------------------------------------------------------------------------
# listed findings and the correspondences
# ---------------------------------------------------------------------------
# Rule (round 6; the fresh-copy alarm `C09-1-unshown.json` of the round-3 state was a hand-written Coq copy of the
# listed defect `plain-config-inherit` -- builder_cfg / no_plain_inherit -- that disagreed with /repo once the defect had
# been repaired there, while the oracle had nothing to show): a listed finding is NEVER represented in a Coq definition
# or in a comparison function.  The implementation model follows /repo through the translated kernels only, the reference
# is the property text, and the one place a listed finding is tolerated is here: a correspondence mismatch is accepted
# iff, on that very input, the oracle observed the real implementation deviating from KEYMODEL with a signature that
# matches an open entry of known_findings (it is then counted by the KNOWN-FINDING line, `reproduced n x`).  A finding
# that is listed but no longer reproduces (0 x: repaired in /repo) therefore changes nothing: code, reference and the
# translated model agree, and nothing refers to the finding.

class Listed:
    def __init__(self, pid):
        self.pid = pid
        self.kfs = vlib.load_known_findings()
        self.flags = {}

    def fail(self, ctx, stream, idx, what, replay, sig):
        """ctx.fail + remember whether this failure of case `idx` of `stream` is a listed finding"""
        ctx.fail(what, replay, sig)
        hit = vlib.match_known(self.pid, vlib.Failure(what, replay, sig), self.kfs) is not None
        self.flags.setdefault((stream, idx), []).append(hit)

    def explained(self, stream, idx) -> bool:
        fl = self.flags.get((stream, idx))
        return bool(fl) and all(fl)


LISTED = Listed("C09")


def settle(ctx, stream, name, n, bad, log, describe):
    """Record a correspondence; mismatches that are not explained by a listed finding reproduced on the same input
    (stream None: no oracle runs on these cases, every mismatch counts) break the tie."""
    if bad is None:
        ctx.correspondence(name, n, -1, log)
        ctx.not_shown("correspondence " + name, log)
        return
    open_ = [i for i in bad if stream is None or not LISTED.explained(stream, i)]
    det = describe(bad) if bad else ""
    if bad and not open_:
        det = f"all {len(bad)} on inputs where the oracle reproduces a listed finding (see the KNOWN-FINDING lines); " + det
    ctx.correspondence(name, n, len(bad), det)
    if open_:
        ctx.not_shown("correspondence " + name, describe(open_))



def coq_check(name, model, items, ok_fun, ctx, shard=500, ctype=CASE_TYPE):
    """Like vlib.coq_bad_idx, but every shard file carries only the class definitions its cases use.
    items: [(class index, definition text, case text)]."""
    imports, gen_imports, needs = model
    br = vlib.coq_make(["theories/Wire.vo", "theories/PyK.vo"] + needs)
    if not br.ok:
        return None, "model does not build: " + (br.error or "")
    files = []
    for si in range(0, max(len(items), 1), shard):
        chunk = items[si:si + shard]
        defs, seen = [], set()
        for ci, dtxt, _ in chunk:
            if ci not in seen:
                seen.add(ci)
                defs.append(dtxt)
        txt = vlib.CASE_HEADER.format(imports=imports, gen_imports=gen_imports) + "\n".join(defs) + "\n"
        txt += f"Definition cases : list ({ctype}) :=\n  [" + ";\n   ".join(c for _, _, c in chunk) + "].\n"
        txt += f"Eval vm_compute in (bad_idx ({ok_fun}) cases).\n"
        files.append((f"{name}_{si // shard}", txt))
    # per-file budget far above what a shard needs (seconds on an idle machine): a loaded machine must not turn into a
    # broken correspondence
    res = vlib.coq_eval_many(files, timeout=2400, jobs=4 if ctx.quick() else 12)
    bad = []
    for n, (ok, out) in enumerate(res):
        if not ok:
            return None, out[-3000:]
        idx = vlib.parse_nat_list(out)
        if idx is None:
            return None, "unparsable coq output: " + out[-1500:]
        bad.extend(n * shard + i for i in idx)
    return bad, f"{len(files)} case files"


def kernel_validation(ctx, rng):
    """(T) the translated get_field_alias evaluated in Coq vs the original staticmethod called in Python."""
    import typing
    from typing_extensions import Annotated
    from mashumaro.config import BaseConfig
    from mashumaro.core.meta.code.builder import CodeBuilder
    from mashumaro.types import Alias
    real = getattr(CodeBuilder, "_CodeBuilder__get_field_alias", None)
    if real is None:
        ctx.not_shown("translation validation K4", "CodeBuilder.__get_field_alias not found")
        return
    items, shown = [], []
    pool = ["a", "b", "x", "y", "", "None", "alias", "it's"]
    for i in range(ctx.budget(300, 3000)):
        n = rng.choice(NAMES)
        meta = rng.choice(pool) if rng.random() < 0.4 else None
        ann = None
        if rng.random() < 0.6:
            ann = [("alias", rng.choice(pool)) if rng.random() < 0.6 else ("other",) for _ in range(rng.randrange(1, 4))]
        al = {m: rng.choice(pool) for m in NAMES if rng.random() < 0.4}
        ftype = int if ann is None else Annotated[tuple([int] + [Alias(a[1]) if a[0] == "alias" else "other" for a in ann])]
        md = {}
        if rng.random() < 0.3:
            md["description"] = "d"
        if meta is not None:
            md["alias"] = meta
        cfg = type("Config", (BaseConfig,), {"aliases": al})
        try:
            got = real(n, ftype, md, cfg)
        except Exception as e:
            got = f"<{type(e).__name__}>"
        f = {"name": n, "meta": meta, "ann": ann, "dflt": None}
        items.append((i, f"Definition c{i} : cls := mkC [{c_fld(f)}] {c_aliases(al)} false false None.",
                      f"(c{i}, {coq_str('' if got is None else 'S' + got)}, {vlib.coq_bool(got is None)})"))
        shown.append((n, md, ann, al, got))
        ctx.count(("k4", i))
    okf = ("fun c => match c with (cl, e, isnone) => match c_fields cl with "
           "| [f] => match impl_alias cl f with "
           "  | Ok KNone => isnone | Ok (KStr s) => negb isnone && String.eqb (String \"S\" s) e | _ => false end "
           "  && (match alias_of cl f with None => isnone | Some s => negb isnone && String.eqb (String \"S\" s) e end) "
           "| _ => false end end")
    bad, log = coq_check("c09_k4", ("KeyModel KeyImpl PyK_alias", "From VerifGen Require Import K4.", ["theories/KeyImpl.vo"]),
                         items, okf, ctx, ctype="cls * string * bool")
    name = "K4.get_field_alias-translation-vs-python"
    if bad is None:
        ctx.correspondence(name, len(items), -1, log)
        ctx.not_shown("translation validation K4", log)
    else:
        ctx.correspondence(name, len(items), len(bad), str([shown[i] for i in bad[:5]]))
        if bad:
            ctx.not_shown("translation validation K4", f"inputs {[shown[i] for i in bad[:5]]}")


# ---------------------------------------------------------------------------
# dataclass-typed fields (one level of nesting): generator, oracle, observation
# ---------------------------------------------------------------------------

def gen_nested(rng):
    """outer class K with 1..3 fields, at least one of type N (another dataclass with its own aliases and options)"""
    def decl(n, ty, dflt, tag):
        meta = rng.choice([None, f"m{tag}_{n}", "s1", n]) if rng.random() < 0.6 else None
        ann = [("alias", rng.choice([f"a{tag}_{n}", "s2"]))] if rng.random() < 0.3 else None
        return {"name": n, "meta": meta, "ann": ann, "init": True, "dflt": dflt, "ty": ty, "mo": False, "kw": False, "tv": False}

    def cfg(names, tag):
        return {"plain": False, "inherit": None,
                "aliases": {n: rng.choice([f"c{tag}_{n}", "s1", "s2"]) for n in names if rng.random() < 0.4},
                "allow": rng.random() < 0.5, "forbid": rng.random() < 0.5}
    inames = ["p", "q"][:rng.choice([1, 2, 2])]
    k = rng.randrange(len(inames) + 1)
    idecls = [decl(n, "int", "int" if i >= len(inames) - k else None, "i") for i, n in enumerate(inames)]
    inner = {"levels": [{"cls": "N", "decls": idecls, "config": cfg(inames, "i")}], "classvar": [], "initvar": [],
             "shape": "chain", "generic": False, "discr": None, "mixin": rng.choice([None, "dict"])}
    names = NAMES[:rng.choice([1, 2, 2, 3])]
    nested = set(rng.sample(names, rng.choice([1, 1, 2]) if len(names) > 1 else 1))
    k = rng.randrange(len(names) + 1)
    decls = []
    for i, n in enumerate(names):
        has_d = i >= len(names) - k
        if n in nested:
            decls.append(decl(n, "nested", "none" if has_d else None, "o"))
        else:
            decls.append(decl(n, "any", "int" if has_d else None, "o"))
    return {"levels": [{"cls": "K", "decls": decls, "config": cfg(names, "o")}], "classvar": [], "initvar": [],
            "shape": "chain", "generic": False, "discr": None, "mixin": rng.choice([None, "dict", "json"]), "inner": inner}


def o_nkeymodel(spec, d):
    """the outer class resolves its keys with its own rules; a dataclass-typed field hands the value it was read from to
    the inner class, which applies *its* rules; anything going wrong inside is an InvalidFieldValue of the outer field"""
    acc = o_accepted(spec)
    extra = [k for k in d if k not in acc]
    if o_config(spec)["forbid"] and extra:
        return ("extra", extra)
    vals = []
    for f in o_fields(spec):
        for k in o_candidates(spec, f):
            if k in d:
                v = d[k]
                if f["ty"] == "nested":
                    if not isinstance(v, dict):
                        return ("invalid", f["name"])
                    r = o_keymodel(spec["inner"], v)
                    if r[0] != "inst":
                        return ("invalid", f["name"])
                    v = ("inner", r[1])
                vals.append((f["name"], v))
                break
        else:
            if f["dflt"] is None:
                return ("missing", f["name"])
            vals.append((f["name"], o_default(f)))
    return ("inst", vals)


def observe_nested(spec, call, d):
    from mashumaro.exceptions import ExtraKeysError, InvalidFieldValue, MissingField
    try:
        obj = call({k: (dict(v) if isinstance(v, dict) else v) for k, v in d.items()})
    except ExtraKeysError as e:
        ek = set(e.extra_keys)
        if any(k not in d for k in ek):
            return ("exc", f"ExtraKeysError.extra_keys {ek!r} is not a set of input keys")
        return ("extra", [k for k in d if k in ek])
    except MissingField as e:
        return ("missing", e.field_name)
    except InvalidFieldValue as e:
        return ("invalid", e.field_name)
    except Exception as e:
        return ("exc", f"{type(e).__name__}: {e}")
    if type(obj).__name__ != "K":
        return ("exc", f"result is a {type(obj).__name__}")
    vals = []
    for f in o_fields(spec):
        v = getattr(obj, f["name"], "<no attribute>")
        if type(v).__name__ == "N":
            v = ("inner", [(g["name"], getattr(v, g["name"], "<no attribute>")) for g in o_fields(spec["inner"])])
        vals.append((f["name"], v))
    return ("inst", vals)


def nested_stream(ctx, rng, k4_ok):
    import json
    from mashumaro.codecs import BasicDecoder
    from mashumaro.codecs.json import JSONDecoder
    items, shown = [], []
    n_cls = ctx.budget(40, 110)
    for ci in range(n_cls):
        spec = gen_nested(rng)
        src = class_source(spec)
        try:
            mod = build_class(src)
            K = mod.K
            ents = ([("K.from_dict", K.from_dict)] if spec["mixin"] else []) + [("BasicDecoder(K).decode", BasicDecoder(K).decode)]
            jd = JSONDecoder(K)
            ents.append(("JSONDecoder(K).decode", lambda d, jd=jd: jd.decode(json.dumps(d))))
            if spec["mixin"] == "json":
                ents.append(("K.from_json", lambda d, K=K: K.from_json(json.dumps(d))))
        except Exception as e:
            ctx.fail(f"class creation fails: {type(e).__name__}: {e}",
                     {"entry": "class-creation", "source": src, "spec": spec, "input": [], "observed": repr(e),
                      "expected": "classes N and K are created"}, {"kind": "class-creation", "exc": type(e).__name__})
            continue
        inner = spec["inner"]
        ikeys = candidate_keys(inner, rng, limit=5)
        okeys = candidate_keys(spec, rng, limit=6)
        ncands = {k for f in o_fields(spec) if f["ty"] == "nested" for k in o_candidates(spec, f)}
        ctx.hist("nested", f"outer fields={len(o_fields(spec))} nested={sum(1 for f in o_fields(spec) if f['ty'] == 'nested')} "
                           f"inner fields={len(o_fields(inner))}")
        c_outer = f"(class_of {c_spec(spec)} None)"
        c_inner = f"(class_of {c_spec(inner)} None)"
        nt = "[" + "; ".join(f"({coq_str(f['name'])}, n{ci})" for f in o_fields(spec) if f["ty"] == "nested") + "]"
        idfl = "[" + "; ".join(f"({coq_str(f['name'])}, {c_defaults(inner)})" for f in o_fields(spec) if f["ty"] == "nested") + "]"
        dtxt = f"Definition n{ci} : cls := {c_inner}.\nDefinition c{ci} : cls := {c_outer}."
        for ks in subsets(okeys, rng, ctx.budget(20, 64)):
            tbl = []
            d = {}
            order = list(ks)
            rng.shuffle(order)
            for k in order:
                want_dict = rng.random() < (0.8 if k in ncands else 0.1)
                if want_dict:
                    iks = [x for x in ikeys if rng.random() < 0.6]
                    rng.shuffle(iks)
                    dn = {x: 200 + 10 * len(tbl) + ikeys.index(x) for x in iks}
                    dn = {x: v for x, v in dn.items()}
                    tbl.append(dn)
                    d[k] = dn
                else:
                    d[k] = 100 + okeys.index(k)
            if not all(isinstance(x, str) for dn in tbl for x in dn) or not str_keys(d):
                json_ok = False
            else:
                json_ok = True
            exp = o_nkeymodel(spec, d)
            obs0 = None
            for ename, call in ents:
                if "JSON" in ename or "json" in ename:
                    if not json_ok:
                        continue
                obs = observe_nested(spec, call, d)
                ctx.count(("nested", ci, repr(sorted(map(repr, d.items()))), ename))
                ctx.hist("outcome", obs[0] + " (nested stream)")
                if obs0 is None:
                    obs0 = obs
                if obs != exp:
                    LISTED.fail(ctx, "nested", len(items), f"{ename}({d!r}) -> {obs!r}, KEYMODEL says {exp!r}",
                             dict(replay_of(spec, src, ename, {}, obs, exp), input_nested=[[jsonable_key(k), v if not isinstance(v, dict) else {"dict": [[jsonable_key(a), b] for a, b in v.items()]}] for k, v in d.items()]),
                             {"kind": "nested-key-resolution", "observed": obs[0], "expected": exp[0]})

            def cv(v):
                if isinstance(v, dict):
                    return coq_z(1000 + [i for i, t in enumerate(tbl) if t is v or t == v][0])
                return c_val(v)

            def cobs(o):
                if o[0] == "inst":
                    parts = []
                    for n, v in o[1]:
                        if isinstance(v, tuple) and v[0] == "inner":
                            parts.append(f"({coq_str(n)}, OI [" + "; ".join(f"({coq_str(a)}, {c_val(b)})" for a, b in v[1]) + "])")
                        elif isinstance(v, (int, dict)) or v is None:
                            parts.append(f"({coq_str(n)}, OV {cv(v)})")
                        else:
                            return '(NVMissing "<unexpected value>")'
                    return "(NVInst [" + "; ".join(parts) + "])"
                if o[0] == "missing":
                    return f"(NVMissing {coq_str(o[1])})"
                if o[0] == "invalid":
                    return f"(NVInvalid {coq_str(o[1])})"
                if o[0] == "extra":
                    return "(NVExtra [" + "; ".join(c_key(k) for k in o[1]) + "])"
                return '(NVMissing "<unexpected exception>")'
            ctbl = "[" + "; ".join(c_dict(t) for t in tbl) + "]"
            cd = "[" + "; ".join(f"({c_key(k)}, {cv(v)})" for k, v in d.items()) + "]"
            items.append((ci, dtxt, f"(c{ci}, {nt}, {c_defaults(spec)}, {idfl}, {ctbl}, {cd}, {cobs(obs0)})"))
            shown.append((src, d, obs0))
        drop_module(mod)
    ok_ref = ("fun c => match c with (cl, nt, dfl, idfl, tbl, d, o) => "
              "nobservation_eqb (nobserve dfl idfl (nkeymodel cl nt tbl d)) o end")
    ok_both = ("fun c => match c with (cl, nt, dfl, idfl, tbl, d, o) => "
               "nobservation_eqb (nobserve dfl idfl (nimpl cl nt tbl d)) o && "
               "nobservation_eqb (nobserve dfl idfl (nkeymodel cl nt tbl d)) o end")
    ctype = "cls * list (string * cls) * list Z * list (string * list Z) * list dict * dict * nobservation"
    if k4_ok:
        bad, log = coq_check("c09_nested", ("KeyModel KeyImpl KeyProofs KeyNested PyK_alias", "From VerifGen Require Import K4.",
                                            ["theories/KeyNested.vo"]), items, ok_both, ctx, ctype=ctype)
    else:
        bad, log = None, "kernel K4 did not translate (the nested model is built on it)"
    name = "nested: nimpl(K4)/nkeymodel-vs-from_dict"
    settle(ctx, "nested", name, len(items), bad, log,
           lambda b: f"{len(b)} cases, first: input {shown[b[0]][1]!r}: implementation {shown[b[0]][2]!r}\n{shown[b[0]][0]}")




# ---------------------------------------------------------------------------
# dataclass-typed fields at any depth and inside Optional / List / Dict[str, .]
# ---------------------------------------------------------------------------
# type codes: ("scalar",) | ("cls", name) | ("opt", t) | ("list", t) | ("map", t)

def ty_str(t) -> str:
    return {"scalar": lambda: "Any", "cls": lambda: t[1], "opt": lambda: f"Optional[{ty_str(t[1])}]",
            "list": lambda: f"List[{ty_str(t[1])}]", "map": lambda: f"Dict[str, {ty_str(t[1])}]"}[t[0]]()


def ty_coq(t, idx) -> str:
    if t[0] == "scalar":
        return "TScalar"
    if t[0] == "cls":
        return f"(TCls {idx[t[1]]})"
    return "(" + {"opt": "TOpt", "list": "TList", "map": "TMap"}[t[0]] + " " + ty_coq(t[1], idx) + ")"


def gen_deep(rng):
    def decl(n, t, dflt, tag, scalar_ty):
        meta = rng.choice([None, f"m{tag}_{n}", "s1"]) if rng.random() < 0.6 else None
        ann = [("alias", rng.choice([f"a{tag}_{n}", "s2"]))] if rng.random() < 0.25 else None
        d = {"name": n, "meta": meta, "ann": ann, "init": True, "dflt": dflt, "ty": scalar_ty, "mo": False, "kw": False,
             "tv": False, "t": t}
        if t[0] != "scalar":
            d["tystr"] = ty_str(t)
        return d

    def cfg(names, tag):
        return {"plain": False, "inherit": None,
                "aliases": {n: rng.choice([f"c{tag}_{n}", "s1", "s2"]) for n in names if rng.random() < 0.4},
                "allow": rng.random() < 0.5, "forbid": rng.random() < 0.5}

    def wrap(base):
        r = rng.random()
        if r < 0.3:
            return base
        if r < 0.5:
            return ("opt", base)
        if r < 0.75:
            return ("list", base)
        if r < 0.9:
            return ("map", base)
        return rng.choice([("list", ("opt", base)), ("map", ("list", base)), ("opt", ("list", base))])

    def mk(cname, names, types, scalar_ty, inner):
        k = rng.randrange(len(names) + 1)
        decls = []
        for i, (n, t) in enumerate(zip(names, types)):
            has_d = i >= len(names) - k
            if t[0] == "scalar":
                dflt = "int" if has_d else None
            else:
                dflt = "none" if (has_d and t[0] == "opt") else None
                if has_d and dflt is None:
                    k = len(names) - i - 1        # no default here: the following ones keep theirs
            decls.append(decl(n, t, dflt, cname.lower(), scalar_ty))
        # dataclass rule: no field without default after one with default
        seen = False
        for f in decls:
            if f["dflt"] is not None:
                seen = True
            elif seen:
                for g in decls:
                    g["dflt"] = None
                break
        hook = None
        if rng.random() < 0.4:
            pool = list(names) + [f["meta"] for f in decls if f["meta"]] + ["legacy", "junk", "s1", "s2"]
            hook = []
            for _ in range(rng.choice([1, 1, 2])):
                r = rng.random()
                if r < 0.3:
                    hook.append(("drop", rng.choice(pool)))
                elif r < 0.45:
                    hook.append(("put", rng.choice(pool), 950 + len(hook)))
                else:
                    hook.append(("rename", rng.choice(pool), rng.choice(pool)))
        return {"levels": [{"cls": cname, "decls": decls, "config": cfg(names, cname.lower()), "hook": hook}], "classvar": [],
                "initvar": [], "shape": "chain", "generic": False, "discr": None, "mixin": rng.choice([None, "dict"]), "inner": inner}
    n2 = mk("N2", ["r", "s"][:rng.choice([1, 2])], [("scalar",)] * 2, "int", None)
    n1_names = ["p", "q"][:rng.choice([1, 2, 2])]
    n1_types = [rng.choice([("scalar",), wrap(("cls", "N2"))]) for _ in n1_names]
    n1 = mk("N1", n1_names, n1_types, "int", n2)
    k_names = NAMES[:rng.choice([1, 2, 2, 3])]
    k_types = [rng.choice([("scalar",), wrap(("cls", "N1")), wrap(("cls", "N1")), wrap(("cls", "N2"))]) for _ in k_names]
    if all(t[0] == "scalar" for t in k_types):
        k_types[0] = wrap(("cls", "N1"))
    top = mk("K", k_names, k_types, "any", n1)
    top["mixin"] = rng.choice([None, "dict", "json"])
    return top


def deep_classes(spec) -> dict:
    out = {}
    sp = spec
    while sp is not None:
        out[sp["levels"][0]["cls"]] = sp
        sp = sp.get("inner")
    return out


def o_deep(classes, cname, d, top=True):
    """every class applies its own key rules to the mapping it is given; what sits under the chosen key is decoded by the
    field type; below the outermost class every failure is just a failure (InvalidFieldValue of the outermost field)"""
    spec = classes[cname]
    if not isinstance(d, dict):
        return ("fail",)
    d = o_apply_hook(spec, d)          # the class's own __pre_deserialize__, on the mapping handed to this class
    acc = o_accepted(spec)
    extra = [k for k in d if k not in acc]
    if o_config(spec)["forbid"] and extra:
        return ("extra", extra) if top else ("fail",)
    vals = []
    for f in o_fields(spec):
        for k in o_candidates(spec, f):
            if k in d:
                ok, v = o_deep_value(classes, f["t"], d[k])
                if not ok:
                    return ("invalid", f["name"]) if top else ("fail",)
                vals.append((f["name"], v))
                break
        else:
            if f["dflt"] is None:
                return ("missing", f["name"]) if top else ("fail",)
            vals.append((f["name"], o_default(f)))
    return ("inst", vals)


def o_deep_value(classes, t, v):
    if t[0] == "scalar":
        return (type(v) is int or v is None), v
    if t[0] == "cls":
        r = o_deep(classes, t[1], v, top=False)
        return (r[0] == "inst"), (("obj", t[1], r[1]) if r[0] == "inst" else None)
    if t[0] == "opt":
        return (True, None) if v is None else o_deep_value(classes, t[1], v)
    if t[0] == "list":
        if isinstance(v, dict) and not v:
            return True, ("list", [])           # any empty iterable is an empty list (a type question, not a key question)
        if not isinstance(v, list):
            return False, None
        rs = [o_deep_value(classes, t[1], x) for x in v]
        return all(a for a, _ in rs), ("list", [b for _, b in rs])
    if not isinstance(v, dict):
        return False, None
    rs = [(k, o_deep_value(classes, t[1], x)) for k, x in v.items()]
    return all(a for _, (a, _) in rs), ("map", [(k, b) for k, (_, b) in rs])


def gen_deep_value(classes, t, rng, depth=0):
    if t[0] == "scalar":
        return rng.randrange(300, 400)
    r = rng.random()
    if r < 0.06:
        return rng.choice([rng.randrange(300, 400), None, [], {}])          # often not what the type wants
    if t[0] == "opt":
        return None if rng.random() < 0.3 else gen_deep_value(classes, t[1], rng, depth)
    if t[0] == "list":
        return [gen_deep_value(classes, t[1], rng, depth) for _ in range(rng.choice([0, 1, 1, 2]))]
    if t[0] == "map":
        ks = rng.sample(["k1", "k2", "s1", "r", "x"], rng.choice([0, 1, 1, 2]))
        return {k: gen_deep_value(classes, t[1], rng, depth) for k in ks}
    return gen_deep_dict(classes, t[1], rng, depth + 1)


def gen_deep_dict(classes, cname, rng, depth=0, keys=None):
    spec = classes[cname]
    if keys is None:
        keys = [k for k in candidate_keys(spec, rng, limit=6) if isinstance(k, str)]
        if rng.random() < 0.6:
            # a mapping the class accepts: the first candidate of every field, nothing else
            keys = []
            for f in o_fields(spec):
                k0 = o_candidates(spec, f)[0]
                if k0 not in keys:
                    keys.append(k0)
        else:
            keys = [k for k in keys if rng.random() < 0.65]
    rng.shuffle(keys)
    role = {}
    for f in o_fields(spec):
        for k in o_candidates(spec, f):
            role.setdefault(k, []).append(f["t"])
    d = {}
    for k in keys:
        ts = role.get(k, [])
        if len(ts) == 1 or (ts and all(t == ts[0] for t in ts)):
            d[k] = gen_deep_value(classes, ts[0], rng, depth)
        else:
            d[k] = rng.randrange(300, 400)          # strangers and keys shared by fields of different types
    return d


def deep_obs(v):
    import dataclasses
    if dataclasses.is_dataclass(v) and not isinstance(v, type):
        return ("obj", type(v).__name__, [(f.name, deep_obs(getattr(v, f.name))) for f in dataclasses.fields(v)])
    if isinstance(v, list):
        return ("list", [deep_obs(x) for x in v])
    if isinstance(v, dict):
        return ("map", [(k, deep_obs(x)) for k, x in v.items()])
    return v


def observe_deep(call, d, seen=None):
    from mashumaro.exceptions import ExtraKeysError, InvalidFieldValue, MissingField
    import copy
    seen = d if seen is None else seen
    try:
        obj = call(copy.deepcopy(d))
    except ExtraKeysError as e:
        ek = set(e.extra_keys)
        if any(k not in seen for k in ek):
            return ("exc", f"ExtraKeysError.extra_keys {ek!r} is not a set of input keys")
        return ("extra", [k for k in seen if k in ek])
    except MissingField as e:
        return ("missing", e.field_name)
    except InvalidFieldValue as e:
        return ("invalid", e.field_name)
    except Exception as e:
        return ("exc", f"{type(e).__name__}: {e}")
    o = deep_obs(obj)
    if not (isinstance(o, tuple) and o[0] == "obj" and o[1] == "K"):
        return ("exc", f"result is {o!r}")
    return ("inst", o[2])


def c_nv(v) -> str:
    if isinstance(v, dict):
        return "(VD [" + "; ".join(f"({c_key(k)}, {c_nv(x)})" for k, x in v.items()) + "])"
    if isinstance(v, list):
        return "(VL [" + "; ".join(c_nv(x) for x in v) + "])"
    return f"(VZ {c_val(v)})"


def c_rv(v) -> str:
    if isinstance(v, tuple) and v[0] == "obj":
        return "(RObj [" + "; ".join(f"({coq_str(n)}, Some {c_rv(x)})" for n, x in v[2]) + "])"
    if isinstance(v, tuple) and v[0] == "list":
        return "(RList [" + "; ".join(c_rv(x) for x in v[1]) + "])"
    if isinstance(v, tuple) and v[0] == "map":
        return "(RMap [" + "; ".join(f"({c_key(k)}, {c_rv(x)})" for k, x in v[1]) + "])"
    if v is None or type(v) is int:
        return f"(RZ {c_val(v)})"
    return "(RList [RZ 424242])"           # never produced by the model


def deep_stream(ctx, rng, k4_ok):
    import json
    from mashumaro.codecs import BasicDecoder
    from mashumaro.codecs.json import JSONDecoder
    items, shown = [], []
    order = ["N2", "N1", "K"]
    idx = {n: i for i, n in enumerate(order)}
    for ci in range(ctx.budget(40, 130)):
        spec = gen_deep(rng)
        classes = deep_classes(spec)
        src = class_source(spec)
        try:
            mod = build_class(src)
            K = mod.K
            ents = ([("K.from_dict", K.from_dict)] if spec["mixin"] else []) + [("BasicDecoder(K).decode", BasicDecoder(K).decode)]
            jd = JSONDecoder(K)
            ents.append(("JSONDecoder(K).decode", lambda d, jd=jd: jd.decode(json.dumps(d))))
            if spec["mixin"] == "json":
                ents.append(("K.from_json", lambda d, K=K: K.from_json(json.dumps(d))))
        except Exception as e:
            ctx.fail(f"class creation fails: {type(e).__name__}: {e}",
                     {"entry": "class-creation", "source": src, "spec": spec, "input": [], "observed": repr(e),
                      "expected": "classes N2, N1 and K are created"}, {"kind": "class-creation", "exc": type(e).__name__})
            continue
        ctx.hist("deep_types", " ".join(sorted({ty_str(f["t"]) for c in classes.values() for f in o_fields(c) if f["t"][0] != "scalar"})))
        tb = []
        for n in order:
            c = classes[n]
            tys = "; ".join(f"({coq_str(f['name'])}, {ty_coq(f['t'], idx)})" for f in o_fields(c) if f["t"][0] != "scalar")
            tb.append(f"mkN (class_of {c_spec(c)} None) [{tys}]")
        hk = "[" + "; ".join(c_hooks(classes[n])[1:-1] for n in order) + "]"
        ctx.hist("deep_hooks", " ".join(n for n in order if classes[n]["levels"][0].get("hook")) or "none")
        dtxt = f"Definition tb{ci} : list ncls := [{'; '.join(tb)}].\nDefinition hk{ci} : list (option (list hookop)) := {hk}."
        dfl = "[" + "; ".join(f"({coq_str(f['name'])}, {c_val(o_default(f))})" for c in classes.values() for f in o_fields(c)
                              if f["dflt"] is not None) + "]"
        okeys = [k for k in candidate_keys(spec, rng, limit=6) if isinstance(k, str)]
        prim = []
        for f in o_fields(spec):
            if o_candidates(spec, f)[0] not in prim:
                prim.append(o_candidates(spec, f)[0])
        for ks in [prim] * 6 + list(subsets(okeys, rng, ctx.budget(14, 58))):
            d = gen_deep_dict(classes, "K", rng, keys=list(ks))
            exp = o_deep(classes, "K", d)
            seen = o_apply_hook(spec, d)
            obs0 = None
            for ename, call in ents:
                obs = observe_deep(call, d, seen=seen)
                ctx.count(("deep", ci, repr(d), ename))
                ctx.hist("outcome", obs[0] + " (deep stream)")
                obs0 = obs if obs0 is None else obs0
                if obs != exp:
                    LISTED.fail(ctx, "deep", len(items), f"{ename}({d!r}) -> {obs!r}, KEYMODEL says {exp!r}",
                             dict(replay_of(spec, src, ename, {}, obs, exp), input_deep=d),
                             {"kind": "nested-key-resolution", "observed": obs[0], "expected": exp[0]})
            if obs0[0] == "inst":
                co = "(DInst [" + "; ".join(f"({coq_str(n)}, Some {c_rv(v)})" for n, v in obs0[1]) + "])"
            elif obs0[0] == "missing":
                co = f"(DMissing {coq_str(obs0[1])})"
            elif obs0[0] == "invalid":
                co = f"(DInvalid {coq_str(obs0[1])})"
            elif obs0[0] == "extra":
                co = "(DExtra [" + "; ".join(c_key(k) for k in obs0[1]) + "])"
            else:
                co = '(DMissing "<unexpected exception>")'
            items.append((ci, dtxt, f"(tb{ci}, hk{ci}, {dfl}, [" + "; ".join(f"({c_key(k)}, {c_nv(v)})" for k, v in d.items()) + f"], {co})"))
            shown.append((src, d, obs0))
        drop_module(mod)
    okb = ("fun c => match c with (tb, hk, dfl, d, o) => doutcome_eqb (dfl_of dfl) (deeph_impl 12 tb hk 2 d) o "
           "&& doutcome_eqb (dfl_of dfl) (deeph_ref 12 tb hk 2 d) o end")
    ctype = "list ncls * list (option (list hookop)) * list (string * Z) * list (key * nv) * doutcome"
    if k4_ok:
        bad, log = coq_check("c09_deep", ("KeyModel KeyImpl KeyProofs KeyNested KeyRewrite KeyDeep KeyDeepHook PyK_alias", "From VerifGen Require Import K4.",
                                          ["theories/KeyDeepHook.vo"]), items, okb, ctx, ctype=ctype, shard=250)
    else:
        bad, log = None, "kernel K4 did not translate (KeyDeep is built on it)"
    name = "deep (+hooks on every class): deeph_impl(K4)/deeph_ref-vs-from_dict"
    settle(ctx, "deep", name, len(items), bad, log,
           lambda b: f"{len(b)} cases, first: input {shown[b[0]][1]!r}: implementation {shown[b[0]][2]!r}\n{shown[b[0]][0]}")


# ---------------------------------------------------------------------------
# the class table with the real MROs: CPython's dataclass walk / get_type_hints vs KeyDc
# ---------------------------------------------------------------------------

def c_table(spec, mod) -> str:
    names = [lv["cls"] for lv in spec["levels"]]
    rows = []
    for lv in spec["levels"]:
        cls = getattr(mod, lv["cls"])
        mro = [names.index(c.__name__) for c in cls.__mro__[1:] if c.__module__ == mod.__name__ and c.__name__ in names]
        decls = "; ".join(f"({c_fld(f)}, {vlib.coq_bool(f['init'])})" for f in lv["decls"])
        rows.append(f"mkPC [{decls}] [{'; '.join(f'{i}%nat' for i in mro)}]")
    return "[" + "; ".join(rows) + "]"


def dc_views(spec, mod):
    """per class: (index, real __dataclass_fields__ as [(name, metadata alias, init)], real type hints as
    [(name, last Alias of the annotation)]) as Coq terms"""
    import dataclasses
    import typing_extensions
    from mashumaro.types import Alias
    out = []
    for j, lv in enumerate(spec["levels"]):
        cls = getattr(mod, lv["cls"])
        fl = [(n, f) for n, f in cls.__dataclass_fields__.items() if f._field_type is dataclasses._FIELD]
        fs = "[" + "; ".join(f"({coq_str(n)}, {c_ostr(f.metadata.get('alias'))}, {vlib.coq_bool(f.init)})" for n, f in fl) + "]"
        hints = typing_extensions.get_type_hints(cls, include_extras=True)
        hv = []
        for n, _ in fl:
            al = [a.name for a in getattr(hints.get(n), "__metadata__", ()) if isinstance(a, Alias)]
            hv.append(f"({coq_str(n)}, {c_ostr(al[-1] if al else None)})")
        out.append((j, fs, "[" + "; ".join(hv) + "]"))
    return out


def gen_diamond(rng):
    """A; B(A); C(A); K(B, C) -- every class may (re-)declare x, y, z with its own alias sources and default value"""
    dv = {"A": -1, "B": -2, "C": -3, "K": -4}
    levels = []
    for c in ("A", "B", "C", "K"):
        decls = []
        for n in NAMES:
            if rng.random() < (0.7 if c == "A" else 0.4):
                meta = rng.choice([None, f"m{c}_{n}", "s1"])
                ann = rng.choice([None, None, [("alias", f"a{c}_{n}")], [("other",)], [("alias", "s2"), ("other",)]])
                decls.append({"name": n, "meta": meta, "ann": ann, "init": rng.random() < 0.9, "dflt": "int", "dv": dv[c],
                              "ty": "any", "mo": False, "kw": False, "tv": False})
        levels.append({"cls": c, "decls": decls, "config": None})
    alias_names = NAMES
    levels[-1]["config"] = {"plain": False, "inherit": None,
                            "aliases": {n: f"c_{n}" for n in alias_names if rng.random() < 0.4},
                            "allow": rng.random() < 0.5, "forbid": rng.random() < 0.5}
    return {"levels": levels, "classvar": [], "initvar": [], "shape": "diamond", "generic": False, "discr": None,
            "mixin": rng.choice([None, "dict"])}


def diamond_stream(ctx, rng, k4_ok, dc_items, dc_shown):
    from mashumaro.codecs import BasicDecoder
    items, shown = [], []
    for ci in range(ctx.budget(40, 90)):
        spec = gen_diamond(rng)
        src = class_source(spec)
        try:
            mod = build_class(src)
            K = mod.K
            ents = ([("K.from_dict", K.from_dict)] if spec["mixin"] else []) + [("BasicDecoder(K).decode", BasicDecoder(K).decode)]
        except Exception as e:
            ctx.fail(f"class creation fails: {type(e).__name__}: {e}",
                     {"entry": "class-creation", "source": src, "spec": spec, "input": [], "observed": repr(e),
                      "expected": "the classes are created"}, {"kind": "class-creation", "exc": type(e).__name__})
            continue
        real_mro = {c: [b.__name__ for b in getattr(mod, c).__mro__[1:] if b.__name__ in DIAMOND_MRO] for c in DIAMOND_MRO}
        if real_mro != DIAMOND_MRO:
            ctx.not_shown("diamond MRO", f"expected {DIAMOND_MRO}, Python says {real_mro}")
            continue
        tbl = c_table(spec, mod)
        for j, fs, hv in dc_views(spec, mod):
            k = len(dc_items)
            dc_items.append((f"d{ci}", f"Definition td{ci} : list pyclassdef := {tbl}.", f"(td{ci}, {j}%nat, {fs}, {hv})"))
            dc_shown.append((src, spec["levels"][j]["cls"], fs, hv))
        fields = o_fields(spec)
        ctx.hist("diamond", f"fields={len(fields)} redeclared_in_C={sum(1 for f in spec['levels'][2]['decls'] if any(g['name'] == f['name'] for g in spec['levels'][0]['decls']))}")
        keys = candidate_keys(spec, rng, limit=7)
        cfg = spec["levels"][-1]["config"]
        g = f"(mkCfg {c_aliases(cfg['aliases'])} {vlib.coq_bool(cfg['allow'])} {vlib.coq_bool(cfg['forbid'])})"
        dfl = c_defaults(spec)
        for ks in subsets(keys, rng, ctx.budget(24, 64)):
            d = make_dict(ks, keys, rng)
            exp = o_keymodel(spec, d)
            obs0 = None
            for ename, call in ents:
                obs = observe(spec, call, d)
                ctx.count(("diamond", ci, repr(sorted(map(repr, d.items()))), ename))
                ctx.hist("outcome", obs[0] + " (diamond stream)")
                obs0 = obs if obs0 is None else obs0
                if obs != exp:
                    LISTED.fail(ctx, "diamond", len(items), f"{ename}({d!r}) -> {obs!r}, KEYMODEL says {exp!r}",
                             replay_of(spec, src, ename, d, obs, exp),
                             {"kind": "key-resolution", "observed": obs[0], "expected": exp[0]})
            items.append((f"d{ci}", f"Definition td{ci} : list pyclassdef := {tbl}.", f"(td{ci}, {g}, {dfl}, {c_dict(d)}, {c_obs(obs0)})"))
            shown.append((src, d, obs0))
        drop_module(mod)
    okf = ("fun c => match c with (cs, g, dfl, d, o) => let cl := dc_class cs 3 g None in "
           "observation_eqb (observe dfl (keymodel cl d)) o && "
           "match impl_from_dict cl d with Ok r => observation_eqb (observe dfl r) o | Raise _ => false end end")
    okr = ("fun c => match c with (cs, g, dfl, d, o) => observation_eqb (observe dfl (keymodel (dc_class cs 3 g None) d)) o end")
    ctype = "list pyclassdef * cfg * list Z * dict * observation"
    if k4_ok:
        bad, log = coq_check("c09_diamond", ("KeyModel KeyImpl KeyDc PyK_alias", "From VerifGen Require Import K4.",
                                             ["theories/KeyImpl.vo", "theories/KeyDc.vo"]), items, okf, ctx, ctype=ctype)
    else:
        bad, log = coq_check("c09_diamond", ("KeyModel KeyDc", "", ["theories/KeyDc.vo"]), items, okr, ctx, ctype=ctype)
    name = "diamond: impl(K4)/keymodel on dc_class-vs-from_dict"
    settle(ctx, "diamond", name, len(items), bad, log,
           lambda b: f"{len(b)} cases, first: input {shown[b[0]][1]!r}: implementation {shown[b[0]][2]!r}\n{shown[b[0]][0]}")


def dc_check(ctx, dc_items, dc_shown):
    okf = ("fun c => match c with (cs, j, fs, hv) => view_eqb (decl_view (nth j (dc_table cs []) [])) fs "
           "&& hview_eqb (hints_alias_view cs j (map (fun p => fst (fst p)) fs)) hv end")
    bad, log = coq_check("c09_dc", ("KeyModel KeyDc", "", ["theories/KeyDc.vo"]), dc_items, okf, ctx,
                         ctype="list pyclassdef * nat * list (string * option string * bool) * list (string * option string)")
    name = "dc_table/class_hints-vs-__dataclass_fields__/get_type_hints"
    settle(ctx, None, name, len(dc_items), bad, log,
           lambda b: f"{len(b)} cases, first: class {dc_shown[b[0]][1]}: real {dc_shown[b[0]][2]} hints {dc_shown[b[0]][3]}\n{dc_shown[b[0]][0]}")


# ---------------------------------------------------------------------------
# which class-level discriminator: any class of the hierarchy may define one in its Config
# ---------------------------------------------------------------------------
# config["dw"]: None (no discriminator line) | "none" (discriminator = None) | ("obj", field | None)

DISCR_FIELDS = ["t", "t", "u", "kind", "None", ""]


def o_cfg_discr(mro):
    """mro: the class bodies, nearest first.  The `discriminator` attribute of the Config class the first one sees:
    Python attribute lookup (written in the body of that Config, else in the Config it derives from, else the
    documented default None)."""
    for j, lv in enumerate(mro):
        c = lv["config"]
        if c is None:
            continue
        if c.get("dw") == "none":
            return None
        if c.get("dw") is not None:
            return c["dw"]
        if c["inherit"] is not None:
            return o_cfg_discr(mro[j + 1:])
        return None
    return None


def o_own_discr(mro):
    """the class's own Config has a discriminator: its from_dict selects a subtype"""
    return o_cfg_discr(mro) if mro and mro[0]["config"] is not None else None


def o_nearest_discr(mro):
    """the class-level discriminator a class has: that of the nearest class along the MRO that is a dispatcher"""
    for j in range(len(mro)):
        dv = o_own_discr(mro[j:])
        if dv is not None:
            return dv
    return None


def c_oo(dv) -> str:
    return "None" if dv is None else f"(Some {c_ostr(dv[1])})"


def c_dw(lv) -> str:
    c = lv["config"]
    if c is None or c.get("dw") is None:
        return "DAbsent"
    if c["dw"] == "none":
        return "DNone"
    return f"(DObj {c_ostr(c['dw'][1])})"


def c_dlevels(mro) -> str:
    return "[" + "; ".join(f"({c_level(lv)}, {c_dw(lv)})" for lv in mro) + "]"


def gen_discr_spec(rng):
    spec = gen_spec(rng, {"mixin": rng.choice([None, "dict", "dict"])})
    spec["discr"] = None
    levels = spec["levels"]
    depth = len(levels)
    lower = None
    for j, lv in enumerate(levels):
        if lv["config"] is None and rng.random() < 0.6:
            inherit = lower is not None and rng.random() < 0.5
            lv["config"] = {"plain": levels[lower]["config"]["plain"] if inherit else rng.random() < 0.3,
                            "inherit": levels[lower]["cls"] if inherit else None, "aliases": None, "allow": None, "forbid": None}
        c = lv["config"]
        if c is not None:
            c.pop("dialect_support", None)
            if c["inherit"] is not None:
                # a deriving Config names the Config its class would otherwise see: the nearest one below
                c["inherit"] = levels[lower]["cls"]
                c["plain"] = levels[lower]["config"]["plain"]
            if spec["shape"] == "roots" and lv["cls"] != "K" and c["inherit"] is not None:
                c["inherit"] = None            # an unrelated base names no other class's Config (its MRO is itself)
            lower = j
    if levels[-1]["config"] is None:
        levels[-1]["config"] = {"plain": False, "inherit": None, "aliases": None, "allow": None, "forbid": None}
    if rng.random() < 0.8:
        levels[-1]["config"]["forbid"] = True
    pool = DISCR_FIELDS + [f["name"] for f in o_fields(spec)] + [a for a in all_alias_strings(spec)][:3]
    for lv in levels:
        c = lv["config"]
        if c is None:
            continue
        r = rng.random()
        c["dw"] = None if r < 0.3 else "none" if r < 0.4 else ("obj", None) if r < 0.5 else ("obj", rng.choice(pool))
    mro = list(reversed(levels))
    if o_own_discr(mro) is not None and rng.random() < 0.8:
        # most of the time K itself reads fields
        kc = levels[-1]["config"]
        if kc["dw"] not in (None, "none"):
            kc["dw"] = rng.choice([None, "none"])
        if o_own_discr(mro) is not None:
            kc["dw"] = "none"
    return spec


def discr_stream(ctx, rng, k4_ok):
    from mashumaro.codecs import BasicDecoder
    from mashumaro.core.meta.code.builder import CodeBuilder
    from mashumaro.mixins.dict import DataClassDictMixin
    k109a_ok = bool(ctx.kernel_report.get("K109a", {}).get("ok"))
    items, shown = [], []
    views, vshown = [], []
    for ci in range(ctx.budget(60, 160)):
        spec = gen_discr_spec(rng)
        src = class_source(spec)
        levels = spec["levels"]
        try:
            mod = build_class(src)
            K = mod.K
            builders = {lv["cls"]: CodeBuilder(getattr(mod, lv["cls"])) for lv in levels}
            ents = ([("K.from_dict", K.from_dict)] if spec["mixin"] else []) + [("BasicDecoder(K).decode", BasicDecoder(K).decode)]
        except Exception as e:
            ctx.fail(f"class creation fails: {type(e).__name__}: {e}",
                     {"entry": "class-creation", "source": src, "spec": spec, "input": [], "observed": repr(e),
                      "expected": "the classes are created"}, {"kind": "class-creation", "exc": type(e).__name__})
            continue
        # ---- what get_discriminator finds, for K and every ancestor
        for j, lv in enumerate(levels):
            sub = levels[:j + 1] if (spec["shape"] == "chain" or lv["cls"] == "K") else [lv]
            mro = list(reversed(sub))
            real_mro = [c.__name__ for c in getattr(mod, lv["cls"]).__mro__ if c.__module__ == mod.__name__]
            if real_mro != [x["cls"] for x in mro]:
                ctx.not_shown("discriminator stream MRO", f"expected {[x['cls'] for x in mro]}, Python says {real_mro}\n{src}")
                continue
            got = []
            for lp in (True, False):
                dv = builders[lv["cls"]].get_discriminator(look_in_parents=lp)
                got.append(None if dv is None else ("obj", dv.field))
            exp = [o_nearest_discr(mro), o_own_discr(mro)]
            ctx.count(("discr-view", ci, lv["cls"]))
            ctx.hist("discr_view", f"nearest={'-' if exp[0] is None else 'own' if exp[1] is not None else 'ancestor'} "
                                   f"configs={sum(1 for x in mro if x['config'] is not None)}")
            if got != exp:
                LISTED.fail(ctx, "discr-view", len(views),
                            f"CodeBuilder({lv['cls']}).get_discriminator(look_in_parents=True / False) -> {got!r}, "
                            f"Python's attribute rules say {exp!r}",
                            {"entry": "get_discriminator", "source": src, "class": lv["cls"], "spec": spec, "input": [],
                             "observed": repr(got), "expected": repr(exp)},
                            {"kind": "discriminator-lookup", "observed": repr(got[0] is not None), "expected": repr(exp[0] is not None)})
            views.append((f"v{ci}_{j}", f"Definition dv{ci}_{j} : list dlevel := {c_dlevels(mro)}.",
                          f"(dv{ci}_{j}, {c_oo(got[0])}, {c_oo(got[1])})"))
            vshown.append((src, lv["cls"], got))
        # ---- the keys K.from_dict accepts
        mro = list(reversed(levels))
        if builders["K"].get_discriminator() is not None or o_own_discr(mro) is not None:
            drop_module(mod)
            continue                                   # K is a dispatcher: no field is read (property C05)
        nd = o_nearest_discr(mro)
        ospec = dict(spec, no_base=True, discr=None if nd is None else (("field", nd[1]) if nd[1] is not None else ("nofield",)))
        tags = [lv["config"]["dw"][1] for lv in levels if lv["config"] is not None and lv["config"].get("dw") not in (None, "none")
                and lv["config"]["dw"][1] is not None]
        keys = []
        for k in tags + candidate_keys(ospec, rng, limit=6):
            if k not in keys:
                keys.append(k)
        keys = keys[:7]
        dfl = c_defaults(spec)
        dtxt = f"Definition dh{ci} : list dlevel := {c_dlevels(mro)}."
        hooked = o_hook(spec) is not None
        ctx.hist("discr_stream", f"nearest discriminator {'-' if nd is None else 'with field' if nd[1] else 'without field'}, "
                                 f"{'hook' if hooked else 'no hook'}")
        uses_mixin = vlib.coq_bool(DataClassDictMixin in K.__mro__)
        for ks in subsets(keys, rng, ctx.budget(24, 64)):
            d = make_dict(ks, keys, rng)
            dh = o_apply_hook(spec, d)                # the dispatcher test comes first, then K's hook, then the keys
            exp = o_keymodel(ospec, dh)
            obs0 = None
            for ename, call in ents:
                obs = observe(spec, call, d, seen=dh if hooked else None)
                ctx.count(("discr", ci, repr(sorted(map(repr, d.items()))), ename))
                ctx.hist("outcome", obs[0] + " (discriminator stream)")
                obs0 = obs if obs0 is None else obs0
                if obs != exp:
                    LISTED.fail(ctx, "discr", len(items), f"{ename}({d!r}) -> {obs!r}, KEYMODEL says {exp!r}",
                                replay_of(ospec, src, ename, d, obs, exp),
                                {"kind": "key-resolution", "observed": obs[0], "expected": exp[0]})
            items.append((f"h{ci}", dtxt, f"(dh{ci}, {c_hooks(spec)}, {uses_mixin}, {dfl}, {c_dict(d)}, {c_obs(obs0)})"))
            shown.append((src, d, obs0))
        drop_module(mod)
    MODEL = ("KeyModel KeyImpl KeyProofs KeyCfg KeyRewrite PyK_alias PyK_clsdiscr KeyDiscr KeyHookLookup KeyFull",
             "From VerifGen Require Import K4 K109a K109b.", ["theories/KeyFull.vo"])
    n1 = "discriminator: get_discriminator(K109a)/nearest_discr/own_discr-vs-CodeBuilder.get_discriminator"
    n2 = "discriminator+hooks: impl_from_class(K4,K109a,K109b)/keymodel with nearest_discr on the hooked mapping-vs-from_dict"
    if k4_ok and k109a_ok and bool(ctx.kernel_report.get("K109b", {}).get("ok")):
        bad, log = coq_check("c09_dview", MODEL, views, "fun c => match c with (r, p, o) => discr_view_ok r p o end", ctx,
                             ctype="list dlevel * option (option string) * option (option string)")
        bad2, log2 = coq_check("c09_dhier", MODEL, items,
                               "fun c => match c with (r, hk, mx, dfl, d, o) => dfull_ok r hk mx dfl d o end", ctx,
                               ctype="list dlevel * list (option (list hookop)) * bool * list Z * dict * observation")
    else:
        bad = bad2 = None
        log = log2 = "kernel K109a / K109b / K4 did not translate: " + str(ctx.kernel_report.get("K109a", {}).get("error")) \
            + " / " + str(ctx.kernel_report.get("K109b", {}).get("error"))
    settle(ctx, "discr-view", n1, len(views), bad, log,
           lambda b: f"{len(b)} cases, first: class {vshown[b[0]][1]}: get_discriminator(True/False) = {vshown[b[0]][2]!r}\n{vshown[b[0]][0]}")
    settle(ctx, "discr", n2, len(items), bad2, log2,
           lambda b: f"{len(b)} cases, first: input {shown[b[0]][1]!r}: implementation {shown[b[0]][2]!r}\n{shown[b[0]][0]}")


# ---------------------------------------------------------------------------
# the check
# ---------------------------------------------------------------------------

THEOREMS = ["K4_precedence", "K4_key_plan", "K4_allowed_keys", "C09_impl_is_code", "C09_keys", "C09_keys_hier",
            "C09_nearest_declaration", "C09_nearest_config", "C09_get_config", "C09_builder_config", "C09_fields_unique", "C09_alias_from_sources",
            "C09_mro_chain", "C09_mro_roots", "C09_own_view_finished", "C09_own_view_raw", "C09_nested", "C09_nested_inner_options", "C09_pre_hook", "C09_nearest_hook", "C09_hook_rename",
            "C09_dc_lookup", "C09_dc_chain", "C09_dc_roots", "C09_dataclass_fields_dc", "C09_deep", "C09_deep_list", "C09_deep_map_keys", "C09_deep_hooks", "C09_deep_no_hooks", "C09_inner_hook",
            "C09_get_discriminator", "C09_own_discriminator", "C09_keys_discr", "C09_discr_accepted", "C09_discr_config_inheritance", "C09_declared_hook", "C09_pre_hook_code", "C09_from_class", "C09_init_filter", "C09_from_class_fields",
            "C09_field_key", "C09_outcome", "C09_alias_wins", "C09_fallback", "C09_accepted_covers_reads",
            "C09_reads_allowed", "C09_extra_members", "C09_extra_exact", "C09_ignored", "C09_forbidden_reported"]


def jsonable_key(k):
    return {"none": True} if k is None else ({"int": k} if isinstance(k, int) else k)


def unjson_key(k):
    if isinstance(k, dict):
        return None if "none" in k else k["int"]
    return k


def replay_of(spec, src, entry, d, obs, exp):
    return {"entry": entry, "source": src, "class": "K", "spec": spec,
            "input": [[jsonable_key(k), v] for k, v in d.items()],
            "observed": repr(obs), "expected": repr(exp)}


def run(ctx: vlib.Ctx):
    global LISTED
    LISTED = Listed(ctx.pid)
    ctx.coverage["rule"] = (
        "class K = last of a hierarchy of 1..3 dataclasses (A -> B -> K) with 0..3 init fields; every field may be "
        "re-declared in a nearer class with other alias sources (the nearest declaration counts), or turned into an "
        "init=False member; the Config K sees may sit in an ancestor, with a shadowed Config farther up; each declaration "
        "has any of the three alias sources (metadata / Annotated Alias list incl. several Alias and non-Alias items / "
        "Config.aliases; alias strings fresh, shadowing another field's name, shared, own name, 'None', 'alias', the "
        "discriminator field, '' and non-identifier strings) x allow_deserialization_not_by_alias x forbid_extra_keys x "
        "Config discriminator of a common parent (with/without field) x mixin/plain x init=False and ClassVar members; "
        "field types int / Any / Optional[int], defaults none / -1 / None; input = subset of <= 8 candidate keys (names, "
        "winning, losing and shadowed aliases, names of members that are not read, discriminator field, strangers incl. "
        "'None', 'alias', '', None, 1), every key bound to a distinct int or (classes whose fields all accept it) None, "
        "plus for every field with two candidates both keys present with each int/None value pattern; thorough: all subsets. "
        "distinct = (class spec, input, entry point)")
    ctx.trusted += [
        "tools/kernels/k4_alias.py: slicer that recognises the emitted `X = d.get(<key>, MISSING)` lines / `if X is MISSING:` "
        "guards of FieldUnpackerCodeBlockBuilder.build and the allowed_keys statements of _add_unpack_method_lines "
        "(expressions are translated; statement shapes are pattern-checked, fail closed)",
        "coq/theories/PyK_alias.v: kernel primitives (for-loop as fold, isinstance by class name, sets as lists)",
        "KeyImpl.v hand-written part (order extra-key check -> fields in order; dict.get; MISSING fall-through; MissingField "
        "for a field without default): compared with the real from_dict "
        "on every run",
        "encoding of Python objects as kernel values (Alias instance = namespace with class name and .name; "
        "Annotated metadata = tuple; Config.aliases / field metadata = dict) and `{x!r}` / `'{fname}'` splices denoting the "
        "string x (C16)",
    ]
    ctx.assumptions += [
        "C09_keys has no domain restriction; a Discriminator whose field is '' counts as one without field (as everywhere "
        "in the library)",
        "alias values are strings (Alias(None) / aliases={..: None} are outside the property's quantifier)",
        "input keys are hashable scalars (str / None / int); values are ints or None and are opaque to the model (None "
        "crosses to Coq as the reserved code -7); outcomes are compared at the level of what is observable: attribute values",
    ]
    # In a fresh copy on a loaded machine the cone of the property file may not be built yet (setup's make is cut off by
    # its own timeout): build it first with a generous budget, so that no obligation below depends on the 900 s of
    # vlib.coq_make being enough for a build from scratch.  Failures are reported by ctx.theorems / coq_check below.
    vlib.coq_make(["props/C09_keys.vo"], timeout=3300, jobs=6)
    br = ctx.theorems("props/C09_keys.vo", THEOREMS, kernels=["K4", "K5", "K109a", "K109b", "K109c"])
    # every registered name must be a theorem of the props file with its own Print Assumptions, all closed
    import os
    import re
    ptxt = open(os.path.join(vlib.COQ, "props", "C09_keys.v")).read()
    absent = [n for n in THEOREMS if not re.search(r"^Theorem %s\b" % n, ptxt, re.M)
              or ("Print Assumptions %s." % n) not in ptxt]
    if absent:
        ctx.not_shown("theorems of props/C09_keys.vo", f"not stated in the props file: {absent}")
    if br.ok:
        pa = br.assumptions.get("print_assumptions", [])
        if len(pa) != len(THEOREMS) or any(a != "Closed under the global context" for a in pa):
            ctx.not_shown("assumptions of props/C09_keys.vo", f"expected {len(THEOREMS)} x closed, got {pa}")
    k4_ok = bool(ctx.kernel_report.get("K4", {}).get("ok"))
    if not ctx.quick() and br.ok:
        # second opinion of the independent checker on the compiled library of the property file
        rc, out, secs = vlib.run(["timeout", "3000", "coqchk", "-silent", "-o"] + vlib.COQ_FLAGS[:9] + ["VerifProps.C09_keys"],
                                 cwd=vlib.COQ, timeout=3060)
        good = rc == 0 and "* Axioms: <none>" in out
        ctx.obligation("coqchk VerifProps.C09_keys (axioms: none)", good, out[-600:])
        if not good:
            ctx.not_shown("coqchk VerifProps.C09_keys", out[-1500:])

    rng = ctx.rng
    if k4_ok:
        kernel_validation(ctx, rng)
    nested_stream(ctx, rng, k4_ok)
    deep_stream(ctx, rng, k4_ok)
    dc_items, dc_shown = [], []
    diamond_stream(ctx, rng, k4_ok, dc_items, dc_shown)
    n_classes = ctx.budget(200, 230)
    sub_max = ctx.budget(32, 256)
    forced = [{"allow": a, "forbid": b, "mixin": m, "nf": nf, "depth": dp} for a in (False, True) for b in (False, True)
              for m in (None, "dict") for nf, dp in ((1, 1), (2, 3))]
    cases = []          # (spec, src, entry, d, obs)
    src_items, src_shown = [], []      # the builder's view of the classes vs the modelled Python semantics
    hook_items, hook_shown = [], []    # which __pre_deserialize__ CodeBuilder.get_declared_hook finds
    coq_defs = []
    coq_cases = []
    full_cases = []     # the same cases for the model in which every decision goes through a translated function (KeyFull)
    dom_cases = []
    n_mismatch_oracle = 0
    for ci in range(n_classes):
        spec = gen_spec(rng, forced[ci] if ci < len(forced) else None)
        src = class_source(spec)
        try:
            mod = build_class(src)
        except Exception as e:
            # class creation must succeed for every generated configuration (post D6 any alias string is fine)
            ctx.fail(f"class creation fails: {type(e).__name__}: {e}",
                     {"entry": "class-creation", "source": src, "spec": spec, "input": [], "observed": repr(e),
                      "expected": "class K is created"}, {"kind": "class-creation", "exc": type(e).__name__})
            continue
        try:
            ents = entries(spec, mod)
        except Exception as e:
            ctx.fail(f"decoder creation fails: {type(e).__name__}: {e}",
                     {"entry": "decoder-creation", "source": src, "spec": spec, "input": [], "observed": repr(e),
                      "expected": "BasicDecoder(K) is created"}, {"kind": "class-creation", "exc": type(e).__name__})
            drop_module(mod)
            continue
        try:
            for sub, flds, cfgv_ in source_views(spec, mod):
                k = len(src_items)
                # fields: the classes this class is made of; Config: every class defined before it may be named
                src_items.append((k, f"Definition s{k} : list level := {c_spec(dict(spec, levels=sub))}.\n"
                                     f"Definition t{k} : list level := {c_spec(dict(spec, levels=cfg_hierarchy(spec, sub)))}.",
                                  f"(s{k}, t{k}, {flds}, {cfgv_})"))
                src_shown.append((src, [lv["cls"] for lv in sub], flds, cfgv_))
        except Exception as e:
            ctx.fail(f"CodeBuilder view fails: {type(e).__name__}: {e}",
                     {"entry": "class-creation", "source": src, "spec": spec, "input": [], "observed": repr(e),
                      "expected": "CodeBuilder(cls).dataclass_fields / get_config()"}, {"kind": "class-creation", "exc": type(e).__name__})
        try:
            for hv_case in hook_views(spec, mod):
                hook_items.append((len(hook_items), "", hv_case[0]))
                hook_shown.append((src,) + hv_case[1:])
        except Exception as e:
            ctx.not_shown("hook views", f"{type(e).__name__}: {e}")
        try:
            tbl = c_table(spec, mod)
            for j, fs, hv in dc_views(spec, mod):
                dc_items.append((f"m{ci}", f"Definition tm{ci} : list pyclassdef := {tbl}.", f"(tm{ci}, {j}%nat, {fs}, {hv})"))
                dc_shown.append((src, spec["levels"][j]["cls"], fs, hv))
        except Exception as e:
            ctx.not_shown("dataclass views", f"{type(e).__name__}: {e}")
        keys = candidate_keys(spec, rng)
        fields = o_fields(spec)
        cfgv = o_config(spec)
        ctx.hist("alias_sources", "|".join(
            "".join(t for t, on in (("m", f["meta"] is not None), ("a", bool(f["ann"]) and any(x[0] == "alias" for x in f["ann"])),
                                    ("c", f["name"] in cfgv["aliases"])) if on) or "-" for f in fields) or "(no fields)")
        ctx.hist("options", f"allow={int(cfgv['allow'])} forbid={int(cfgv['forbid'])} "
                            f"discr={'-' if spec['discr'] is None else spec['discr'][0]} {'mixin' if spec['mixin'] else 'plain'}")
        ctx.hist("empty_alias", "some field's resolved alias is ''" if any(o_alias(spec, f) == "" for f in fields) else "none")
        n_decl = {}
        for lv in spec["levels"]:
            for f in lv["decls"]:
                n_decl[f["name"]] = n_decl.get(f["name"], 0) + 1
        ctx.hist("hierarchy", f"depth={len(spec['levels'])} {spec['shape']}{' generic' if spec['generic'] else ''} "
                              f"redeclared={sum(1 for v in n_decl.values() if v > 1)}")
        cfs = [lv["config"] for lv in spec["levels"] if lv["config"] is not None]
        ctx.hist("config", f"classes={len(cfs)} deriving={sum(1 for c in cfs if c['inherit'])} plain={sum(1 for c in cfs if c['plain'])} "
                           f"in_K={int(spec['levels'][-1]['config'] is not None)}")
        ctx.hist("entry_mixin", str(spec["mixin"]))
        ctx.hist("non_init_members", f"init=False:{sum(1 for lv in spec['levels'] for f in lv['decls'] if not f['init'])} "
                                     f"ClassVar:{len(spec['classvar'])} InitVar:{len(spec['initvar'])} "
                                     f"kw_only:{sum(1 for f in fields if f['kw'])}")
        nullable = nullable_class(spec)
        hooked = o_hook(spec) is not None
        ctx.hist("pre_hook", "none" if not hooked else f"ops={len(o_hook(spec))} in {'K' if spec['levels'][-1].get('hook') is not None else 'ancestor'}")
        ctx.hist("values", "ints and None" if nullable else "ints")
        coq_defs.append(f"Definition c{ci} : list level := {c_spec(spec)}.")
        # the same class as the MRO of class bodies (nearest first) that the translated get_discriminator / get_config walk:
        # the common parent `Base` with its Config discriminator is the last class of it
        base_lv = [] if spec["discr"] is None else [
            "(mkL [] (Some (mkCD false false None None None)), DObj " + (c_ostr(spec["discr"][1]) if spec["discr"][0] == "field" else "None") + ")"]
        full_def = (f"Definition r{ci} : list dlevel := [" +
                    "; ".join([f"({c_level(lv)}, {c_dw(lv)})" for lv in reversed(spec["levels"])] + base_lv) + "].")
        uses_mixin = vlib.coq_bool(spec["mixin"] is not None)
        dfl = c_defaults(spec)
        dicts = []
        for ks in subsets(keys, rng, sub_max):
            dicts.append(make_dict(ks, keys, rng))
            if nullable and ks:
                dicts.append(make_dict(ks, keys, rng, p_none=0.4))
        dicts += boundary_dicts(spec)
        for d in dicts:
            ks = list(d)
            dh = o_apply_hook(spec, d)                # what the keys are resolved on
            exp = o_keymodel(spec, dh)
            obs_all = []
            for ename, call, need_str in ents:
                if need_str and not str_keys(d):
                    continue                          # the format cannot carry this key
                via_base = "Base" in ename
                dd = d
                if via_base:
                    if hooked:
                        continue                      # the dispatcher reads the tag before K's hook runs
                    if spec["discr"][1] not in d:
                        continue                      # MissingDiscriminatorError: not a key-resolution case
                    # the tag key is accepted and never read: same outcome as K's own entry point on d
                    dd = dict(d)
                    dd[spec["discr"][1]] = TAG
                obs = observe(spec, call, dd, seen=dh if hooked else None)
                ctx.count((ci, repr(sorted(d.items(), key=repr)), ename))
                ctx.hist("outcome", obs[0] + (" (via Base)" if via_base else ""))
                ctx.hist("entry", ename)
                if not via_base and not need_str:
                    obs_all.append(obs)
                if obs != exp:
                    n_mismatch_oracle += 1
                    kind = "key-resolution"
                    LISTED.fail(ctx, "main", len(coq_cases), f"{ename}({dd!r}) -> {obs!r}, KEYMODEL says {exp!r}",
                             replay_of(spec, src, ename, dd, obs, exp),
                             {"kind": kind, "observed": obs[0], "expected": exp[0]})
            # all entry points agree? (if not, the oracle has already flagged at least one of them)
            obs0 = obs_all[0]
            coq_cases.append((ci, coq_defs[-1], f"(c{ci}, {c_hooks(spec)}, {c_discr(spec)}, {dfl}, {c_dict(d)}, {c_obs(obs0)})"))
            full_cases.append((ci, coq_defs[-1] + "\n" + full_def,
                               f"(c{ci}, {c_hooks(spec)}, {c_discr(spec)}, {dfl}, {c_dict(d)}, {c_obs(obs0)}, r{ci}, {uses_mixin})"))
            cases.append((spec, src, ents[0][0], d, obs0))
            if len(ctx.coverage["samples"]) < 6 and len(ks) >= 2 and rng.random() < 0.01:
                ctx.sample({"class": src, "input": repr(d), "observed": repr(obs0)})
        drop_module(mod)

    # ---- correspondence: Coq models vs the real implementation, same cases
    ok_impl = ("fun c => match c with (h, hk, dk, dfl, d, o) => match impl_hooked hk h dk d with "
               "Ok r => observation_eqb (observe dfl r) o | Raise _ => false end end")
    ok_ref = ("fun c => match c with (h, hk, dk, dfl, d, o) => "
              "observation_eqb (observe dfl (keymodel (class_of h dk) (apply_hook (nearest_hook hk) d))) o end")
    ok_both = ("fun c => match c with (h, hk, dk, dfl, d, o) => match impl_hooked hk h dk d with "
               "Ok r => observation_eqb (observe dfl r) o | Raise _ => false end "
               "&& observation_eqb (observe dfl (keymodel (class_of h dk) (apply_hook (nearest_hook hk) d))) o end")
    IMPL = ("KeyModel KeyImpl KeyProofs KeyCfg KeyRewrite KeyHook PyK_alias", "From VerifGen Require Import K4.", ["theories/KeyHook.vo"])
    REF = ("KeyModel KeyRewrite", "", ["theories/KeyRewrite.vo"])

    def report(name, bad, log, n):
        settle(ctx, "main", name, n, bad, log,
               lambda b: f"{len(b)} cases, first: class\n{cases[b[0]][1]}\ninput {cases[b[0]][3]!r}: implementation {cases[b[0]][4]!r}")

    n = len(coq_cases)
    n_dom = n
    n_impl, n_ref = "impl-model(K4)-vs-from_dict", "keymodel(reference)-vs-from_dict"
    impl_cases = coq_cases
    if k4_ok and all(ctx.kernel_report.get(k, {}).get("ok") for k in ("K109a", "K109b", "K109c")):
        # the implementation side = KeyInit.impl_from_class_fields: dispatcher test and discriminator of the MRO (K109a), declared
        # hook (K109b), get_config / aliases / allowed keys / key plan (K4), which members are read (K109c); the reference
        # side stays the kernel-free keymodel
        n_impl = "impl_from_class_fields(K4,K109a,K109b,K109c)-vs-from_dict"
        FULLT = "list level * list (option (list hookop)) * option (option string) * list Z * dict * observation * list dlevel * bool"
        ok_impl = ("fun c => match c with (h, hk, dk, dfl, d, o, r, mx) => match impl_from_class_fields r hk mx d with "
                   "Ok (Body x) => observation_eqb (observe dfl x) o | _ => false end end")
        ok_both = ("fun c => match c with (h, hk, dk, dfl, d, o, r, mx) => match impl_from_class_fields r hk mx d with "
                   "Ok (Body x) => observation_eqb (observe dfl x) o | _ => false end "
                   "&& observation_eqb (observe dfl (keymodel (class_of h dk) (apply_hook (nearest_hook hk) d))) o end")
        IMPL = ("KeyModel KeyImpl KeyProofs KeyCfg KeyRewrite KeyHook PyK_alias PyK_clsdiscr KeyDiscr KeyHookLookup KeyFull KeyInit",
                "From VerifGen Require Import K4 K109a K109b K109c.", ["theories/KeyInit.vo"])
        impl_cases = full_cases
        impl_type = FULLT
    else:
        impl_type = CASE_TYPE
    if k4_ok:
        bad, log = coq_check("c09_both", IMPL, impl_cases, ok_both, ctx, ctype=impl_type)
        if bad is None or bad:
            # attribute: run the two comparisons separately (on the disagreeing cases, or on all if Coq failed)
            sub = list(range(n)) if bad is None else bad[:2000]
            sub_cases = [coq_cases[i] for i in sub]
            b1, l1 = coq_check("c09_impl", IMPL, [impl_cases[i] for i in sub], ok_impl, ctx, ctype=impl_type)
            b2, l2 = coq_check("c09_ref", REF, sub_cases, ok_ref, ctx)
            report(n_impl, None if b1 is None else [sub[i] for i in b1], l1, n)
            report(n_ref, None if b2 is None else [sub[i] for i in b2], l2, n_dom)
        else:
            report(n_impl, [], log, n)
            report(n_ref, [], log, n_dom)
    else:
        ctx.correspondence(n_impl, n, -1, "kernel K4 did not translate")
        ctx.not_shown("correspondence " + n_impl, "kernel K4 did not translate: "
                      + str(ctx.kernel_report.get("K4", {}).get("error")))
        bad, log = coq_check("c09_ref", REF, coq_cases, ok_ref, ctx)
        report(n_ref, bad, log, n_dom)
    ctx.notes.append(f"oracle mismatches (incl. listed findings): {n_mismatch_oracle}")

    dc_check(ctx, dc_items, dc_shown)
    # ---- the modelled Python / dataclasses semantics and CodeBuilder's own view of the classes
    okv = ("fun c => match c with (h, hc, fs, g) => view_eqb (decl_view (collect h)) fs && cfg_eqb (nearest_cfg hc) g end")
    src_model = REF
    if k4_ok:
        # the Config also through the translated get_config run on the class objects of the hierarchy
        okv = ("fun c => match c with (h, hc, fs, g) => view_eqb (decl_view (collect h)) fs && cfg_eqb (nearest_cfg hc) g "
               "&& match impl_cfg hc with Ok g' => cfg_eqb g' g | Raise _ => false end end")
        src_model = IMPL
    bad, log = coq_check("c09_src", src_model, src_items, okv, ctx,
                         ctype="list level * list level * list (string * option string * bool) * cfg")
    nm = "collect/nearest_cfg/impl_cfg(K4)-vs-CodeBuilder.dataclass_fields/get_config"
    settle(ctx, None, nm, len(src_items), bad, log, lambda b: f"{len(b)} cases, first: {src_shown[b[0]][1:]} of\n{src_shown[b[0]][0]}")
    # ---- which __pre_deserialize__ the builder finds, through the translated lookup (K109b)
    nmh = "get_declared_hook(K109b)/declared_idx-vs-CodeBuilder.get_declared_hook"
    if bool(ctx.kernel_report.get("K109b", {}).get("ok")):
        bad, log = coq_check("c09_hookview", ("KeyModel KeyRewrite PyK_alias PyK_clsdiscr KeyHookLookup", "From VerifGen Require Import K109b.",
                                              ["theories/KeyHookLookup.vo"]), hook_items,
                             "fun c => match c with (hs, mx, o) => hook_view_ok hs mx o end", ctx,
                             ctype="list (option (list hookop)) * bool * option nat")
    else:
        bad, log = None, "kernel K109b did not translate: " + str(ctx.kernel_report.get("K109b", {}).get("error"))
    settle(ctx, None, nmh, len(hook_items), bad, log,
           lambda b: f"{len(b)} cases, first: class {hook_shown[b[0]][1]}: hook defined by level {hook_shown[b[0]][2]!r}\n{hook_shown[b[0]][0]}")
    # ---- class-level discriminators anywhere in the hierarchy (after everything else: the earlier streams keep their cases)
    discr_stream(ctx, rng, k4_ok)


# ---------------------------------------------------------------------------
# replay
# ---------------------------------------------------------------------------

def replay(rep: dict) -> int:
    if rep.get("kind") == "no-failing-input-found":
        print("nothing to replay: no failing input was found; broken obligations:")
        for u in rep.get("not_shown", []):
            print(" -", u["name"], ":", u["detail"][:400])
        return 0
    spec = rep["spec"]
    norm_spec(spec)
    try:
        mod = build_class(rep["source"])
    except Exception as e:
        print("class creation:", type(e).__name__, e)
        if rep["entry"] == "class-creation":
            print("REPRODUCED")
            return 1
        return 2
    if rep["entry"] in ("class-creation", "decoder-creation"):
        try:
            entries(spec, mod)
            source_views(spec, mod)
        except Exception as e:
            print("decoder / builder creation:", type(e).__name__, e)
            print("REPRODUCED")
            return 1
        print("classes, decoders and builder views are created")
        print("not reproduced")
        return 0
    if rep["entry"] == "get_discriminator":
        from mashumaro.core.meta.code.builder import CodeBuilder
        levels = spec["levels"]
        j = [lv["cls"] for lv in levels].index(rep["class"])
        sub = levels[:j + 1] if (spec["shape"] == "chain" or rep["class"] == "K") else [levels[j]]
        mro = list(reversed(sub))
        for lv in levels:
            c = lv["config"]
            if c is not None and isinstance(c.get("dw"), list):
                c["dw"] = tuple(c["dw"])
        b = CodeBuilder(getattr(mod, rep["class"]))
        got = []
        for lp in (True, False):
            dv = b.get_discriminator(look_in_parents=lp)
            got.append(None if dv is None else ("obj", dv.field))
        exp = [o_nearest_discr(mro), o_own_discr(mro)]
        print(rep["source"]); print("class   ", rep["class"]); print("observed", got); print("expected", exp)
        print("REPRODUCED" if got != exp else "not reproduced")
        return 1 if got != exp else 0
    if "input_deep" in rep:
        from mashumaro.codecs import BasicDecoder
        sp = spec
        while sp is not None:
            norm_spec(sp)
            for f in sp["levels"][0]["decls"]:
                def tup(t):
                    return tuple(tup(x) if isinstance(x, list) else x for x in t)
                f["t"] = tup(f["t"])
            sp = sp.get("inner")
        d = rep["input_deep"]
        call = mod.K.from_dict if rep["entry"] == "K.from_dict" else BasicDecoder(mod.K).decode
        obs = observe_deep(call, d, seen=o_apply_hook(spec, d))
        exp = o_deep(deep_classes(spec), "K", d)
        def norm(o):
            return json.loads(json.dumps(o))
        import json
        print(rep["source"]); print("input   ", d); print("observed", obs); print("expected", exp)
        print("REPRODUCED" if norm(obs) != norm(exp) else "not reproduced")
        return 1 if norm(obs) != norm(exp) else 0
    if "input_nested" in rep:
        from mashumaro.codecs import BasicDecoder
        d = {unjson_key(k): ({unjson_key(a): b for a, b in v["dict"]} if isinstance(v, dict) else v) for k, v in rep["input_nested"]}
        norm_spec(spec["inner"])
        call = mod.K.from_dict if rep["entry"] == "K.from_dict" else BasicDecoder(mod.K).decode
        obs = observe_nested(spec, call, d)
        exp = o_nkeymodel(spec, d)
        print(rep["source"]); print("input   ", d); print("observed", obs); print("expected", exp)
        print("REPRODUCED" if obs != exp else "not reproduced")
        return 1 if obs != exp else 0
    d = {unjson_key(k): v for k, v in rep["input"]}
    call = None
    for ename, c, _ in entries(spec, mod):
        if ename == rep["entry"]:
            call = c
    if call is None:
        print("unknown entry", rep["entry"])
        return 2
    dh = o_apply_hook(spec, d)
    obs = observe(spec, call, d, seen=dh)
    exp = o_keymodel(spec, dh)
    print(rep["source"])
    print("entry   ", rep["entry"])
    print("input   ", d)
    print("observed", obs)
    print("expected", exp)
    if obs != exp:
        print("REPRODUCED")
        return 1
    print("not reproduced")
    return 0
