"""C20 - Coq side: theorems, K9 validation, model correspondence (filled in below)."""
from __future__ import annotations
from harness import vlib


def coq_part(ctx: vlib.Ctx):
    pass
