"""C20 - Coq side: theorems, (T) K9 validation by sampling, (M) model correspondence."""
from __future__ import annotations

import os
import time
import re
import sys
import types
import warnings

from harness import vlib
from harness.vlib import coq_str

RT_THEOREMS = ["C20_model_roundtrip", "C20_model_roundtrip_single", "C20_fields_digest"]
THEOREMS = ["C20_refs_closed", "C20_refs_closed_single", "C20_total", "C20_cyclic_diverges", "C20_cyclic_unranked",
            "C20_wf", "C20_wf_single", "C20_accumulate_refuted",
            "C20_K9_prefix", "C20_K9_dialect_defaults", "C20_K9_builder", "C20_K9_ref_names_key", "C20_K9_passed_context"]

PREFIXES = [None, None, "#/$defs", "#/defs/", "#/x//", "", "/", "///", "#/components/schemas/", "http://e.x/s#/d", "#", "a/b/", "x y/"]


# ---------------------------------------------------------------------------
# canonical text of a JSON document: same format as SchemaGen.canon
# ---------------------------------------------------------------------------

def canon(d) -> bytes:
    if d is None:
        return b"n"
    if d is True:
        return b"t"
    if d is False:
        return b"f"
    if isinstance(d, int):
        return b"i" + str(d).encode() + b";"
    if isinstance(d, str):
        b = d.encode("utf-8")
        return b"s" + str(len(b)).encode() + b":" + b
    if isinstance(d, (list, tuple)):
        return b"[" + b"".join(canon(x) for x in d) + b"]"
    if isinstance(d, dict):
        out = b"{"
        for k, v in d.items():
            kb = k.encode("utf-8")
            out += str(len(kb)).encode() + b":" + kb + canon(v)
        return out + b"}"
    raise TypeError(f"not in the model's JSON universe: {d!r}")


def coq_js(d) -> str:
    """a Coq term of type SchemaGen.js"""
    if d is None:
        return "JNull"
    if d is True:
        return "(JBool true)"
    if d is False:
        return "(JBool false)"
    if isinstance(d, int):
        return f"(JInt {vlib.coq_z(d)})"
    if isinstance(d, str):
        return f"(JStr {coq_str(d)})"
    if isinstance(d, (list, tuple)):
        return "(JArr [" + "; ".join(coq_js(x) for x in d) + "])"
    if isinstance(d, dict):
        return "(JObj [" + "; ".join(f"({coq_str(k)}, {coq_js(v)})" for k, v in d.items()) + "])"
    raise TypeError(f"not in the model's JSON universe: {d!r}")


def in_js_universe(d) -> bool:
    if d is None or isinstance(d, (bool, int, str)):
        return True
    if isinstance(d, (list, tuple)):
        return all(in_js_universe(x) for x in d)
    if isinstance(d, dict):
        return all(isinstance(k, str) and in_js_universe(v) for k, v in d.items())
    return False


FORMATS = ["date-time", "date", "time", "uuid", "ipv4", "regex", "time-delta", "time-zone", "ipv6interface", "decimal", "fraction", "base64", "path"]
TYPES = ["null", "boolean", "object", "array", "number", "string", "integer"]


def rand_json(r, depth=2):
    x = r.random()
    if depth <= 0 or x < 0.6:
        return r.choice([None, True, False, 0, 1, -7, 2**70, "", "a", "$ref", "\u00e9", "it's"])
    if x < 0.8:
        return [rand_json(r, depth - 1) for _ in range(r.randrange(0, 3))]
    return {r.choice(["a", "$ref", "default", "type", "x"]) + str(i): rand_json(r, depth - 1) for i in range(r.randrange(0, 3))}


def rand_schema_doc(r, depth=2) -> dict:
    """a document over the keywords of the JSONSchema dataclass: typed values, falsy and null sentinels, null-valued
    ordinary keywords, unknown keywords, arbitrary key order; sometimes an unknown type / format name (from_dict raises)"""
    d = {}
    pool = ["$schema", "type", "enum", "const", "format", "title", "description", "anyOf", "$ref", "$defs", "default", "deprecated",
            "examples", "properties", "patternProperties", "additionalProperties", "propertyNames", "prefixItems", "items", "contains",
            "multipleOf", "maximum", "exclusiveMaximum", "minimum", "exclusiveMinimum", "maxLength", "minLength", "pattern", "maxItems",
            "minItems", "uniqueItems", "maxContains", "minContains", "maxProperties", "minProperties", "required", "x-unknown", "$id", "not"]
    for k in r.sample(pool, r.randrange(0, 7)):
        if r.random() < 0.08 and k not in ("const", "default"):
            d[k] = None
            continue
        if k in ("$schema", "title", "description", "$ref", "pattern"):
            d[k] = r.choice(["", "a", "#/$defs/A", "^a*$", "\u00e9 'q'"])
        elif k == "type":
            d[k] = "strin" if r.random() < 0.2 else r.choice(TYPES)
        elif k == "format":
            d[k] = "date_time" if r.random() < 0.2 else r.choice(FORMATS)
        elif k in ("enum", "examples"):
            d[k] = [rand_json(r, 1) for _ in range(r.randrange(0, 4))]
        elif k in ("const", "default"):
            d[k] = rand_json(r, 2)
        elif k in ("deprecated", "uniqueItems"):
            d[k] = r.choice([True, False])
        elif k in ("propertyNames", "items", "contains"):
            d[k] = r.choice([True, 0, "x", []]) if r.random() < 0.1 else (rand_schema_doc(r, depth - 1) if depth > 0 else {})
        elif k == "additionalProperties":
            d[k] = r.choice([True, False]) if (depth <= 0 or r.random() < 0.5) else rand_schema_doc(r, depth - 1)
        elif k in ("anyOf", "prefixItems"):
            d[k] = [rand_schema_doc(r, depth - 1) if depth > 0 else {} for _ in range(r.randrange(0, 3))]
        elif k in ("$defs", "properties", "patternProperties"):
            d[k] = {r.choice(["a", "$ref", "default", "it's"]) + str(i): (rand_schema_doc(r, depth - 1) if depth > 0 else {}) for i in range(r.randrange(0, 3))}
        elif k == "required":
            d[k] = [r.choice(["a", "b", "$ref", ""]) for _ in range(r.randrange(0, 3))]
        elif k in ("x-unknown", "$id", "not"):
            d[k] = rand_json(r, 1)
        else:
            d[k] = r.choice([0, 1, 3, -2, 2**40])
    items = list(d.items())
    r.shuffle(items)
    return dict(items)


def rt_cases(ctx: vlib.Ctx, real_docs: list, n_synth: int):
    """(document, JSONSchema.from_dict(d).to_dict() as canonical text | "ERR")"""
    from mashumaro.jsonschema.models import JSONSchema
    r = ctx.rng
    docs = [d for d in real_docs if in_js_universe(d)]
    docs += [rand_schema_doc(r, r.choice([0, 1, 2])) for _ in range(n_synth)]
    docs += [{"const": 0}, {"const": ""}, {"const": False}, {"const": None}, {"default": None, "const": None}, {"default": [], "enum": []},
             {"properties": {"$ref": {"const": 0}}, "type": "object"}, {}, {"$defs": {}}, {"anyOf": []}, {"required": []}]
    cases, descr = [], []
    for d in docs:
        try:
            back = JSONSchema.from_dict(d).to_dict()
            exp = canon(back) if in_js_universe(back) else None
        except Exception:
            exp = b"ERR"
        if exp is None:
            continue
        cases.append(f"({coq_js(d)}, {coq_str(exp)})")
        descr.append({"doc": d, "expected": exp.decode("utf-8", "replace")})
    return cases, descr


def kv_opt_bool(b):
    return "KNone" if b is None else f"(KBool {'true' if b else 'false'})"


def kv_opt_str(s):
    return "KNone" if s is None else f"(KStr {coq_str(s)})"


def kv_dialect(d):
    return "KNone" if d is None else d


_modn = [0]


def _module(src: str):
    _modn[0] += 1
    name = f"c20_corr_{_modn[0]}"
    mod = types.ModuleType(name)
    sys.modules[name] = mod
    exec(compile(src, f"<{name}>", "exec", dont_inherit=True), mod.__dict__)
    return mod


# ---------------------------------------------------------------------------
# (T) K9 against the Python original
# ---------------------------------------------------------------------------

K9_SRC = "from dataclasses import dataclass\n@dataclass\nclass A:\n    x: int\n"


def k9_cases(ctx: vlib.Ctx, n: int):
    from mashumaro.jsonschema import JSONSchemaBuilder, build_json_schema
    from mashumaro.jsonschema import dialects as jd
    from mashumaro.jsonschema.models import Context
    r = ctx.rng
    mod = _module(K9_SRC)
    A = mod.A
    cases, descr = [], []
    combos = []
    # the full argument grid first: passed context (absent, or each of dialect / all_refs / ref_prefix set or unset)
    # x dialect x all_refs x ref_prefix arguments x with_definitions; then random ones with more prefix spellings
    pctxs = [None] + [(cD, car, cq) for cD in ("DRAFT_2020_12", "OPEN_API_3_1") for car in (None, True, False)
                      for cq in (None, "#/q", "#/q/")]
    for cx in pctxs:
        for D in (None, "DRAFT_2020_12", "OPEN_API_3_1"):
            for ar in (None, True, False):
                for p in ((None, "#/x//", "", "/") if cx is None else (None, "#/x//")):
                    for wd in ((True, False) if (cx is None or p is None) else (True,)):
                        combos.append(("single", cx, wd, ar, D, p))
                    if D is not None and cx is None:
                        combos.append(("builder", None, False, ar, D, p))
    while len(combos) < n:
        kind = r.choice(["single", "single", "builder", "ctx"])
        D = r.choice([None, "DRAFT_2020_12", "OPEN_API_3_1"])
        ar = r.choice([None, True, False])
        p = r.choice(PREFIXES)
        wd = r.choice([True, False])
        if kind == "builder":
            D = D or "DRAFT_2020_12"
            combos.append(("builder", None, False, ar, D, p))
        elif kind == "ctx":
            cD = r.choice(["DRAFT_2020_12", "OPEN_API_3_1"])
            car = r.choice([None, True, False])
            cq = r.choice([None, "#/q", "", "#/q/", "#/components/responses", "x//"])     # used as is (no stripping)
            combos.append(("single", (cD, car, cq), wd, ar, D, p))
        else:
            combos.append(("single", None, wd, ar, D, p))
    with warnings.catch_warnings():
        warnings.simplefilter("ignore")
        for kind, cx, wd, ar, D, p in combos:
            kw = {}
            if D is not None:
                kw["dialect"] = getattr(jd, D)
            if ar is not None:
                kw["all_refs"] = ar
            if p is not None:
                kw["ref_prefix"] = p
            try:
                if kind == "builder":
                    doc = JSONSchemaBuilder(**kw).build(A).to_dict()
                else:
                    c = None
                    if cx is not None:
                        c = Context(dialect=getattr(jd, cx[0]), all_refs=cx[1], ref_prefix=cx[2])
                    doc = build_json_schema(A, context=c, with_definitions=wd, **kw).to_dict()
                obs = ("$ref" in doc, doc.get("$ref", ""), "$defs" in doc)
            except Exception as e:  # would be a finding of the oracle too
                obs = (False, f"EXC {type(e).__name__}", False)
            ctx_term = "KNone" if cx is None else f"(mk_ctx {cx[0]} {kv_opt_bool(cx[1])} {kv_opt_str(cx[2])})"
            cases.append(f"({'true' if kind == 'builder' else 'false'}, {ctx_term}, {'true' if wd else 'false'}, "
                         f"({kv_opt_bool(ar)}, {kv_dialect(D)}, {kv_opt_str(p)}), "
                         f"({'true' if obs[0] else 'false'}, {coq_str(obs[1])}, {'true' if obs[2] else 'false'}))")
            descr.append({"kind": kind, "context": cx, "with_definitions": wd, "all_refs": ar, "dialect": D, "ref_prefix": p, "observed": obs})
    sys.modules.pop(mod.__name__, None)
    return cases, descr


# ---------------------------------------------------------------------------
# (M) model vs implementation on generated class tables of the model grammar
# ---------------------------------------------------------------------------

class MT:
    def __init__(self, py, coq, default=None, hashable=False, classes=(), dom=None):
        self.py, self.coq, self.default, self.hashable, self.classes = py, coq, default, hashable, classes
        # inside the domain of the default-rendering clause (SchemaDefault.sty_of): decided structurally by the constructors below
        self.dom = (not re.search("TClass|TNamed|TTyped|TOpaque|TUnion", coq)) if dom is None else dom


def pv_of_default(py: str, jsterm: str, coqtype: str) -> str:
    """the default VALUE as a Core.pv term (the model renders it): leaves carry their canonical text, enum members their name"""
    if jsterm == "JNull":
        return "Core.VNone"
    if coqtype.startswith("TAnn ["):
        coqtype = coqtype[coqtype.index("] (") + 3:-1]
    if coqtype.startswith("TLeaf"):
        return 'Core.VLeaf "leaf" ' + jsterm[len("JStr "):]
    if coqtype.startswith("TEnum false") and py != "None":
        return f'Core.VEnum "enum" "{py.split(".")[-1]}"'
    t = jsterm.replace("JNull", "Core.VNone").replace("JInt ", "Core.VInt ").replace("JStr ", "Core.VStr ").replace("JBool ", "Core.VBool ")
    return t


ENUM_TAB = '[("A", Core.VStr "a"); ("B", Core.VInt 2); ("X", Core.VInt 1); ("Y", Core.VInt 2)]'


def m_scalar(r):
    return r.choice([
        MT("int", "TInt", [("5", "JInt 5"), ("0", "JInt 0"), ("-3", "JInt (-3)"), ("2**70", f"JInt {2**70}")], True),
        MT("float", "TFloat", None, True),
        MT("bool", "TBool", [("True", "JBool true"), ("False", "JBool false")], True),
        MT("str", "TStr", [('"s"', 'JStr "s"'), ('""', 'JStr ""'), ('"$ref"', 'JStr "$ref"'), ('"\\u00e9"', "JStr " + coq_str("\u00e9"))], True),
        MT("Any", "TAny", [("7", "JInt 7"), ('"a"', 'JStr "a"')]),
    ] + M_LEAVES)


UTC_PAT = r"^UTC([+-][0-2][0-9]:[0-5][0-9])?$"
M_LEAVES = [
    MT("datetime.datetime", 'TLeaf "string" (Some "date-time") None', [("datetime.datetime(2020, 1, 2, 3, 4, 5)", 'JStr "2020-01-02T03:04:05"')], True),
    MT("datetime.date", 'TLeaf "string" (Some "date") None', [("datetime.date(2020, 2, 29)", 'JStr "2020-02-29"')], True),
    MT("datetime.time", 'TLeaf "string" (Some "time") None', None, True),
    MT("datetime.timedelta", 'TLeaf "number" (Some "time-delta") None', None, True),
    MT("datetime.timezone", f'TLeaf "string" None (Some {coq_str(UTC_PAT)})', [("datetime.timezone.utc", 'JStr "UTC"')], True),
    MT("zoneinfo.ZoneInfo", 'TLeaf "string" (Some "time-zone") None', None, True),
    MT("uuid.UUID", 'TLeaf "string" (Some "uuid") None', [("uuid.UUID(int=0)", 'JStr "00000000-0000-0000-0000-000000000000"')], True),
    MT("decimal.Decimal", 'TLeaf "string" (Some "decimal") None', [("decimal.Decimal('1.10')", 'JStr "1.10"')], True),
    MT("fractions.Fraction", 'TLeaf "string" (Some "fraction") None', None, True),
    MT("bytes", 'TLeaf "string" (Some "base64") None', None, True),
    MT("ipaddress.IPv4Address", 'TLeaf "string" (Some "ipv4") None', [("ipaddress.IPv4Address('127.0.0.1')", 'JStr "127.0.0.1"')], True),
    MT("ipaddress.IPv6Network", 'TLeaf "string" (Some "ipv6network") None', None, True),
    MT("pathlib.PurePosixPath", 'TLeaf "string" (Some "path") None', [("pathlib.PurePosixPath('/a')", 'JStr "/a"')], True),
    MT("ME1", 'TEnum false [JStr "a"; JInt 2]', [("ME1.A", 'JStr "a"'), ("ME1.B", "JInt 2")], True),
    MT("ME0", 'TEnum false []', None, True),
    MT("ME2", 'TEnum false [JInt 1; JInt 2]', [("ME2.X", "JInt 1")], True),
    MT('Literal[1, "a", True, None]', 'TEnum true [JInt 1; JStr "a"; JBool true; JNull]', [("None", "JNull"), ("True", "JBool true")], True),
    MT("Literal[0]", "TEnum true [JInt 0]", [("0", "JInt 0")], True),
    MT("Literal[None]", "TEnum true [JNull]", [("None", "JNull")], True),
    MT('Literal["", False]', 'TEnum true [JStr ""; JBool false]', [('""', 'JStr ""')], True),
    MT("MT1", 'TTyped ["b"; "a"] [TInt; TWrap TStr] [true; false]', None, False),
    MT("MT0", 'TTyped [] [] []', None, False),
    MT("MT2", 'TTyped ["x"; "y"; "a"] [TWrap (TLeaf "string" (Some "date") None); TList TInt; TWrap (TEnum false [JStr "a"; JInt 2])] [true; false; true]', None, False),
]


M_PRELUDE = [
    "import collections, datetime, decimal, enum, fractions, ipaddress, pathlib, uuid, zoneinfo",
    "from typing_extensions import TypedDict, Required, NotRequired, Annotated",
    "from mashumaro.types import Alias",
    "from mashumaro.jsonschema.annotations import Maximum, Minimum, ExclusiveMaximum, ExclusiveMinimum, MultipleOf, MinLength, MaxLength, Pattern, MinItems, MaxItems, UniqueItems, MinProperties, MaxProperties",
    "from mashumaro import pass_through",
    "from mashumaro.types import SerializationStrategy",
    "from mashumaro.dialect import Dialect",
    "class Pt:\n    def __init__(self, x=0):\n        self.x = x",
    "def ser_str(v) -> str:\n    return str(v)",
    "def ser_int(v) -> int:\n    return 0",
    "def ser_bool(v) -> bool:\n    return True",
    "def ser_float(v) -> float:\n    return 0.5",
    "def ser_date(v) -> datetime.date:\n    return datetime.date.min",
    "def ser_any(v):\n    return v",
    "def ser_lstr(v) -> List[str]:\n    return []",
    "def ser_dint(v) -> Dict[str, int]:\n    return {}",
    "def ser_tfs(v) -> Tuple[float, str]:\n    return (0.5, '')",
    "def ser_obool(v) -> Optional[bool]:\n    return None",
    "class StratS(SerializationStrategy):\n    def serialize(self, v) -> str:\n        return str(v)\n    def deserialize(self, v):\n        return v",
    "class ME1(enum.Enum):\n    A = 'a'\n    B = 2",
    "class ME0(enum.Enum):\n    pass",
    "class ME2(enum.IntEnum):\n    X = 1\n    Y = 2",
    "class MT1(TypedDict):\n    b: int\n    a: NotRequired[str]",
    "class MT0(TypedDict):\n    pass",
    "class MT2(TypedDict, total=False):\n    x: Required[datetime.date]\n    y: List[int]\n    a: Required[ME1]",
    "class N0(NamedTuple):\n    pass",
    "class N1(NamedTuple):\n    a: int\n    b: str = 'x'",
    "class N2(NamedTuple):\n    p: Optional[int] = None\n    q: Any = 7",
    "N3 = collections.namedtuple('N3', [])",
    "N4 = collections.namedtuple('N4', ['u', 'v'], defaults=[1])",
    "class N5(NamedTuple):\n    s: 'Optional[int]' = None\n    t: 'int' = 3\n    w: 'List[N0]' = None",
    "WInt = NewType('WInt', int)",
    "WLst = NewType('WLst', List[int])",
    "WAny = NewType('WAny', Any)",
    "WOpt = NewType('WOpt', Optional[str])",
    "WW = NewType('WW', WInt)",
]
M_WRAPPED = [("WInt", "TWrap TInt", True), ("WLst", "TWrap (TList TInt)", False), ("WAny", "TWrap TAny", False),
             ("WOpt", "TWrap (TUnion [TStr; TNone])", False), ("WW", "TWrap (TWrap TInt)", True)]
M_NAMED = {
    "N0": ('[]', '[]', '[]'),
    "N1": ('["a"; "b"]', '[TInt; TStr]', '[None; Some (JStr "x")]'),
    "N2": ('["p"; "q"]', '[TUnion [TInt; TNone]; TAny]', '[Some JNull; Some (JInt 7)]'),
    "N3": ('[]', '[]', '[]'),
    "N4": ('["u"; "v"]', '[TAny; TAny]', '[None; Some (JInt 1)]'),
    "N5": ('["s"; "t"; "w"]', '[TUnion [TInt; TNone]; TInt; TList (TNamed {asd} [] [] [])]', '[Some JNull; Some (JInt 3); Some JNull]'),
}


def m_named(r, asd) -> MT:
    n = r.choice(["N0", "N0", "N1", "N2", "N3", "N4", "N5", "N5"])
    names, ts, ds = M_NAMED[n]
    b = "true" if asd else "false"
    return MT(n, f"TNamed {b} {names} {ts.replace('{asd}', b)} {ds}")


_CUR_OVER: set = set()


def m_type(r, depth, avail, allow_any=True, asd=False) -> MT:
    x = r.random()
    if x < 0.12:
        return m_named(r, asd)
    if x < 0.2:
        py, coq, hashable = r.choice(M_WRAPPED)
        return MT(py, coq, None, hashable, dom=True)
    if depth <= 0 or x < 0.3:
        if avail and r.random() < 0.45:
            c = r.choice(avail)
            return MT(c if not c.startswith('"') else c, f'TClass "{c.strip(chr(34))}"', None, False, (c.strip('"'),))
        while True:
            t = m_scalar(r)
            if allow_any or t.py != "Any":
                return t
    k = r.choice(["List", "Set", "Dict", "Tuple", "Union", "Optional", "List", "Optional", "Tuple0", "Map", "Map", "Counter", "ChainMap", "TupleVar",
                  "Seq", "FrozenSet", "Ann", "Ann"])
    # (fcaa28c) a strategy registered under an ORIGIN class applies to every parametrisation of it: the model keys TList by
    # "list" and TDict / TMap by "dict", so in a class that registers list / dict these schemas are spelled List[..] / Dict[..]
    # only (Sequence, Deque, Tuple[T, ...], Mapping, OrderedDict, Counter, ChainMap have other origins)
    if "list" in _CUR_OVER and k in ("TupleVar", "Seq", "ChainMap"):
        k = "List"
    if "dict" in _CUR_OVER and k in ("Counter", "ChainMap"):
        k = "Map"
    if k in ("Map", "Counter", "ChainMap"):
        kt = m_scalar(r)
        while not kt.hashable or kt.py == "Any":
            kt = m_scalar(r)
        if k == "Counter" and "int" not in _CUR_OVER:
            # (Counter emits additionalProperties through get_schema, not _get_schema_or_none: under an int override that yields Any
            #  it keeps "additionalProperties": {} -- that corner is not in the model, so no Counter in a class that overrides int)
            return MT(f"Counter[{kt.py}]", f"TMap ({kt.coq}) TInt", None, False, (), dom=kt.dom)
        a = m_type(r, depth - 1, avail, asd=asd)
        name = r.choice(["Dict", "Mapping", "OrderedDict", "DefaultDict", "MutableMapping"]) if "dict" not in _CUR_OVER else "Dict"
        if k == "ChainMap":
            return MT(f"ChainMap[{kt.py}, {a.py}]", f"TList (TMap ({kt.coq}) ({a.coq}))", None, False, a.classes, dom=kt.dom and a.dom)
        return MT(f"{name}[{kt.py}, {a.py}]", f"TMap ({kt.coq}) ({a.coq})", None, False, a.classes, dom=kt.dom and a.dom)
    if k == "Ann":
        # Annotated constraints: any mix; those that do not fit the kind of the base type are ignored by the implementation
        base = r.choice([m_scalar(r), m_scalar(r), m_type(r, depth - 1, avail, asd=asd), MT("pathlib.PurePosixPath", 'TLeaf "string" (Some "path") None', None, True)])
        if base.py.startswith(("Annotated", "Final", "Optional", "Union")) or base.py in ("Any",):
            base = m_scalar(r)
            while base.py == "Any":
                base = m_scalar(r)
        pool = [("Maximum({z})", "ANum AMaximum {z}"), ("Minimum({z})", "ANum AMinimum {z}"), ("ExclusiveMaximum({z})", "ANum AExMax {z}"),
                ("ExclusiveMinimum({z})", "ANum AExMin {z}"), ("MultipleOf({p})", "ANum AMultipleOf {p}"), ("MinLength({n})", "ANum AMinLength {n}"),
                ("MaxLength({n})", "ANum AMaxLength {n}"), ("MinItems({n})", "ANum AMinItems {n}"), ("MaxItems({n})", "ANum AMaxItems {n}"),
                ("MinProperties({n})", "ANum AMinProps {n}"), ("MaxProperties({n})", "ANum AMaxProps {n}"),
                ("Pattern('^a*$')", 'APattern "^a*$"'), ("UniqueItems(True)", "AUnique true"), ("UniqueItems(False)", "AUnique false")]
        chosen = [r.choice(pool) for _ in range(r.randrange(1, 5))]
        py, cq = [], []
        for a, c in chosen:
            z = r.choice([0, 1, -3, 10, 2**40]); n = r.choice([0, 1, 5]); pp = r.choice([1, 2, 10])
            py.append(a.format(z=z, n=n, p=pp))
            cq.append(c.format(z=f"({z})", n=str(n), p=str(pp)))
        return MT(f"Annotated[{base.py}, {', '.join(py)}]", f"TAnn [{'; '.join(cq)}] ({base.coq})", base.default, base.hashable, base.classes, dom=base.dom)
    if k in ("TupleVar", "Seq"):
        a = m_type(r, depth - 1, avail, asd=asd)
        py = f"Tuple[{a.py}, ...]" if k == "TupleVar" else r.choice(["Sequence", "Deque", "MutableSequence"]) + f"[{a.py}]"
        return MT(py, f"TList ({a.coq})", None, False, a.classes, dom=a.dom)
    if k == "FrozenSet":
        a = m_scalar(r)
        while not a.hashable:
            a = m_scalar(r)
        return MT(r.choice(["FrozenSet", "AbstractSet"]) + f"[{a.py}]", f"TSet ({a.coq})", dom=a.dom)
    if k == "List":
        a = m_type(r, depth - 1, avail, asd=asd)
        return MT(f"List[{a.py}]", f"TList ({a.coq})", None, False, a.classes, dom=a.dom)
    if k == "Set":
        a = m_scalar(r)
        while not a.hashable:
            a = m_scalar(r)
        return MT(f"Set[{a.py}]", f"TSet ({a.coq})")
    if k == "Dict":
        a = m_type(r, depth - 1, avail, asd=asd)
        return MT(f"Dict[str, {a.py}]", f"TDict ({a.coq})", None, False, a.classes, dom=a.dom)
    if k == "Tuple":
        parts = [m_type(r, depth - 1, avail, asd=asd) for _ in range(r.randrange(1, 4))]
        dflt = None
        if all(p.default and p.dom for p in parts):       # a tuple default built from the parts' defaults
            ch = [r.choice(p.default) for p in parts]
            dflt = [("(" + "".join(c[0] + ", " for c in ch) + ")",
                     "TUPLE:" + "; ".join(pv_of_default(c[0], c[1], p.coq) for c, p in zip(ch, parts)))]
        return MT("Tuple[" + ", ".join(p.py for p in parts) + "]", "TTuple [" + "; ".join(p.coq for p in parts) + "]", dflt, False,
                  sum((p.classes for p in parts), ()), dom=all(p.dom for p in parts))
    if k == "Tuple0":
        return MT("Tuple[()]", "TTuple []")
    if k == "Optional":
        a = m_type(r, depth - 1, avail, allow_any=False, asd=asd)
        if a.py.startswith(("Optional", "Union")):
            return a
        return MT(f"Optional[{a.py}]", f"TUnion [{a.coq}; TNone]", [("None", "JNull")], False, a.classes, dom=a.dom)
    parts, seen = [], set()
    for _ in range(r.randrange(2, 4)):
        a = m_type(r, depth - 1, avail, allow_any=False, asd=asd)
        if a.py in seen or a.py.startswith(("Optional", "Union")):
            continue
        seen.add(a.py)
        parts.append(a)
    if len(parts) < 2:
        return parts[0] if parts else m_scalar(r)
    # typing caches parametrised aliases by *equal* arguments and Union equality ignores order: the first spelling
    # created in the process wins (Dict[str, Union[str, float]] is Dict[str, Union[float, str]]); one canonical order
    parts.sort(key=lambda p: p.py)
    return MT("Union[" + ", ".join(p.py for p in parts) + "]", "TUnion [" + "; ".join(p.coq for p in parts) + "]", None, False,
              sum((p.classes for p in parts), ()))


# replacement types of overrides: python spelling of the serialize callable, Coq ov term, key of the replacement type
OV_RET = [("ser_str", "ORet (Some TStr)", "str"), ("ser_int", "ORet (Some TInt)", "int"), ("ser_bool", "ORet (Some TBool)", "bool"),
          ("ser_float", "ORet (Some TFloat)", "float"), ("ser_date", 'ORet (Some (TLeaf "string" (Some "date") None))', None)]
# (chains) replacement types that are containers: python callable, Coq ov term, scalar keys mentioned
OV_CONT = [("ser_lstr", "ORet (Some (TList TStr))", set()), ("ser_dint", "ORet (Some (TDict TInt))", {"int"}),
           ("ser_tfs", "ORet (Some (TTuple [TFloat; TStr]))", {"float"}), ("ser_obool", "ORet (Some (TUnion [TBool; TNone]))", {"bool"})]
PYKEY = {"int": "int", "float": "float", "bool": "bool", "Pt": "Pt", "list": "list", "dict": "dict"}
COQKEY = {"int": "TInt", "float": "TFloat", "bool": "TBool", "Pt": 'TOpaque "Pt"'}


def keys_of(coq_term: str) -> set:
    ks = {k for k, c in COQKEY.items() if c in coq_term} | ({"str"} if "TStr" in coq_term else set())
    ks |= ({"list"} if "TList" in coq_term else set()) | ({"dict"} if ("TDict" in coq_term or "TMap" in coq_term) else set())
    if "TEnum true" in coq_term:      # the serializer applies a strategy to a Literal member by the member's own type
        ks |= ({"int"} if "JInt" in coq_term else set()) | ({"bool"} if "JBool" in coq_term else set())
    return ks


_CHAIN = [False]


def m_tables(r, origin_ok=True):
    """Config.dialect / Config.serialization_strategy of one class: (python lines for the dialect class body, python dict text for
    Config, Coq dial table, Coq conf table, overridden keys, keys with a serializing override).  "str" is never overridden (it is
    the implicit key type of Dict[str, .]); a replacement type never carries an overridden key (no chains: domain of the clause)."""
    if r.random() > 0.4:
        return None
    K = r.sample(["int", "float", "bool", "Pt"], r.randrange(1, 4))
    dial, conf = {}, {}
    serializing = set()
    # (chains) the replacement type of a key may carry a LATER key of K (or be the overridden type itself: the lookup stops there),
    # and may be a container over later keys: the implementation looks the replacement up again (model: SchemaChain.rchain).
    chain = r.random() < 0.4
    _CHAIN[0] = chain
    for ki, k in enumerate(K):
        for tab in r.sample([dial, conf], r.randrange(1, 3)):
            x = r.random()
            cands = [o for o in OV_RET if o[2] not in K]
            if chain:
                # (/repo PENDING, _overridden_types) also replacements that lead BACK to an overridden key: a key is used once per path
                cands = OV_RET + [(fn, coq, None) for fn, coq, ks in OV_CONT]
            if k == "Pt" or x < 0.55:
                fn, coq, _ = r.choice(cands)
                form = r.choice(["dict", "dict", "cls"]) if fn == "ser_str" else "dict"
                tab[k] = ("StratS()" if form == "cls" else '{"serialize": %s, "deserialize": ser_any}' % fn, coq)
            elif x < 0.7:
                tab[k] = ("pass_through", "OPass")
            elif x < 0.85:
                tab[k] = ('{"deserialize": ser_any}', "ODeser")
            else:
                tab[k] = ('{"serialize": ser_any}', "ORet None")
    # registrations under the ORIGIN class of a parametrised type: since /repo fcaa28c get_overridden_serialization_method looks a
    # strategy up under instance.type and then instance.origin_type (as the serializer does), so `list: ...` overrides every
    # List[..] position of the class; the model: okey / table_ov
    O = r.sample(["list", "dict"], r.choice([0, 0, 1, 2])) if origin_ok else []
    for k in O:
        for tab in r.sample([dial, conf], r.choice([1, 1, 2])):
            tab[k] = r.choice([('{"serialize": ser_str, "deserialize": ser_any}', "ORet (Some TStr)"), ("pass_through", "OPass"),
                               ('{"deserialize": ser_any}', "ODeser"), ('{"serialize": ser_any}', "ORet None")])
    # the winner per key: dialect first, then Config; a table entry without "serialize" is skipped
    for k in K:
        for tab in (dial, conf):
            if k in tab and tab[k][1] != "ODeser":
                if tab[k][1] != "OPass":
                    serializing.add(k)
                break
    return dial, conf, set(K) | set(O), serializing


def ob(b):
    return "None" if b is None else f"(Some {'true' if b else 'false'})"


def m_family(r):
    n = r.randrange(1, 5)
    names = [f"M{i}" for i in range(n)]
    cyclic = r.random() < 0.12
    lines = ["from dataclasses import dataclass, field", "from typing import *", "from mashumaro import field_options",
             "from mashumaro.config import BaseConfig"] + M_PRELUDE
    coq_classes = []
    dvals = []
    refs = {}
    tainted = set()
    for i, nm in enumerate(names):
        avail = names[:i]
        nf = r.randrange(0, 5)
        body, cflds = [], []
        seen_default = False
        refs[nm] = set()
        used_alias = set()
        cfg_aliases = {}
        _CHAIN[0] = False
        tabs = m_tables(r, origin_ok=not cyclic)
        over = tabs[2] if tabs else set()
        _CUR_OVER.clear()
        _CUR_OVER.update(over)
        pt_ok = bool(tabs) and "Pt" in tabs[3]
        ntd = r.random() < 0.3       # Config.namedtuple_as_dict of the owner decides the form of every NamedTuple below it
        for j in range(nf):
            fname = r.choice(["a", "b", "x", "items", "type", "ref"]) + str(j)
            if cyclic and j == 0 and i == n - 1:
                target = r.choice(names)
                t = r.choice([MT(f'Optional["{target}"]', f'TUnion [TClass "{target}"; TNone]', [("None", "JNull")], False, (target,)),
                              MT(f'List["{target}"]', f'TList (TClass "{target}")', None, False, (target,))])
            else:
                t = m_type(r, r.choice([0, 1, 1, 2]), avail, asd=ntd)
                if pt_ok and r.random() < 0.3:
                    py, cq = r.choice([("Pt", 'TOpaque "Pt"'), ("List[Pt]", 'TList (TOpaque "Pt")'), ("Optional[Pt]", 'TUnion [TOpaque "Pt"; TNone]'),
                                       ("Dict[str, Pt]", 'TDict (TOpaque "Pt")'), ("Tuple[Pt, int]", 'TTuple [TOpaque "Pt"; TInt]')])
                    t = MT(py, cq)
                # a NamedTuple with string annotations under a rendered default is a known finding: such a field gets no default
                # (also transitively: a class that contains one cannot sit under a rendered default either)
                def bad(tt):
                    return "N5" in tt.py or any(c in tainted for c in tt.classes)
                for _ in range(20):
                    if not bad(t) or not seen_default:
                        break
                    t = m_type(r, r.choice([0, 1, 1, 2]), avail, asd=ntd)
                if bad(t) and seen_default:
                    t = m_scalar(r)
                if bad(t):
                    tainted.add(nm)
            no_default = "N5" in t.py or any(c in tainted for c in t.classes)
            refs[nm].update(t.classes)
            is_final = r.random() < 0.15
            if is_final:
                t = MT(f"Final[{t.py}]", t.coq, t.default, False, t.classes)
            # alias sources: field metadata, Annotated Alias, Config.aliases (resolved in that order by the model), empty alias
            meta_alias = ann_alias = cfg_alias = None
            final = t.py.startswith("Final[")
            x = r.random()
            if x < 0.2:
                meta_alias = r.choice(["$ref", "$defs", "al" + str(j), "it's", "\u00e9" + str(j), "default", ""])
            if r.random() < 0.15 and not final:
                ann_alias = r.choice(["an" + str(j), "$schema", "type"])
            if r.random() < 0.15:
                cfg_alias = r.choice(["cf" + str(j), "title", ""])
            eff = meta_alias if meta_alias is not None else (ann_alias if ann_alias is not None else (cfg_alias if cfg_alias is not None else fname))
            eff = eff or fname
            if eff in used_alias:
                meta_alias = ann_alias = cfg_alias = None
                eff = fname
            descr = r.choice([None, None, None, "d\u00e9scr 'q'", ""])
            # field-level override: at most one of "serialize" / "serialization_strategy"; its replacement type carries no overridden key
            f_ser = f_strat = None
            if r.random() < 0.18 and not (cyclic and j == 0 and i == n - 1):
                # (field-override-once fix) a field-level option replaces the field's type once: the replacement may be a container,
                # and an unannotated strategy yields Any
                cands = [o for o in OV_RET + [("ser_lstr", "ORet (Some (TList TStr))", "list")] if o[2] not in over]
                if _CHAIN[0] and tabs and not (is_final and "TAnn" in t.coq):
                    # (chains) the replacement of a field-level option is looked up in the tables of the class (never in the field's
                    # options again): any replacement type, also one that carries an overridden key or is the field type itself
                    cands = OV_RET + [(fn, coq, None) for fn, coq, _ in OV_CONT]
                if r.random() < 0.5:
                    f_ser = r.choice([("pass_through", "OPass"), ("str", "OBasic TStr"), ("bool", "OBasic TBool"), ("ser_any", "ORet None")]
                                     + [(fn, coq) for fn, coq, _ in cands])
                    if f_ser[0] in ("str",) and "str" in over:
                        f_ser = ("pass_through", "OPass")
                else:
                    f_strat = r.choice([("pass_through", "OPass"), ('{"deserialize": ser_any}', "ODeser"), ('{"serialize": ser_any}', "ORet None")]
                                       + [('{"serialize": %s}' % fn, coq) for fn, coq, _ in cands])
            passes = (f_ser or f_strat or ("", ""))[1] in ("OPass", "ODeser")
            if 'TOpaque "Pt"' in t.coq and (f_ser or f_strat) and passes and (f_ser or f_strat)[1] == "OPass":
                f_ser = f_strat = None        # pass_through over an uncovered third-party class: NotImplementedError (not generated)
            overridden_here = bool(f_ser or f_strat) or bool(keys_of(t.coq) & over)
            kind = r.random()
            pyd = None
            jd = None
            has_default = False
            if (kind < 0.35 and not no_default) or seen_default:
                has_default = True
                x = r.random()
                if overridden_here:
                    pyd, jd = None, None      # a default rendered through an override is not predicted by the generator: factory only
                elif t.default and x < 0.6:
                    pyd, jd = r.choice(t.default)
                elif x < 0.8:
                    pyd, jd = "None", "JNull"
                else:
                    pyd, jd = None, None      # default_factory: has default, nothing rendered
            seen_default = seen_default or has_default
            init = not (has_default and r.random() < 0.12)
            if init:
                used_alias.add(eff)
            if cfg_alias is not None:
                cfg_aliases[fname] = cfg_alias
            tpy = t.py if ann_alias is None else f"Annotated[{t.py}, Alias({ann_alias!r})]"
            parts = []
            if has_default:
                if pyd is None:
                    fac = "list" if t.py.startswith("List") else ("dict" if t.py.startswith("Dict") else "lambda: None")
                    parts.append(f"default_factory={fac}")
                else:
                    parts.append(f"default={pyd}")
            if not init:
                parts.append("init=False")
            md = {}
            if meta_alias is not None:
                md["alias"] = meta_alias
            if descr is not None:
                md["description"] = descr
            mdsrc = [f"{k!r}: {v!r}" for k, v in md.items()]
            if f_ser:
                mdsrc.append(f"'serialize': {f_ser[0]}")
            if f_strat:
                mdsrc.append(f"'serialization_strategy': {f_strat[0]}")
            if mdsrc:
                parts.append("metadata={" + ", ".join(mdsrc) + "}")
            if parts:
                body.append(f"    {fname}: {tpy} = field({', '.join(parts)})")
            else:
                body.append(f"    {fname}: {tpy}")
            oq = lambda v: "None" if v is None else f"(Some {coq_str(v)})"
            rdef = "RNone" if not has_default else (f"(RDefault ({jd}))" if jd is not None else "RFactory")
            if has_default and jd is not None and t.dom:
                # inside the default-rendering clause: the model gets the VALUE and renders it itself
                pvt = ("Core.VTuple [" + jd[len("TUPLE:"):] + "]") if jd.startswith("TUPLE:") else pv_of_default(pyd, jd, t.coq)
                dvals.append(f"({coq_str(nm)}, ({coq_str(fname)}, {pvt}))")
                rdef = "RFactory"
            elif jd is not None and jd.startswith("TUPLE:"):
                raise AssertionError("tuple default outside the domain")
            cflds.append(f"mkrfld {coq_str(fname)} {oq(meta_alias)} {oq(ann_alias)} ({t.coq}) {'true' if is_final else 'false'} {'true' if init else 'false'} {rdef} {oq(descr)} "
                         + (f"(Some ({f_ser[1]}))" if f_ser else "None") + " " + (f"(Some ({f_strat[1]}))" if f_strat else "None"))
        cfg = [f"        {o} = True" for o in ("omit_default", "serialize_by_alias") if r.random() < 0.3]
        cfg_omit = r.choice([None, None, True, True, False])
        dial_omit = r.choice([None, None, None, True, False])
        if cfg_omit is not None:
            cfg.append(f"        omit_none = {cfg_omit}")
        if ntd:
            cfg.append("        namedtuple_as_dict = True")
        if cfg_aliases:
            cfg.append("        aliases = " + repr(cfg_aliases))
        dial_coq = conf_coq = "[]"
        if not tabs:
            if dial_omit is not None:
                lines.append(f"class D{nm}(Dialect):\n    omit_none = {dial_omit}")
                cfg.append(f"        dialect = D{nm}")
        if tabs:
            dial, conf = tabs[0], tabs[1]
            if dial:
                lines.append(f"class D{nm}(Dialect):")
                if dial_omit is not None:
                    lines.append(f"    omit_none = {dial_omit}")
                lines.append("    serialization_strategy = {" + ", ".join(f"{PYKEY[k]}: {v[0]}" for k, v in dial.items()) + "}")
                cfg.append(f"        dialect = D{nm}")
                dial_coq = "[" + "; ".join(f'("{k}", {v[1]})' for k, v in dial.items()) + "]"
            else:
                dial_omit = None
            if conf:
                cfg.append("        serialization_strategy = {" + ", ".join(f"{PYKEY[k]}: {v[0]}" for k, v in conf.items()) + "}")
                conf_coq = "[" + "; ".join(f'("{k}", {v[1]})' for k, v in conf.items()) + "]"
        if cfg:
            body.append("    class Config(BaseConfig):")
            body.extend(cfg)
        if not body:
            body.append("    pass")
        lines.append("@dataclass")
        lines.append(f"class {nm}:")
        lines.extend(body)
        coq_classes.append(f'("{nm}", mkrcls [' + "; ".join(f"({coq_str(k)}, {coq_str(v)})" for k, v in cfg_aliases.items()) + "] " + ob(dial_omit) + " " + ob(cfg_omit) + " " + dial_coq + " " + conf_coq + " ["
                           + "; ".join(cflds) + "])")

    def reach_cyclic(root_classes):
        seen, stack = set(), list(root_classes)
        while stack:
            c = stack.pop()
            if c in seen:
                continue
            seen.add(c)
            stack.extend(refs.get(c, ()))
        color = {}

        def dfs(c):
            color[c] = 1
            for d in refs.get(c, ()):
                if color.get(d) == 1 or (color.get(d, 0) == 0 and dfs(d)):
                    return True
            color[c] = 2
            return False
        return any(color.get(c, 0) == 0 and dfs(c) for c in sorted(seen))
    return "\n".join(lines) + "\n", "[" + "; ".join(coq_classes) + "], (" + ENUM_TAB + ", [" + "; ".join(dvals) + "])", names, reach_cyclic


def m_cases(ctx: vlib.Ctx, n: int):
    from mashumaro.jsonschema import JSONSchemaBuilder, build_json_schema
    from mashumaro.jsonschema import dialects as jd
    from mashumaro.jsonschema.models import Context
    r = ctx.rng
    cases, descr = [], []
    real_docs = ctx.coverage.setdefault("_real_docs", [])
    tries = 0
    while len(cases) < n and tries < 4 * n:
        tries += 1
        src, coqE, names, reach_cyclic = m_family(r)
        builder = r.random() < 0.4
        D = r.choice(["DRAFT_2020_12", "OPEN_API_3_1"] if builder else [None, "DRAFT_2020_12", "OPEN_API_3_1"])
        ar = r.choice([None, True, False, True])
        p = r.choice(PREFIXES)
        wd = False if builder else r.choice([True, False])
        wu = False if builder else r.choice([False, True])
        pctx = None
        if not builder and r.random() < 0.4:
            pctx = (r.choice(["DRAFT_2020_12", "OPEN_API_3_1"]), r.choice([None, True, False, True]),
                    r.choice([None, "#/q", "#/q/", "#/components/responses", "x"]))
        roots = []
        _CUR_OVER.clear()
        for _ in range(r.randrange(2, 5) if builder else 1):
            t = m_type(r, r.choice([0, 0, 1, 2]), names) if r.random() < 0.35 else None
            if t is None or not t.classes:
                c = r.choice(names)
                t = MT(c, f'TClass "{c}"', None, False, (c,))
            roots.append(t)
        try:
            mod = _module(src)
        except Exception:
            continue
        kw = {}
        if D is not None:
            kw["dialect"] = getattr(jd, D)
        if ar is not None:
            kw["all_refs"] = ar
        if p is not None:
            kw["ref_prefix"] = p
        exp_docs, exp_defs, exp_rec = [], [], False
        try:
            with warnings.catch_warnings():
                warnings.simplefilter("ignore")
                pytypes = [eval(t.py, mod.__dict__) for t in roots]
                if builder:
                    b = JSONSchemaBuilder(**kw)
                    for pt in pytypes:
                        real_docs.append(b.build(pt).to_dict())
                        exp_docs.append(canon(real_docs[-1]))
                    exp_defs = [(k, canon(v.to_dict())) for k, v in b.context.definitions.items()]
                    real_docs.extend(v.to_dict() for v in b.context.definitions.values())
                else:
                    c = Context() if pctx is None else Context(dialect=getattr(jd, pctx[0]), all_refs=pctx[1], ref_prefix=pctx[2])
                    doc = build_json_schema(pytypes[0], context=c, with_definitions=wd, with_dialect_uri=wu, **kw).to_dict()
                    exp_docs = [canon(doc)]
                    real_docs.append(doc)
                    exp_defs = [(k, canon(v.to_dict())) for k, v in c.definitions.items()]
        except RecursionError:
            exp_rec = True
            exp_docs, exp_defs = [], []
        except Exception as e:
            # the model is total on these tables (C20_total) and diverges only on cyclic ones: any other exception of the
            # implementation is a disagreement (expected text that no model output can equal)
            ctx.hist("corr_impl_exception", type(e).__name__)
            exp_docs, exp_defs = [f"EXC {type(e).__name__}: {str(e)[:80]}".encode()], []
        sys.modules.pop(mod.__name__, None)
        ctx.hist("corr_shape", ("builder" if builder else "single") + ("/rec" if exp_rec else "") + (f"/all_refs={ar}"))
        pctx_term = "KNone" if pctx is None else f"(mk_ctx {pctx[0]} {kv_opt_bool(pctx[1])} {kv_opt_str(pctx[2])})"
        case = (f"({coqE}, {pctx_term}, ({kv_opt_bool(ar)}, {kv_dialect(D)}, {kv_opt_str(p)}), ({'true' if wd else 'false'}, {'true' if wu else 'false'}), "
                f"{'true' if builder else 'false'}, [" + "; ".join(t.coq for t in roots) + "], "
                "[" + "; ".join(coq_str(d) for d in exp_docs) + "], "
                "[" + "; ".join(f"({coq_str(k)}, {coq_str(v)})" for k, v in exp_defs) + "], "
                f"{'true' if exp_rec else 'false'})")
        cases.append(case)
        descr.append({"source": src, "roots": [t.py for t in roots], "builder": builder, "dialect": D, "all_refs": ar, "ref_prefix": p, "passed_context": pctx,
                      "with_definitions": wd, "with_dialect_uri": wu, "expected_recursion": exp_rec,
                      "expected_docs": [d.decode("utf-8", "replace") for d in exp_docs]})
    return cases, descr


def _bad_idx(*a, **kw):
    """vlib.coq_bad_idx, run a second time when Coq did not answer at all (no `Error` in its output: the coqc process was killed,
    e.g. by the machine's OOM killer, or hit its timeout under load).  A mismatch is a list of indices, never None: a retry cannot
    hide one; a model that does not build reports its Coq error and is not retried."""
    bad, log = vlib.coq_bad_idx(*a, **kw)
    if bad is None and "Error" not in (log or ""):
        time.sleep(5)
        bad, log2 = vlib.coq_bad_idx(*a, **kw)
        log = (log or "") + "\n[retried once after an empty / killed coqc]\n" + (log2 or "")
    return bad, log


def coq_part(ctx: vlib.Ctx):
    br = ctx.theorems("props/C20_schema.vo", THEOREMS + RT_THEOREMS + ["C20_override_noop", "C20_override_covered", "C20_override_origin_key", "C20_chain_mono", "C20_chain_total_partial", "C20_chain_total", "C20_chain_v_mono", "C20_chain_agrees_flat", "C20_chain_covered", "C20_default_value_is_ref_enc", "C20_default_prerendered", "C20_default_scalars"], kernels=["K9"])
    if br.ok and not ctx.quick():
        rc, out, _ = vlib.run(["timeout", "900", "coqchk", "-silent", "-o"] + vlib.COQ_FLAGS[:9] + ["VerifProps.C20_schema"],
                              cwd=vlib.COQ, timeout=930)
        tail = out[out.find("CONTEXT SUMMARY"):] if "CONTEXT SUMMARY" in out else out[-800:]
        axioms = tail[tail.find("* Axioms:"):].split("*")[1].strip() if "* Axioms:" in tail else "?"
        ok = rc == 0 and axioms.replace("Axioms:", "").strip() == "<none>"
        ctx.obligation("coqchk -o VerifProps.C20_schema (no axioms)", ok, tail[-600:])
        ctx.trusted.append("coqchk -o on VerifProps.C20_schema: " + " ".join(axioms.split()))
        if not ok:
            ctx.not_shown("coqchk VerifProps.C20_schema", out[-1200:])
    ctx.trusted.append("tools/kernels/k9_builder_ctx.py (K9 translator plugin: slices of build_json_schema / JSONSchemaBuilder.__init__ / "
                       "on_dataclass, structure-checked) and coq/theories/PyK_schema.v (str.rstrip('/'), f-string concatenation)")
    ctx.trusted.append("SchemaGen model grammar (scalars, List/Set/Dict[str,.]/Tuple/Union/Optional/dataclass with aliases and rendered "
                       "defaults); everything else of the schema grammar is exercised by the oracle only")
    ctx.assumptions.append("C20_refs_closed/C20_wf: aliases of one class pairwise distinct (tab_nodup); C20_total: the class table has a "
                           "rank (acyclic, closed) and unions are non-empty; JSONSchema.from_dict/to_dict round trip is NOT modelled "
                           "(checked by the oracle on the real implementation only)")
    k9ok = ctx.kernel_report.get("K9", {}).get("ok")
    if not k9ok:
        ctx.not_shown("translation K9", str(ctx.kernel_report.get("K9", {}).get("error")))
        return
    # (T) validation
    cases, descr = k9_cases(ctx, ctx.budget(700, 1500))
    bad, log = _bad_idx(f"c20_k9_{ctx.seed}_{os.getpid()}", "PyK_schema SchemaGen K9Proofs SchemaCorr", "From VerifGen Require Import K9.", "", cases,
                                "k9_ok", "k9case", shard=300, needs=["theories/SchemaCorr.vo"])
    if bad is None:
        ctx.correspondence("K9-translation-vs-python", len(cases), -1, log)
        ctx.not_shown("translation validation K9", log)
    else:
        ctx.correspondence("K9-translation-vs-python", len(cases), len(bad), str([descr[i] for i in bad[:5]]))
        if bad:
            ctx.not_shown("translation validation K9", str([descr[i] for i in bad[:5]]))
    ctx.count(n=len(cases))
    # (M) model vs implementation
    cases, descr = m_cases(ctx, ctx.budget(250, 2500))
    bad, log = _bad_idx(f"c20_model_{ctx.seed}_{os.getpid()}", "PyK_schema SchemaGen K9Proofs SchemaCorr", "From VerifGen Require Import K9.", "", cases,
                                "corr_ok", "mcase", shard=125, needs=["theories/SchemaCorr.vo"])
    if bad is None:
        ctx.correspondence("schema-model-vs-build_json_schema", len(cases), -1, log)
        ctx.not_shown("correspondence schema-model-vs-build_json_schema", log)
    else:
        ctx.correspondence("schema-model-vs-build_json_schema", len(cases), len(bad), str([descr[i] for i in bad[:3]])[:2800])
        if bad:
            ctx.not_shown("correspondence schema-model-vs-build_json_schema", str([descr[i] for i in bad[:3]])[:2800])
        # how many of these cases lie outside the one-step fragment of overridden serialization (chains of replacements)
        chained, _ = _bad_idx(f"c20_model_{ctx.seed}_{os.getpid()}_ch", "PyK_schema SchemaGen K9Proofs SchemaCorr", "From VerifGen Require Import K9.", "",
                                      cases, "fun c => negb (corr_chained c)", "mcase", shard=125, needs=["theories/SchemaCorr.vo"])
        ctx.notes.append(f"model correspondence: {len(chained) if chained is not None else '?'} of {len(cases)} class tables with a chain of replacements "
                         "(a replacement type that carries an overridden key); the others are checked against BOTH digests (one-step and chain)")
        ctx.hist("model_override", "chained", len(chained or []))
        ctx.hist("model_override", "one-step-or-none", len(cases) - len(chained or []))
    ctx.count(n=len(cases))
    for fn in os.listdir(vlib.CASES):
        if fn.startswith((f"c20_k9_{ctx.seed}_{os.getpid()}", f"c20_model_{ctx.seed}_{os.getpid()}", f".c20_k9_{ctx.seed}_{os.getpid()}", f".c20_model_{ctx.seed}_{os.getpid()}")):
            try:
                os.remove(os.path.join(vlib.CASES, fn))
            except OSError:
                pass
    # (M) round trip model vs JSONSchema.from_dict(d).to_dict()
    real_docs = ctx.coverage.pop("_real_docs", [])
    rcases, rdescr = rt_cases(ctx, real_docs[: ctx.budget(300, 2000)], ctx.budget(400, 3000))
    rname = f"c20_rt_{ctx.seed}_{os.getpid()}"
    rbad, rlog = _bad_idx(rname, "PyK_schema SchemaGen K9Proofs SchemaRoundtrip SchemaCorr", "From VerifGen Require Import K9.", "", rcases,
                                  "rt_ok", "js * string", shard=250, needs=["theories/SchemaCorr.vo"])
    if rbad is None:
        ctx.correspondence("roundtrip-model-vs-JSONSchema", len(rcases), -1, rlog)
        ctx.not_shown("correspondence roundtrip-model-vs-JSONSchema", rlog)
    else:
        ctx.correspondence("roundtrip-model-vs-JSONSchema", len(rcases), len(rbad), str([rdescr[i] for i in rbad[:4]])[:2500])
        if rbad:
            ctx.not_shown("correspondence roundtrip-model-vs-JSONSchema", str([rdescr[i] for i in rbad[:4]])[:2500])
        out, _ = _bad_idx(rname + "o", "PyK_schema SchemaGen K9Proofs SchemaRoundtrip SchemaCorr", "From VerifGen Require Import K9.", "", rcases,
                                  "rt_out", "js * string", shard=250, needs=["theories/SchemaCorr.vo"])
        ctx.notes.append(f"round trip correspondence: {len(rcases)} documents ({min(len(real_docs), ctx.budget(300, 2000))} emitted by the implementation), "
                         f"{len(out or [])} outside the modelled value domain (no claim), {sum(1 for d in rdescr if d['expected'] == 'ERR')} with from_dict raising")
    ctx.count(n=len(rcases))
    for fn in os.listdir(vlib.CASES):
        if fn.startswith((rname, "." + rname)):
            try:
                os.remove(os.path.join(vlib.CASES, fn))
            except OSError:
                pass
    nrec = sum(1 for d in descr if d["expected_recursion"])
    ctx.notes.append(f"model correspondence: {len(cases)} cases, {nrec} with RecursionError <-> SFuel, "
                     f"{sum(1 for d in descr if d['builder'])} builder sequences")
    if descr:
        ctx.sample({"corr_case": {k: v for k, v in descr[0].items() if k != "expected_docs"}})
