"""C10 - the most specific customization wins.

1. theorems  props/C10_precedence.vo (+ C10_single.vo) over the kernel K5 translated from /repo on this run
2. (T) validation: the translated functions vs the Python originals on sampled raw tables
3. (M) real classes / codecs with tagged strategies at sampled (thorough: all) subsets of
   levels x keys, both directions, mixin / format mixin / codecs; the observed marker list is
   compared inside Coq (vm_compute) with the model (`applied`, built on `resolve`) and with
   the translated kernel
4. direct oracle: the same observations against an independent Python reading of the
   property text (lexicographic minimum of the enabled slots); always runs.
"""
from __future__ import annotations

import itertools
import json
import multiprocessing
import os
import sys
import types

from harness import vlib

LEVELS = ["call", "cfgd", "cfg", "dflt"]
KEYS = ["ann", "ex", "or"]
ENTRY_LEVELS = {"mixin": ["call", "cfgd", "cfg"], "mixin_fmt": ["call", "cfgd", "cfg", "dflt"],
                "codec_dc": ["cfgd", "cfg", "dflt"], "codec_bare": ["dflt"],
                # the library's own format mixin: its format dialect (MessagePackDialect) registers bytes -> pass_through
                "mixin_msgpack": ["call", "cfgd", "cfg", "dflt"]}
TABLE_VARIANTS = ["both", "ser", "de", "pt", "ptser", "ptde", "strat", "astrat"]
F1_VARIANTS = ["both", "ser", "de", "pt"]
F2_VARIANTS = ["strat", "astrat", "pt"]
TKINDS = {
    "list": {"ex": "List[int]", "or": "list", "value": "[1, 2]", "wire": '["1", "2"]', "builtin": "[1, 2]"},
    "dict": {"ex": "Dict[str, int]", "or": "dict", "value": '{"a": 1}', "wire": '{"a": "1"}', "builtin": '{"a": 1}'},
    "date": {"ex": "datetime.date", "or": None, "value": "datetime.date(2020, 1, 2)", "wire": '"2020-01-02"',
             "builtin": '"2020-01-02"'},
    # only with mixin_msgpack (the format dialect always passes bytes through, so the built-in rendering never shows)
    # types taken by handlers registered right after the overridden-(de)serialization handler: a dataclass and a
    # SerializableType (round 6: that the customization is asked BEFORE those built-in handlers is observable here)
    "dc": {"ex": "InnerDC", "or": None, "value": "InnerDC(1)", "wire": '{"a": 1}', "builtin": '{"a": 1}'},
    "sertype": {"ex": "SerT", "or": None, "value": "SerT(1)", "wire": '["st", 1]', "builtin": '["st", 1]'},
    "bytes": {"ex": "bytes", "or": None, "value": 'b"ab"', "wire": 'b"ab"', "builtin": '"YWI=\\n"'},
}


# ---------------------------------------------------------------------------------------
# cases
# ---------------------------------------------------------------------------------------

def order_of_property():
    """The documented precedence, written from the property text: field option, field strategy,
    then type key specificity (alias, exact, origin) and, for one key, call dialect,
    Config.dialect, Config.serialization_strategy, format/default dialect."""
    return ["F1", "F2"] + [f"{lvl}.{key}" for key in KEYS for lvl in LEVELS]


def available_slots(entry: str, alias: str, tkind: str) -> list[str]:
    keys = [k for k in KEYS if not (k == "ann" and alias in ("none", "unhashable")) and not (k == "or" and TKINDS[tkind]["or"] is None)]
    out = [] if entry == "codec_bare" else ["F1", "F2"]
    out += [f"{lvl}.{key}" for lvl in ENTRY_LEVELS[entry] for key in keys if not (entry == "mixin_msgpack" and lvl == "dflt")]
    return out


def variants_for(slot: str) -> list[str]:
    return F1_VARIANTS if slot == "F1" else F2_VARIANTS if slot == "F2" else TABLE_VARIANTS


def pick_variant(rng, slot: str) -> str:
    vs = variants_for(slot)
    return rng.choice(vs)


def gen_case(rng, entry=None, alias=None, tkind=None, present=None, shape=None) -> dict:
    entry = entry or rng.choices(list(ENTRY_LEVELS), weights=[22, 32, 22, 12, 12])[0]
    # "unhashable": Annotated alias whose metadata is a list - it cannot be a table key and the code must skip it
    alias = alias or rng.choices(["annotated", "newtype", "none", "unhashable"], weights=[55, 22, 13, 10])[0]
    tkind = tkind or rng.choices(["list", "dict", "date", "dc", "sertype"], weights=[44, 20, 20, 10, 6])[0]
    if entry == "mixin_msgpack":
        tkind = "bytes"
    av = available_slots(entry, alias, tkind)
    if present is None:
        p = rng.choice([0.12, 0.25, 0.4, 0.6, 0.85])
        # the two field slots beat everything: keep them rarer so that table slots get to win
        present = [s for s in av if rng.random() < (min(p, 0.2) if s in ("F1", "F2") else p)]
    slots = {s: pick_variant(rng, s) for s in present}
    if entry == "mixin_msgpack":
        slots["dflt.ex"] = "pt"      # MessagePackDialect.serialization_strategy[bytes] is pass_through
    # a level without registrations: dialect absent, or present with an unrelated table
    empty = {lvl: rng.choice(["absent", "unrelated"]) for lvl in ENTRY_LEVELS[entry]}
    return {"entry": entry, "alias": alias, "tkind": tkind, "slots": slots, "empty": empty,
            "dialect_support": bool(rng.random() < 0.5), "shape": gen_shape(rng, entry) if shape is None else shape}


DEFAULT_SHAPE = {"decl": "own", "generic": "plain", "position": "top", "config_at": "own", "config_style": "base",
                 "decoy": "none", "target": "subclass"}


def gen_shape(rng, entry: str) -> dict:
    """Dimensions that must not change the resolution (the model does not mention them):
    decl      where the field (with its options) is declared: in the class itself, in a base class and
              inherited, or re-declared (in a middle class / in the class itself) over a base declaration that
              carries other ("decoy") options;
    generic   the field type is written directly, or through a TypeVar of a generic dataclass that is
              specialised (alias key = the *specialised* Annotated alias);
    position  the field is observed on the object passed to the call, on a Self-typed child (Optional[Self],
              List[Self]) or on a nested dataclass - the call dialect and the format dialect must reach it;
    config_at / config_style   Config on the class itself or inherited; subclass of BaseConfig or a plain class."""
    if entry == "codec_bare":
        return dict(DEFAULT_SHAPE)
    sh = dict(DEFAULT_SHAPE)
    sh["decl"] = rng.choices(["own", "inherit", "redeclare_mid", "redeclare_leaf"], weights=[45, 15, 25, 15])[0]
    if sh["decl"] == "own" and rng.random() < 0.4:
        sh["generic"] = "typevar"
        sh["target"] = rng.choice(["subclass", "alias"]) if entry == "codec_dc" else "subclass"
    sh["position"] = rng.choices(["top", "self_opt", "self_list", "inner"], weights=[50, 18, 12, 20])[0]
    sh["config_at"] = rng.choice(["own", "own", "parent"]) if (sh["decl"] != "own" or sh["generic"] == "typevar") else "own"
    sh["config_style"] = rng.choice(["base", "base", "plain"])
    sh["decoy"] = rng.choice(["f1", "f2", "both"]) if sh["decl"].startswith("redeclare") else "none"
    return sh


def effective(variant: str, d: str) -> bool:
    if variant == "ser":
        return d == "ser"
    if variant == "de":
        return d == "de"
    return True


def is_pass(variant: str, d: str) -> bool:
    return variant == "pt" or (variant == "ptser" and d == "ser") or (variant == "ptde" and d == "de")


def oracle_winner(case: dict, d: str):
    for s in order_of_property():
        v = case["slots"].get(s)
        if v is not None and effective(v, d):
            return s
    return None


def oracle_expected(case: dict, d: str) -> dict:
    w = oracle_winner(case, d)
    if w is None:
        return {"layers": [], "base": "builtin"}
    if is_pass(case["slots"][w], d):
        return {"layers": [], "base": "pass"}
    return {"layers": [w], "base": "pass"}


# ---------------------------------------------------------------------------------------
# materialisation as Python source
# ---------------------------------------------------------------------------------------

PRELUDE = '''
import datetime, decimal, sys
from dataclasses import dataclass, field
from typing import Annotated, Any, Dict, Generic, List, NamedTuple, NewType, Optional, Self, Tuple, TypedDict, TypeVar, Union
from mashumaro import DataClassDictMixin, pass_through
from mashumaro.config import BaseConfig, ADD_DIALECT_SUPPORT
from mashumaro.dialect import Dialect
from mashumaro.types import SerializableType, SerializationStrategy
from mashumaro.codecs.basic import BasicEncoder, BasicDecoder

def S(tag):
    def ser(v):
        return ["S", tag, v]
    return ser

def D(tag):
    def de(v):
        return ("D", tag, v)
    return de

class Strat(SerializationStrategy):
    def __init__(self, tag):
        self.tag = tag
    def serialize(self, value):
        return ["S", self.tag, value]
    def deserialize(self, value):
        return ("D", self.tag, value)

class AStrat(SerializationStrategy, use_annotations=True):
    def __init__(self, tag):
        self.tag = tag
    def serialize(self, value):
        return ["S", self.tag, value]
    def deserialize(self, value):
        return ("D", self.tag, value)

def ident(x):
    return x

@dataclass
class InnerDC(DataClassDictMixin):
    a: int = 1

class SerT(SerializableType):
    def __init__(self, v):
        self.v = v
    def __eq__(self, other):
        return type(other) is SerT and other.v == self.v
    __hash__ = None
    def _serialize(self):
        return ["st", self.v]
    @classmethod
    def _deserialize(cls, value):
        return cls(value[1])

def errname(e):
    # a RecursionError raised while a nested class is compiled at call time arrives wrapped (InvalidFieldValue ...)
    seen = 0
    x = e
    while x is not None and seen < 50:
        if isinstance(x, RecursionError):
            return "RecursionError"
        x = x.__cause__ or x.__context__
        seen += 1
    return type(e).__name__ + ": " + str(e)[:200]

def observe(d, out, original, builtin):
    layers = []
    if d == "ser":
        while isinstance(out, list) and len(out) == 3 and out[0] == "S" and isinstance(out[1], str):
            layers.insert(0, out[1]); out = out[2]    # resolution order = innermost first
    else:
        while isinstance(out, tuple) and len(out) == 3 and out[0] == "D" and isinstance(out[1], str):
            layers.append(out[1]); out = out[2]
    if out is original:
        base = "pass"
    elif type(out) is type(builtin) and out == builtin:
        base = "builtin"
    else:
        base = "other:" + repr(out)[:80]
    return {"layers": layers, "base": base}
'''


def variant_expr(variant: str, tag: str) -> str:
    return {
        "both": f'{{"serialize": S("{tag}"), "deserialize": D("{tag}")}}',
        "ser": f'{{"serialize": S("{tag}")}}',
        "de": f'{{"deserialize": D("{tag}")}}',
        "pt": "pass_through",
        "ptser": f'{{"serialize": pass_through, "deserialize": D("{tag}")}}',
        "ptde": f'{{"serialize": S("{tag}"), "deserialize": pass_through}}',
        "strat": f'Strat("{tag}")',
        "astrat": f'AStrat("{tag}")',
    }[variant]


def build_source(case: dict) -> str:
    tk = TKINDS[case["tkind"]]
    entry, alias, slots = case["entry"], case["alias"], case["slots"]
    L = [PRELUDE, f"EX = {tk['ex']}"]
    if tk["or"]:
        L.append(f"OR = {tk['or']}")
    if alias == "annotated":
        L.append('ALIAS = Annotated[EX, "m"]')
    elif alias == "newtype":
        L.append('ALIAS = NewType("ALIAS", EX)')
    elif alias == "unhashable":
        L.append('ALIAS = Annotated[EX, ["m"]]')
    L.append("FT = " + ("EX" if alias == "none" else "ALIAS"))
    keyname = {"ann": "ALIAS", "ex": "EX", "or": "OR"}

    def table(lvl):
        ents = [f"{keyname[k]}: {variant_expr(slots[f'{lvl}.{k}'], f'{lvl}.{k}')}" for k in KEYS if f"{lvl}.{k}" in slots]
        if not ents and case["empty"].get(lvl) == "unrelated":
            ents = ['complex: {"serialize": S("unrelated"), "deserialize": D("unrelated")}']
        return ents

    has = {}
    for lvl, cname in (("call", "CallD"), ("cfgd", "CfgD"), ("dflt", "DfltD")):
        if lvl not in ENTRY_LEVELS[entry] or (entry == "mixin_msgpack" and lvl == "dflt"):
            has[lvl] = False
            continue
        ents = table(lvl)
        has[lvl] = bool(ents)
        if ents:
            L.append(f"class {cname}(Dialect):\n    serialization_strategy = {{{', '.join(ents)}}}")
    # field metadata
    md = []
    f1 = slots.get("F1")
    if f1 in ("both", "ser"):
        md.append('"serialize": S("F1")')
    if f1 in ("both", "de"):
        md.append('"deserialize": D("F1")')
    if f1 == "pt":
        md += ['"serialize": pass_through', '"deserialize": pass_through']
    if "F2" in slots:
        md.append('"serialization_strategy": ' + variant_expr(slots["F2"], "F2"))
    L.append(f"VALUE = {tk['value']}\nWIRE = {tk['wire']}\nBUILTIN_SER = {tk['builtin']}\nBUILTIN_DE = {tk['value']}")
    if entry != "codec_bare":
        if entry == "mixin":
            base = "DataClassDictMixin"
        elif entry == "mixin_fmt":
            dd = "DfltD" if has["dflt"] else "None"
            L.append(
                "class FmtMixin(DataClassDictMixin):\n    __slots__ = ()\n"
                f"    __mashumaro_builder_params = {{'packer': {{'format_name': 'fmt', 'dialect': {dd}, 'encoder': ident}},\n"
                f"                                  'unpacker': {{'format_name': 'fmt', 'dialect': {dd}, 'decoder': ident}}}}\n"
                "    def to_fmt(self, encoder=ident, **kw): ...\n"
                "    @classmethod\n    def from_fmt(cls, data, decoder=ident, **kw): ...")
            base = "FmtMixin"
        elif entry == "mixin_msgpack":
            L.append("from mashumaro.mixins.msgpack import DataClassMessagePackMixin")
            base = "DataClassMessagePackMixin"
        else:
            base = ""
        sh = {**DEFAULT_SHAPE, **case.get("shape", {})}
        mixin = entry in ("mixin", "mixin_fmt", "mixin_msgpack")
        dsupport = mixin and (has["call"] or case.get("dialect_support"))
        cfg = []
        if dsupport:
            cfg.append("code_generation_options = [ADD_DIALECT_SUPPORT]")
        if has["cfgd"]:
            cfg.append("dialect = CfgD")
        ents = table("cfg")
        if ents:
            cfg.append(f"serialization_strategy = {{{', '.join(ents)}}}")
        cfg_base = "(BaseConfig)" if sh["config_style"] == "base" else ""

        def cfg_lines(ind):
            return [ind + f"class Config{cfg_base}:"] + [ind + "    " + c for c in cfg] if cfg else []

        typevar = sh["generic"] == "typevar"
        if typevar:
            L.append('T = TypeVar("T")')
            tdecl = {"annotated": 'Annotated[T, "m"]', "unhashable": 'Annotated[T, ["m"]]'}.get(alias, "T")
            bind = "ALIAS" if alias == "newtype" else "EX"
        else:
            tdecl = "FT"
        decoy = []
        if sh["decoy"] in ("f1", "both"):
            decoy += ['"serialize": S("decoyF1")', '"deserialize": D("decoyF1")']
        if sh["decoy"] in ("f2", "both"):
            decoy.append('"serialization_strategy": Strat("decoyF2")')
        real_field = f"x: {tdecl} = field(metadata={{{', '.join(md)}}})"
        decoy_field = f"x: {tdecl} = field(metadata={{{', '.join(decoy)}}})"
        # the container of the Self children must not itself be a registered key (list is the origin key of List[int])
        kids = "kids: Tuple[Self, ...] = ()" if case["tkind"] == "list" else "kids: List[Self] = field(default_factory=list)"
        extra = {"self_opt": ["nxt: Optional[Self] = None"], "self_list": [kids]}.get(sh["position"], [])
        bases = lambda *b: "(" + ", ".join(x for x in b if x) + ")" if any(b) else ""  # noqa: E731
        # chain of classes: (header, body lines, carries Config?)
        chain = []
        parent_cfg = sh["config_at"] == "parent"
        if typevar:
            chain.append((f"class Box{bases('Generic[T]', base)}:", [real_field] + extra, parent_cfg))
            if sh["target"] == "subclass":
                chain.append(("class DC(Box[" + bind + "]):", [], not parent_cfg))
                target, ctor = "DC", "DC"
            else:
                chain[0] = (chain[0][0], chain[0][1], True)
                target, ctor = "Box[" + bind + "]", "Box"
        elif sh["decl"] == "own":
            chain.append((f"class DC{bases(base)}:", [real_field] + extra, True))
        elif sh["decl"] == "inherit":
            chain.append((f"class Base{bases(base)}:", [real_field] + extra, parent_cfg))
            chain.append(("class DC(Base):", [], not parent_cfg))
        elif sh["decl"] == "redeclare_mid":
            chain.append((f"class Base{bases(base)}:", [decoy_field], False))
            chain.append(("class Middle(Base):", [real_field] + extra, parent_cfg))
            chain.append(("class DC(Middle):", [], not parent_cfg))
        else:  # redeclare_leaf
            chain.append((f"class Base{bases(base)}:", [decoy_field], parent_cfg))
            chain.append(("class DC(Base):", [real_field] + extra, not parent_cfg))
        if not typevar:
            target, ctor = "DC", "DC"
        # module-level classes (a nested dataclass is referred to by name), creation errors are recorded
        M = ["CLASS_ERROR = None", "try:"]
        for header, body, with_cfg in chain:
            M.append("    @dataclass")
            M.append("    " + header)
            lines = ["        " + b for b in body] + (cfg_lines("        ") if with_cfg else [])
            M += lines or ["        pass"]
        if sh["position"] == "inner":
            M.append(f"    Target = {target}")
            M.append("    @dataclass")
            M.append(f"    class Outer{bases(base)}:")
            M.append("        inner: Target")
            if dsupport:
                M += [f"        class Config{cfg_base}:", "            code_generation_options = [ADD_DIALECT_SUPPORT]"]
            M.append(f"    TOP, CT = Outer, {ctor}")
        else:
            M.append(f"    TOP, CT = {target}, {ctor}")
        M += ["except RecursionError:", "    CLASS_ERROR = 'RecursionError'", "except Exception as e:",
              "    CLASS_ERROR = errname(e)"]
        L.append("\n".join(M))
        L.append(f"VALUE0 = {tk['value']}\nWIRE0 = {tk['wire']}")
        pos = sh["position"]
        obj = {"top": "CT(VALUE)", "self_opt": "CT(VALUE0, CT(VALUE))", "self_list": "CT(VALUE0, (CT(VALUE),))",
               "inner": "TOP(CT(VALUE))"}[pos]
        wire = {"top": "{'x': WIRE}", "self_opt": "{'x': WIRE0, 'nxt': {'x': WIRE}}",
                "self_list": "{'x': WIRE0, 'kids': [{'x': WIRE}]}", "inner": "{'inner': {'x': WIRE}}"}[pos]
        sel_ser = {"top": "['x']", "self_opt": "['nxt']['x']", "self_list": "['kids'][0]['x']", "inner": "['inner']['x']"}[pos]
        sel_de = {"top": ".x", "self_opt": ".nxt.x", "self_list": ".kids[0].x", "inner": ".inner.x"}[pos]
    kw = "dialect=CallD" if has.get("call") else ""
    ckw = ", " + kw if kw else ""
    if entry == "mixin":
        ser = f"{obj}.to_dict({kw}){sel_ser}"
        de = f"TOP.from_dict({wire}{ckw}){sel_de}"
    elif entry == "mixin_fmt":
        ser = f"{obj}.to_fmt({kw}){sel_ser}"
        de = f"TOP.from_fmt({wire}{ckw}){sel_de}"
    elif entry == "mixin_msgpack":
        ser = f"{obj}.to_msgpack(encoder=ident{ckw}){sel_ser}"
        de = f"TOP.from_msgpack({wire}, decoder=ident{ckw}){sel_de}"
    elif entry == "codec_dc":
        dd = "DfltD" if has["dflt"] else "None"
        ser = f"BasicEncoder(TOP, default_dialect={dd}).encode({obj}){sel_ser}"
        de = f"BasicDecoder(TOP, default_dialect={dd}).decode({wire}){sel_de}"
    else:
        dd = "DfltD" if has["dflt"] else "None"
        ser = f"BasicEncoder(FT, default_dialect={dd}).encode(VALUE)"
        de = f"BasicDecoder(FT, default_dialect={dd}).decode(WIRE)"
    L.append(
        "def run():\n    res = {}\n"
        + ("    if CLASS_ERROR:\n        return {'class_error': CLASS_ERROR}\n" if entry != "codec_bare" else "") +
        "    for d in ('ser', 'de'):\n        try:\n"
        f"            if d == 'ser':\n                res[d] = observe(d, {ser}, VALUE, BUILTIN_SER)\n"
        f"            else:\n                res[d] = observe(d, {de}, WIRE, BUILTIN_DE)\n"
        "        except RecursionError:\n            res[d] = {'error': 'RecursionError'}\n"
        "        except Exception as e:\n            res[d] = {'error': errname(e)}\n"
        "    return res\n")
    return "\n".join(L)


_counter = itertools.count()


def exec_source(src: str) -> dict:
    name = f"_c10_case_{os.getpid()}_{next(_counter)}"
    mod = types.ModuleType(name)
    sys.modules[name] = mod
    old = sys.getrecursionlimit()
    sys.setrecursionlimit(600)
    try:
        exec(compile(src, name, "exec"), mod.__dict__)
        return mod.run()
    finally:
        sys.setrecursionlimit(old)
        sys.modules.pop(name, None)


def run_case(case: dict) -> dict:
    try:
        return exec_source(build_source(case))
    except Exception as e:  # a crash of the harness-generated module itself
        return {"class_error": "harness: " + type(e).__name__ + ": " + str(e)[:200]}


def _worker(case):
    return run_case(case)


# ---------------------------------------------------------------------------------------
# Coq encoding of a case
# ---------------------------------------------------------------------------------------

def marker(slot: str) -> int:
    if slot == "F1":
        return 1
    if slot == "F2":
        return 2
    lvl, key = slot.split(".")
    return 3 + LEVELS.index(lvl) * 3 + KEYS.index(key)


def coq_sval(variant: str, m: int) -> str:
    return {
        "both": f"VDict (Some (FFn {m})) (Some (FFn {100 + m}))",
        "ser": f"VDict (Some (FFn {m})) None",
        "de": f"VDict None (Some (FFn {100 + m}))",
        "pt": "VPass",
        "ptser": f"VDict (Some FPass) (Some (FFn {100 + m}))",
        "ptde": f"VDict (Some (FFn {m})) (Some FPass)",
        "strat": f"VStrat false false {m} {100 + m}",
        "astrat": f"VStrat true false {m} {100 + m}",
    }[variant]


def coq_sources(case: dict) -> str:
    slots, entry = case["slots"], case["entry"]
    tor = "tOr" if TKINDS[case["tkind"]]["or"] else "tEx"
    keyk = {"ann": "tAnn", "ex": "tEx", "or": tor}

    def tab(lvl):
        ents = [f"({keyk[k]}, {coq_sval(slots[f'{lvl}.{k}'], marker(f'{lvl}.{k}'))})" for k in KEYS if f"{lvl}.{k}" in slots]
        if not ents and case["empty"].get(lvl) == "unrelated":
            ents = ["(tStr, VDict (Some (FFn 90)) (Some (FFn 190)))"]
        return ents

    def otab(lvl):
        if lvl not in ENTRY_LEVELS[entry]:
            return "None"
        e = tab(lvl)
        return "(Some [" + "; ".join(e) + "])" if e else "None"

    f1 = slots.get("F1")
    fs = {"both": "Some (FFn 1)", "ser": "Some (FFn 1)", "pt": "Some FPass"}.get(f1, "None")
    fd = {"both": "Some (FFn 101)", "de": "Some (FFn 101)", "pt": "Some FPass"}.get(f1, "None")
    f2 = f"Some ({coq_sval(slots['F2'], 2)})" if "F2" in slots else "None"
    cfg = "[" + "; ".join(tab("cfg")) + "]" if "cfg" in ENTRY_LEVELS[entry] else "[]"
    return (f"{{| f_ser := {fs}; f_de := {fd}; f_strat := {f2}; t_call := {otab('call')}; t_cfgd := {otab('cfgd')}; "
            f"t_cfg := {cfg}; t_dflt := {otab('dflt')} |}}")


def coq_obs(obs: dict) -> str:
    if "error" in obs:
        return "None"
    base = {"builtin": 0, "pass": 1}.get(obs["base"], 2)
    return "(Some ([" + "; ".join(str(marker(t) + (0 if obs["_d"] == "ser" else 100)) if t in order_of_property() else "999"
                                   for t in obs["layers"]) + f"], {base}))"


def coq_case(case: dict, d: str, obs: dict) -> str:
    tor = "tOr" if TKINDS[case["tkind"]]["or"] else "tEx"
    alias = {"annotated": 0, "newtype": 1, "none": 2, "unhashable": 3}[case["alias"]]
    o = dict(obs)
    o["_d"] = d
    return f"({'Ser' if d == 'ser' else 'De'}, {coq_sources(case)}, {alias}, {tor}, {coq_obs(o)})"


COQ_DEFS_MODEL = """
Open Scope nat_scope.
Definition tAnn := KObj 11.  Definition tEx := KObj 12.  Definition tOr := KObj 13.
Definition tStr := KObj 18.  Definition tAny := KObj 19.
Definition tUnh := KList [KStr "m"].     (* Annotated[..., ["m"]]: truthy, unhashable *)
Definition case_t : Type := dir * sources * nat * kv * option (list nat * nat).
Definition c_an (alias: nat) : kv := match alias with 2 => KNone | 3 => tUnh | _ => tAnn end.
Definition c_ks (alias: nat) (Ox: kv) : list kv := match alias with 2 => [tEx; Ox] | _ => [c_an alias; tEx; Ox] end.
(* the re-entry after a use_annotations strategy carries no alias (annotated_type=None, /repo ed8922a) *)
Definition c_stale (alias: nat) : list kv := [].
(* the model: applied, built on resolve *)
Definition model_ok (c: case_t) : bool :=
  match c with (d, Sr, alias, Ox, obs) => obs_eqb (applied 40 Sr (c_ks alias Ox) (c_stale alias) tAny d true) obs end.
"""

COQ_DEFS_KERNEL = """
(* NewType: the registry first resolves with type = origin = the NewType object and no
   annotated type, then re-enters with the supertype (pack/unpack_special_typing_primitive) *)
Definition kernel_nt (d: dir) (Sr: sources) (Tx Ox: kv) : res kv :=
  match kernel d Sr KNone tAnn tAnn with Ok KNone => kernel d Sr KNone Tx Ox | r => r end.
(* the code translated from /repo on this run, on the same tables *)
Definition kernel_ok (c: case_t) : bool :=
  match c with (d, Sr, alias, Ox, obs) =>
    let kern := match alias with 1 => kernel_nt d Sr tEx Ox | _ => kernel d Sr (c_an alias) tEx Ox end in
    res_kv_eqb kern (Ok (enc_result d (resolve Sr (c_ks alias Ox) d)))
  end.
Definition case_ok (c: case_t) : bool := model_ok c && kernel_ok c.
"""


# ---------------------------------------------------------------------------------------
# (T) validation of the translated kernel against the Python originals
# ---------------------------------------------------------------------------------------

class _Obj:
    """registry of python objects <-> KObj tags"""

    def __init__(self):
        self.ids = {}
        self.n = 20

    def tag(self, o) -> int:
        k = id(o)
        if k not in self.ids:
            self.n += 1
            self.ids[k] = (self.n, o)
        return self.ids[k][0]


def kernel_validation(ctx: vlib.Ctx, n: int):
    import mashumaro.core.meta.types.pack as pack
    import mashumaro.core.meta.types.unpack as unpack
    from mashumaro.core.meta.code.builder import CodeBuilder
    from mashumaro.core.meta.types.common import ExpressionWrapper
    from mashumaro.dialect import Dialect
    from mashumaro.helper import pass_through
    from mashumaro.types import SerializationStrategy
    import typing
    rng = ctx.rng

    class PS(SerializationStrategy):
        pass

    class AS(SerializationStrategy, use_annotations=True):
        pass

    T = typing.TypeVar("T")

    class GS(SerializationStrategy, typing.Generic[T]):
        pass

    class TypeObj:  # hashable stand-in for a type object
        def __init__(self, n):
            self.n = n

    class Unhashable(list):
        pass

    reg = _Obj()

    def enc(o) -> str:  # tags are local to one case (reg is reset per case) so that nat literals stay small
        if o is None:
            return "KNone"
        if o is pass_through:
            return "k_pass_through"
        if isinstance(o, Unhashable):
            return "(KList [])"
        if isinstance(o, bool):
            return f"(KBool {'true' if o else 'false'})"
        if isinstance(o, int):
            return f"(KInt {o})"
        if isinstance(o, str):
            return f"(KStr {vlib.coq_str(o)})"
        if isinstance(o, dict):
            return "(KDict [" + "; ".join(f"({enc(k)}, {enc(v)})" for k, v in o.items()) + "])"
        if isinstance(o, SerializationStrategy):
            ann = bool(type(o).__use_annotations__)
            gen = isinstance(o, GS)
            return (f'(KNs [("__use_annotations__", KBool {"true" if ann else "false"}); ("__generic__", KBool {"true" if gen else "false"}); '
                    f'("serialize", KObj {reg.tag(o) * 2 + 200}); ("deserialize", KObj {reg.tag(o) * 2 + 201})])')
        if isinstance(o, types.MethodType) and isinstance(o.__self__, SerializationStrategy):
            return f"(KObj {reg.tag(o.__self__) * 2 + (200 if o.__name__ == 'serialize' else 201)})"
        if isinstance(o, type) and issubclass(o, Dialect):
            return "(KNs [(\"serialization_strategy\", " + enc(o.serialization_strategy) + ")])"
        if isinstance(o, tuple) and o and o[0] == "annotated_expression":
            return f'(KTuple [KStr "annotated_expression"; KStr "{o[1]}"; {enc(o[2])}])'
        if isinstance(o, tuple) and o and o[0] == "call":
            return f'(k_call_expr {enc(o[1])} {enc(o[2])})'
        if isinstance(o, ExpressionWrapper):
            e = o.expression
            return f'(k_expr_wrapper "{e[1]}" {enc(e[2])})'
        return f"(KObj {reg.tag(o)})"

    def callable_(i):
        f = lambda v, i=i: (i, v)  # noqa: E731
        return f

    def rand_strategy_value(types_):
        r = rng.random()
        if r < 0.12:
            return pass_through
        if r < 0.55:
            d = {}
            if rng.random() < 0.6:
                d["serialize"] = rng.choice([callable_(1), pass_through, "as_dict", None])
            if rng.random() < 0.6:
                d["deserialize"] = rng.choice([callable_(2), pass_through, "pendulum", None])
            return d
        if r < 0.75:
            return PS()
        if r < 0.83:
            return AS()
        if r < 0.88:
            return GS()
        if r < 0.94:
            return rng.choice([5, "junk", callable_(3)])   # not a strategy: silently ignored by the code
        return None

    def rand_table(types_):
        t = {}
        for ty in types_:
            if isinstance(ty, Unhashable):
                continue
            if rng.random() < 0.4:
                t[ty] = rand_strategy_value(types_)
        return t

    def rand_dialect(types_, allow_bad=False):
        r = rng.random()
        if r < 0.35:
            return None
        if allow_bad and r < 0.42:
            return 7     # Config.dialect that is not a Dialect subclass -> BadDialect (lazily)
        return type("Dx", (Dialect,), {"serialization_strategy": rand_table(types_)})

    cases, descr = [], []
    saved_p, saved_u = pack._pack_with_annotated_serialization_strategy, unpack._unpack_with_annotated_serialization_strategy
    pack._pack_with_annotated_serialization_strategy = lambda spec, strategy: ("annotated_expression", "pack", strategy)
    unpack._unpack_with_annotated_serialization_strategy = lambda spec, strategy: ("annotated_expression", "unpack", strategy)
    try:
        for i in range(n):
            reg.ids.clear()
            reg.n = 20
            tys = [TypeObj(1), TypeObj(2), TypeObj(3)]
            ann = rng.choice([None, tys[0], tys[0], Unhashable()])
            ty = rng.choice([tys[1], tys[1], tys[1], Unhashable()])
            org = rng.choice([tys[2], tys[2], ty])
            keyset = [t for t in (ann, ty, org) if t is not None]
            md = {}
            if rng.random() < 0.2:
                md["serialize"] = rng.choice([callable_(4), pass_through, "omit", None])
            if rng.random() < 0.2:
                md["deserialize"] = rng.choice([callable_(5), pass_through, "ciso8601", None])
            if rng.random() < 0.3:
                md["serialization_strategy"] = rand_strategy_value(keyset)
            cfg = types.SimpleNamespace(dialect=rand_dialect(keyset, allow_bad=True), serialization_strategy=rand_table(keyset))
            fake = types.SimpleNamespace(dialect=rand_dialect(keyset), default_dialect=rand_dialect(keyset),
                                         get_config=lambda cfg=cfg: cfg, cls=TypeObj)
            fake.iter_serialization_strategies = types.MethodType(CodeBuilder.iter_serialization_strategies, fake)
            setattr(fake, "_CodeBuilder__iter_serialization_strategies",
                    types.MethodType(getattr(CodeBuilder, "_CodeBuilder__iter_serialization_strategies"), fake))
            attrs = types.SimpleNamespace()
            spec = types.SimpleNamespace(field_ctx=types.SimpleNamespace(metadata=md, name="x"), type=ty, origin_type=org,
                                         annotated_type=ann, builder=fake, expression="value", attrs=attrs,
                                         self_attrs_name="self", cls_attrs_name="cls")
            for which, fn in (("ser", pack.get_overridden_serialization_method), ("de", unpack.get_overridden_deserialization_method),
                              ("pack", pack.pack_type_with_overridden_serialization),
                              ("unpack", unpack.unpack_type_with_overridden_deserialization)):
                try:
                    r = fn(spec)
                    if which in ("pack", "unpack") and isinstance(r, str) and r != "value":
                        holder, rest = r.split(".", 1)
                        nm = rest[: rest.index("(")]
                        if rest != f"{nm}(value)" or holder != ("self" if which == "pack" else "cls"):
                            raise AssertionError("unexpected emitted expression " + r)
                        m = attrs.__dict__[nm]
                        if isinstance(m, staticmethod):
                            m = m.__func__
                        r = ("call", m, "value")
                    exp = f"Ok {enc(r)}"
                except Exception as e:  # noqa: BLE001
                    exp = "Raise OtherError"
                    r = type(e).__name__
                args = " ".join([enc(fake.dialect), '(KNs [("dialect", ' + enc(cfg.dialect) + '); ("serialization_strategy", '
                                 + enc(cfg.serialization_strategy) + ')])', enc(fake.default_dialect), enc(md), enc(ann), enc(ty), enc(org)])
                fname = {"ser": "get_overridden_serialization_method", "de": "get_overridden_deserialization_method",
                         "pack": "pack_type_with_overridden_serialization", "unpack": "unpack_type_with_overridden_deserialization"}[which]
                extra = ' (KStr "value")' if which in ("pack", "unpack") else ""
                cases.append(f"({fname} {args}{extra}, {exp})")
                descr.append(f"{which} #{i} -> {r!r}"[:200])
                ctx.hist("kernel_validation_outcome", "raise" if exp.startswith("Raise") else "none" if exp == "Ok KNone" else "hit")
    finally:
        pack._pack_with_annotated_serialization_strategy = saved_p
        unpack._unpack_with_annotated_serialization_strategy = saved_u
    name = "K5-translation-vs-python"
    if not ctx.kernel_report.get("K5", {}).get("ok"):
        ctx.correspondence(name, len(cases), -1, "K5 was not translated")
        return
    bad, log = _bad_idx("c10_k5", "PyK_strat Strategies", "From VerifGen Require Import K5.", "", cases,
                                "fun c => res_kv_eqb (fst c) (snd c)", "res kv * res kv", shard=400,
                                needs=["theories/Strategies.vo", "gen/K5.vo"])
    if bad is None:
        ctx.correspondence(name, len(cases), -1, log)
        ctx.not_shown("translation validation K5", log)
    else:
        ctx.correspondence(name, len(cases), len(bad), str([descr[i] for i in bad[:8]]))
        if bad:
            ctx.not_shown("translation validation K5", f"cases {[descr[i] for i in bad[:8]]}")
    ctx.count(n=len(cases))


def registry_validation(ctx: vlib.Ctx, n: int):
    """(T) validation of registry_prepare (translated Registry.get up to the handler loop): the real Registry.get
    is run on a real ValueSpec with one capturing handler; get_real_type is the real substitute_type_params with
    a sampled TypeVar binding.  The Coq side gets the three primitives as finite tables computed with the real
    functions on the closure of the declared type, so what is compared is which primitive is applied to what,
    in which order, and what ends up in annotated_type / type / origin_type."""
    import datetime
    import typing
    from typing import Annotated, Dict, List, NewType, Optional
    from mashumaro.core.meta.helpers import get_type_origin, is_annotated, substitute_type_params
    from mashumaro.core.meta.types.common import FieldContext, Registry, ValueSpec
    rng = ctx.rng
    T = typing.TypeVar("T")
    U = typing.TypeVar("U")
    NT = NewType("NT", int)
    decls = [Annotated[T, "m"], T, Annotated[List[T], "m"], List[T], Dict[str, T], Annotated[Dict[str, U], "k"], List[int],
             Annotated[int, "m"], int, NT, Annotated[NT, "m"], Optional[T], Annotated[Annotated[T, "a"], "b"],
             Annotated[T, ["unhashable"]], datetime.date]
    binds = [datetime.date, int, List[int], NT, Annotated[int, "inner"], T]
    stale = [None, None, Annotated[int, "old"], Annotated[T, "m"]]

    def enc(o):
        return "KNone" if o is None else "(KStr " + vlib.coq_str(repr(o)) + ")"

    cases, descr = [], []
    for i in range(n):
        t0 = rng.choice(decls)
        a0 = rng.choice(stale)
        mapping = {T: rng.choice(binds), U: rng.choice(binds)}
        fake = types.SimpleNamespace(get_real_type=lambda name, ft, m=mapping: substitute_type_params(ft, m),
                                     add_type_modules=lambda *a: None, cls=object)
        got = {}

        def handler(spec, got=got):
            got.update(a=spec.annotated_type, t=spec.type, o=spec.origin_type)
            return "ok"
        reg = Registry()
        reg.register(handler)
        spec = ValueSpec(type=t0, expression="value", builder=fake, field_ctx=FieldContext(name="x", metadata={}),
                         annotated_type=a0)
        o0 = spec.origin_type
        try:
            reg.get(spec)
            exp = f"Some ({enc(got['t'])}, {enc(got['o'])}, {enc(got['a'])})"
        except Exception as e:  # noqa: BLE001
            exp = "None"
            got["err"] = type(e).__name__
        dom = [t0]
        for _ in range(4):
            for x in list(dom):
                for y in (substitute_type_params(x, mapping), get_type_origin(x)):
                    if not any(y is z or (type(y) is type(z) and repr(y) == repr(z)) for z in dom):
                        dom.append(y)
        rt = "[" + "; ".join(f"({enc(x)}, {enc(substitute_type_params(x, mapping))})" for x in dom) + "]"
        og = "[" + "; ".join(f"({enc(x)}, {enc(get_type_origin(x))})" for x in dom) + "]"
        an = "[" + "; ".join(enc(x) for x in dom if is_annotated(x)) + "]"
        cases.append(f"({rt}, {og}, {an}, ({enc(t0)}, {enc(o0)}, {enc(a0)}), {exp})")
        descr.append(f"#{i} decl={t0!r} T:={mapping[T]!r} stale={a0!r} -> {got}"[:240])
    name = "K5-registry-get-vs-python"
    if not ctx.kernel_report.get("K5", {}).get("ok"):
        ctx.correspondence(name, len(cases), -1, "K5 was not translated")
        return
    defs = """
Definition lk (tb: list (kv * kv)) (v: kv) : kv := match d_get tb v with Some x => x | None => KStr "?outside-closure" end.
Definition mem (l: list kv) (v: kv) : bool := existsb (kv_eqb v) l.
Definition reg_ok (c: list (kv * kv) * list (kv * kv) * list kv * (kv * kv * kv) * option (kv * kv * kv)) : bool :=
  match c with (rt, og, an, (t0, o0, a0), ex) =>
    match registry_prepare (lk rt) (lk og) (mem an) (mk_spec t0 o0 a0), ex with
    | Ok sp, Some (t1, o1, a1) => kv_eqb sp (mk_spec t1 o1 a1)
    | Raise _, None => true
    | _, _ => false end end.
"""
    bad, log = _bad_idx("c10_reg", "PyK_strat Strategies K5Kernel", "From VerifGen Require Import K5.", defs, cases,
                                "reg_ok", "list (kv * kv) * list (kv * kv) * list kv * (kv * kv * kv) * option (kv * kv * kv)",
                                shard=300, needs=["theories/K5Kernel.vo"])
    if bad is None:
        ctx.correspondence(name, len(cases), -1, log)
        ctx.not_shown("translation validation K5 (Registry.get)", log)
    else:
        ctx.correspondence(name, len(cases), len(bad), str([descr[i] for i in bad[:6]]))
        if bad:
            ctx.not_shown("translation validation K5 (Registry.get)", f"cases {[descr[i] for i in bad[:6]]}")
    ctx.count(n=len(cases))


def fields_validation(ctx: vlib.Ctx, n: int):
    """(T) validation of the translated CodeBuilder.dataclass_fields: real class hierarchies (dataclasses that
    declare, re-declare with/without field options, or only inherit fields; plain classes in between), the real
    property on a real CodeBuilder, compared as ordered name -> Field-identity dictionaries.  Also the two slice
    primitives against CPython."""
    import dataclasses
    from mashumaro.core.meta.code.builder import CodeBuilder
    rng = ctx.rng
    cases, descr = [], []
    names = ["x", "y", "z"]

    def build_chain():
        depth = rng.randint(1, 4)
        cls = object
        chain = []
        uid = 0
        for lvl in range(depth):
            ns, ann = {}, {}
            plain = lvl > 0 and rng.random() < 0.2        # a class that is not decorated with @dataclass
            for nm in names:
                r = rng.random()
                if r < 0.45:
                    continue
                ann[nm] = int
                uid += 1
                if r < 0.7:
                    ns[nm] = dataclasses.field(default=uid, metadata={"uid": uid})
                elif r < 0.85:
                    ns[nm] = uid                            # plain default, no options
                elif r < 0.93:
                    ns[nm] = dataclasses.field(default_factory=list, metadata={"uid": uid})
                # else: bare annotation (only legal when no earlier field has a default: give a default anyway)
                else:
                    ns[nm] = uid
            ns["__annotations__"] = ann
            c = type(f"C{lvl}", (cls,) if cls is not object else (), ns)
            if not plain:
                c = dataclasses.dataclass(c)
            chain.append(c)
            cls = c
        return chain

    def tag(f, tags):
        k = id(f)
        if k not in tags:
            tags[k] = len(tags) + 1
        return tags[k]

    def enc_field(f, tags):
        if f.name is None:      # a Field in the namespace of a class that @dataclass has not processed
            return f'(KNs [("name", KNone); ("metadata", KInt {tag(f, tags)})])'
        return f'(mk_field {vlib.coq_str(f.name)} (KInt {tag(f, tags)}))'

    def enc_val(v, tags):
        if isinstance(v, dataclasses.Field):
            return enc_field(v, tags)
        return "(KInt 0)"

    for i in range(n):
        chain = build_chain()
        cls = rng.choice(chain)
        tags = {}
        try:
            b = CodeBuilder(cls)
            real = b.dataclass_fields
            own = list(getattr(b, "_CodeBuilder__get_field_types")(recursive=False))
        except Exception as e:  # noqa: BLE001
            ctx.hist("fields_validation", "skipped:" + type(e).__name__)
            continue
        mro = []
        for c in cls.__mro__:
            fs = getattr(c, "__dataclass_fields__", None)
            if fs is None:
                mro.append("(KNs [])")
            else:
                mro.append('(KNs [("__dataclass_fields__", KDict [' + "; ".join(
                    f"(KStr {vlib.coq_str(k)}, {enc_field(v, tags)})" for k, v in fs.items()) + "])])")
        nsd = [(k, v) for k, v in cls.__dict__.items() if k in names]
        ent = [f"(KStr {vlib.coq_str(k)}, {enc_val(v, tags)})" for k, v in nsd]
        if "__dataclass_fields__" in cls.__dict__:
            ent.append('(KStr "__dataclass_fields__", KDict [' + "; ".join(
                f"(KStr {vlib.coq_str(k)}, {enc_field(v, tags)})" for k, v in cls.__dict__["__dataclass_fields__"].items()) + "])")
        exp = "KDict [" + "; ".join(f"(KStr {vlib.coq_str(k)}, {enc_field(v, tags)})" for k, v in real.items()) + "]"
        cases.append(f"(dataclass_fields (KTuple [{'; '.join(mro)}]) (KList [{'; '.join('KStr ' + vlib.coq_str(o) for o in own)}]) "
                     f"(KDict [{'; '.join(ent)}]), Ok ({exp}))")
        descr.append(f"#{i} depth={len(chain)} cls={cls.__name__} own={own} result={[(k, v.metadata.get('uid')) for k, v in real.items()]}")
        ctx.hist("fields_validation", f"mro={len(cls.__mro__)}")
    for ln in range(0, 6):
        lst = list(range(ln))
        for prim, py in (("k_slice_rev_tail", lst[-1:0:-1]), ("k_slice_tail", lst[1:])):
            cases.append(f"({prim} (KTuple [{'; '.join('KInt ' + str(v) for v in lst)}]), "
                         f"Ok (KList [{'; '.join('KInt ' + str(v) for v in py)}]))")
            descr.append(f"{prim} on {lst}")
    name = "K5-dataclass-fields-vs-python"
    if not ctx.kernel_report.get("K5", {}).get("ok"):
        ctx.correspondence(name, len(cases), -1, "K5 was not translated")
        return
    bad, log = _bad_idx("c10_fields", "PyK_strat Strategies FieldDecl", "From VerifGen Require Import K5.", "", cases,
                                "fun c => res_kv_eqb (fst c) (snd c)", "res kv * res kv", shard=300,
                                needs=["theories/FieldDecl.vo", "theories/Strategies.vo", "gen/K5.vo"])
    if bad is None:
        ctx.correspondence(name, len(cases), -1, log)
        ctx.not_shown("translation validation K5 (dataclass_fields)", log)
    else:
        ctx.correspondence(name, len(cases), len(bad), str([descr[i] for i in bad[:6]]))
        if bad:
            ctx.not_shown("translation validation K5 (dataclass_fields)", f"cases {[descr[i] for i in bad[:6]]}")
    ctx.count(n=len(cases))


# ---------------------------------------------------------------------------------------
# the run
# ---------------------------------------------------------------------------------------

def generate_cases(ctx: vlib.Ctx) -> list[dict]:
    rng = ctx.rng
    cases = []
    # fixed probes first: every slot alone, every adjacent pair of the documented order, the findings' shapes
    for entry in ENTRY_LEVELS:
        tk = "bytes" if entry == "mixin_msgpack" else "list"
        av = available_slots(entry, "annotated", tk)
        for s in av:
            cases.append(gen_case(rng, entry, "annotated", tk, present=[s]))
        ordered = [s for s in order_of_property() if s in av]
        for a, b in zip(ordered, ordered[1:]):
            c = gen_case(rng, entry, "annotated", tk, present=[a, b])
            c["slots"].update({a: "both" if a != "F2" else "strat", b: "both" if b != "F2" else "strat"})
            cases.append(c)
        cases.append(gen_case(rng, entry, "annotated", tk, present=[]))
    # shape probes: each shape x (a lower-precedence registration that must lose / an alias registration that must win)
    for entry in ("mixin", "mixin_fmt", "codec_dc", "mixin_msgpack"):
        tk = "bytes" if entry == "mixin_msgpack" else rng.choice(["list", "dict", "date"])
        lv = ENTRY_LEVELS[entry]
        top, low = lv[0], ("cfg" if lv[0] != "cfg" else "cfgd")
        for sh in ({"generic": "typevar"}, {"generic": "typevar", "config_at": "parent"},
                   {"generic": "typevar", "target": "alias"} if entry == "codec_dc" else {"generic": "typevar", "position": "inner"},
                   {"decl": "inherit"}, {"decl": "inherit", "config_at": "parent", "config_style": "plain"},
                   {"decl": "redeclare_mid", "decoy": "both"}, {"decl": "redeclare_mid", "decoy": "f2", "config_at": "parent"},
                   {"decl": "redeclare_leaf", "decoy": "both"},
                   {"position": "self_opt"}, {"position": "self_list"}, {"position": "inner"},
                   {"position": "self_opt", "decl": "inherit"}):
            shape = {**DEFAULT_SHAPE, **sh}
            for slots in ({f"{low}.ann": "both", f"{low}.ex": "both"}, {f"{top}.ex": "both", f"{low}.ex": "both"},
                          {"F1": "both", f"{low}.ex": "both"}, {"F2": "strat", f"{top}.ex": "both"}, {f"{low}.ex": "both"},
                          {f"{top}.ann": "ser", f"{low}.ann": "de", f"{top}.ex": "strat"}):
                c = gen_case(rng, entry, "annotated", tk, present=[], shape=dict(shape))
                c["slots"].update(slots)
                cases.append(c)
    probes = [
        {"entry": "mixin", "alias": "annotated", "tkind": "list", "slots": {"cfg.ann": "astrat"}},
        {"entry": "mixin", "alias": "annotated", "tkind": "list", "slots": {"F2": "astrat", "cfg.ann": "both"}},
        {"entry": "codec_bare", "alias": "annotated", "tkind": "list", "slots": {"dflt.ann": "astrat"}},
        {"entry": "mixin", "alias": "newtype", "tkind": "list", "slots": {"cfg.ann": "astrat", "cfg.ex": "both"}},
        {"entry": "mixin", "alias": "annotated", "tkind": "list", "slots": {"cfg.ex": "astrat", "cfg.or": "both"}},
    ]
    for p in probes:
        p.update({"empty": {lvl: "absent" for lvl in LEVELS}, "dialect_support": True})
        cases.append(p)
    if ctx.quick():
        for _ in range(max(1200, 1900 - len(cases))):
            cases.append(gen_case(rng))
    else:
        # all presence subsets per entry point for the richest schema (variants sampled per slot) ...
        #     (symmetry: a present field slot wins whatever else is registered, so for the 14-slot format
        #     mixin the 2^12 subsets of table slots are enumerated without field slots and the field slots are
        #     sampled; mixin and dataclass codec: all 2^11; bare codec: all 2^3)
        for entry in ENTRY_LEVELS:
            tk = "bytes" if entry == "mixin_msgpack" else "list"
            av = available_slots(entry, "annotated", tk)
            if entry == "mixin_fmt":
                av = [s for s in av if s not in ("F1", "F2")]
            for bits in range(1 << len(av)):
                cases.append(gen_case(rng, entry, "annotated", tk, present=[s for i, s in enumerate(av) if bits >> i & 1]))
        for _ in range(2000):
            cases.append(gen_case(rng, "mixin_fmt", "annotated", "list"))
        # ... and for NewType aliases through the codec / plain mixin; the rest sampled
        for entry in ("mixin", "codec_dc"):
            av = available_slots(entry, "newtype", "dict")
            for bits in range(1 << len(av)):
                cases.append(gen_case(rng, entry, "newtype", "dict", present=[s for i, s in enumerate(av) if bits >> i & 1]))
        for _ in range(4000):
            cases.append(gen_case(rng))
    return cases


# ---------------------------------------------------------------------------------------
# robustness on a loaded machine: a coqc that is killed (global out-of-memory killer) or runs into a timeout says
# nothing about the property.  Only a genuine Coq error ("Error:" with a location) counts; anything else is retried.
# ---------------------------------------------------------------------------------------

def _genuine(log: str) -> bool:
    import re as _re
    return bool(_re.search(r"\bError:", log or "")) or "translation_failed" in (log or "")


def _bad_idx(name, imports, gen_imports, defs, cases, okf, case_type, shard=400, needs=None, timeout=1800):
    import time as _tm
    bad, log = None, ""
    for attempt in range(4):
        bad, log = vlib.coq_bad_idx(name, imports, gen_imports, defs, cases, okf, case_type, shard=max(25, shard >> attempt),
                                    needs=needs, timeout=timeout)
        if bad is not None or _genuine(log):
            break
        _tm.sleep(15 * (attempt + 1))
    return bad, log


def _theorems(ctx: vlib.Ctx, target_vo: str, names: list, kernels: list):
    """ctx.theorems with retries of a build that was killed / timed out (same obligations, same failure handling)"""
    import time as _tm
    v = target_vo[:-1]
    br = None
    for attempt in range(4):
        br = ctx.build([target_vo], force=[v], timeout=1800)
        if br.ok or _genuine((br.error or "") + (br.log or "")[-4000:]):
            break
        _tm.sleep(15 * (attempt + 1))
    kr = ctx.kernel_report
    kfail = [k for k in (kernels or []) if k in kr and not kr[k]["ok"]]
    for n in names:
        if br.ok and not kfail:
            ctx.obligation(n, True, "accepted by coqc")
        else:
            why = br.error or ""
            if kfail:
                why = "translator failed closed for " + ",".join(f"{k}: {kr[k]['error']}" for k in kfail) + " | " + why
            ctx.obligation(n, False, why)
    if not br.ok or kfail:
        ctx.not_shown(f"theorems of {target_vo}", (br.error or "") + (" kernels: " + str(kfail) if kfail else ""))
    return br


def self_generic_codec_defect(case: dict, d: str, obs: dict) -> bool:
    """The defect fixed by /repo 108dd9a (former finding C10/self-in-specialised-generic-codec, independent of any
    customization): codec of a specialised generic alias Box[X] whose class has a Self-typed field; the Self call
    named an unspecialised method that was never created.  No longer listed: if it reappears (seeded/revert-108dd9a)
    the failure carries this signature and is a VIOLATION."""
    sh = {**DEFAULT_SHAPE, **case.get("shape", {})}
    if not (case["entry"] == "codec_dc" and sh["generic"] == "typevar" and sh["target"] == "alias"
            and sh["position"] in ("self_opt", "self_list") and "error" in obs):
        return False
    e = obs["error"]
    return (d == "ser" and e.startswith("AttributeError") and "__mashumaro_to_dict" in e) or \
           (d == "de" and e.startswith("InvalidFieldValue") and ('"nxt"' in e or '"kids"' in e))


def classify(case: dict, d: str, obs: dict):
    """None if the observation is what the property demands, else (what, signature)."""
    exp = oracle_expected(case, d)
    if "error" not in obs and obs["layers"] == exp["layers"] and obs["base"] == exp["base"]:
        return None
    got = {"error": obs["error"].split(":")[0]} if "error" in obs else {"layers": obs["layers"], "base": obs["base"]}
    sig = {"kind": "precedence", "entry": case["entry"], "dir": d}
    what = (f"{case['entry']} {d} alias={case['alias']} type={case['tkind']} slots={case['slots']}: expected "
            f"{exp}, observed {got}")
    return what, sig


def run(ctx: vlib.Ctx):
    ctx.coverage["rule"] = (
        "a case = entry point (mixin to_dict/from_dict, format mixin to_fmt/from_fmt with a format dialect, DataClassMessagePackMixin to_msgpack/from_msgpack with the library's format dialect, "
        "BasicEncoder/Decoder of the dataclass, codec of the bare type) x alias kind (Annotated, NewType, none) x "
        "field type (List[int], Dict[str,int], date, a nested dataclass, a SerializableType) x a subset of the 2 field slots + (level x key) slots with a variant "
        "per slot (dict both/one direction, pass_through, dict with pass_through, strategy object, use_annotations strategy); "
        "x shape (field declared in the class / inherited / re-declared over a base declaration with decoy options; type written directly or through a TypeVar of a specialised generic dataclass; observed on the top object, on a Self-typed child, or on a nested dataclass; Config own/inherited, BaseConfig subclass/plain class); "
        "+ path cases: a chain of up to 3 dataclasses (nested field, List/Dict of the nested class, Optional[Self] / Tuple[Self,...] children; each class with or without ADD_DIALECT_SUPPORT, also the called one; decoy Config tables on the classes that do not own the field) ending in a field whose type is a term over Annotated / NewType / Optional / Union / List / Dict-value / Tuple[X, ...] / NamedTuple / TypedDict / leaf (date, Decimal) of depth <= 4, slots for every type object of the term at every level, observed by value position; "
        "each case is observed in both directions; distinct = distinct (entry, alias, type, slots->variant, direction); "
        "non-trivial = at least one slot present. quick: fixed probes + 1500 sampled; thorough: every presence subset per entry point (format mixin: every subset of its 12 table slots, field slots sampled)")
    ctx.trusted += [
        "tools/kernels/k5_strategies.py: generator->gen (lazy raise), for-loop->Fixpoint with continuation, and the abstraction of CodeBuilder to (dialect, config, default_dialect) and of ValueSpec to (metadata, annotated_type, type, origin_type)",
        "PyK_strat.v primitives model isinstance/is_hashable/is_dialect_subclass/is_generic/callable and dict.get on type keys (validated on sampled tables each run against the Python originals)",
        "the re-entry of the registry for NewType supertypes and for use_annotations strategies (Strategies.applied, case_ok.kernel_nt) is hand-modelled and tied by the (M) comparison only",
        "the tagged callables identify the slot they are registered at; `is` identity distinguishes pass_through from the built-in copy",
        "Registry.get (K5 registry_prepare): get_real_type / get_type_origin / is_annotated are function parameters (theorem C10_keys holds for all of them); the handler loop and ValueSpec.__setattr__ are matched textually; validated against the real Registry.get with the real primitives each run",
        "CodeBuilder.dataclass_fields (K5): classes are abstracted to getattr(cls, '__dataclass_fields__') per MRO entry, own annotated names and cls.__dict__; x[-1:0:-1] / x[1:] are named primitives validated against CPython; that @dataclass fills __dataclass_fields__ as CPython does is not modelled (the real-class runs with inherited / re-declared fields cover it)",
        "positions below a field (Positions.v, K5PKernel.compile): translated = Registry.get, the first handler, the spec.copy of the NewType / Optional / collection-element / Union-member / tuple-item / NamedTuple-field / TypedDict-key descent sites, the class handed to get_(un)pack_method_flags at the dataclass and Self call sites, get_pack_method_flags (K8) and get_unpack_method_flags (K5P); hand-written glue (tied by the real-class path cases only) = which descent site a type takes (is_new_type / is_optional / collection / union dispatch of pack_/unpack_special_typing_primitive and *_collection), that a declined node continues with that site, the fresh ValueSpec of a dataclass field (checked textually), Tuple[Self, ...] treated like a collection element, and that the generated method runs with `dialect` = the forwarded keyword",
        "which descent site a type takes: K5D translates the if/elif chains of pack_/unpack_special_typing_primitive and pack_/unpack_collection over their own test expressions (kept as text); the outcome of each test for a concrete type is computed by the library's predicates in the harness (K5D-dispatch-vs-python) - the predicates themselves (is_new_type, is_optional, issubclass ...) and the registry order between the handlers other than special-before-collection are not modelled",
        "RegistryWalk.compile_r (round 6): K110a translates the @register order of pack.py / unpack.py and the guard of every registered handler (try/except-return-None and suppress() as `_raises(...)` pseudo-tests, the Discriminator loop of unpack_dataclass as an any(...) pseudo-test); every position of a path case carries the valuation of ALL handler tests computed with the library's predicates on the real type object, and the walk of the whole translated registry chooses the handler (dataclass handler before the chains, the handlers between the chains declining: proved from the translation, C10_registry_dataclass / C10_registry_chains); K110a-registry-walk-vs-real-registry walks the REAL PackerRegistry / UnpackerRegistry on real specs and compares the answering handler. Still hand-modelled: the valuation of a dataclass position of a path case is computed on a stand-in dataclass with the same mixin bases (the handlers registered before the dataclass handler look only at the class), Registry.get's loop itself is matched textually, and what a handler tagged `other` / `final` does is outside the model",
        "value-dependent selection among Union members (which member packs/unpacks a value) is C11's subject: path cases always use the first member and a second member (int) that never accepts the value",
    ]
    ctx.assumptions += ["strategy values are pass_through, dicts with serialize/deserialize entries, or SerializationStrategy instances (other values are ignored by the code; covered only by the kernel validation)"]
    br = _theorems(ctx, "props/C10_precedence.vo", ["C10_precedence", "C10_empty", "C10_pass_through", "C10_sym", "C10_keys"],
                      ["K5"])
    br2 = _theorems(ctx, "props/C10_single.vo", ["C10_single_application"], ["K5"])
    br3 = _theorems(ctx, "props/C10_fields.vo", ["C10_field_decl"], ["K5"])
    br4 = _theorems(ctx, "props/C10_positions.vo", ["C10_positions", "C10_dialect_reaches", "C10_format_dialect_everywhere"],
                       ["K5", "K5P", "K8"])
    br6 = _theorems(ctx, "props/C10_positions_dispatched.vo", ["C10_positions_dispatched"], ["K5", "K5P", "K8", "K5D"])
    br5 = _theorems(ctx, "props/C10_dispatch.vo", ["C10_dispatch_optional", "C10_dispatch_union", "C10_dispatch_newtype", "C10_dispatch_self",
                                                 "C10_dispatch_named_tuple", "C10_dispatch_tuple", "C10_dispatch_list",
                                                 "C10_dispatch_typed_dict", "C10_dispatch_mapping"], ["K5D"])
    br7 = _theorems(ctx, "props/C10_registry.vo", ["C10_registry_first_answer", "C10_registry_dataclass", "C10_registry_chains",
                                                 "C10_positions_registry"], ["K5", "K5P", "K8", "K5D", "K110a"])
    proofs_ok = br.ok and br2.ok and br3.ok and br4.ok and br5.ok and br6.ok and br7.ok and all(ctx.kernel_report.get(k, {}).get("ok") for k in ("K5", "K5P", "K8", "K110a"))
    if proofs_ok and not ctx.quick():
        # second opinion: the independent checker on the compiled property files
        for _attempt in range(3):     # a coqchk killed by the machine (out of memory) / timed out is retried, a verdict is not
            with vlib.Lock("build"):
                rc, out, _ = vlib.run(["timeout", "1500", "coqchk", "-silent", "-o", "-Q", "theories", "Verif", "-Q", "gen", "VerifGen",
                                       "-Q", "props", "VerifProps", "VerifProps.C10_precedence", "VerifProps.C10_single", "VerifProps.C10_fields", "VerifProps.C10_positions", "VerifProps.C10_dispatch", "VerifProps.C10_positions_dispatched", "VerifProps.C10_registry"],
                                      cwd=vlib.COQ, timeout=1560)
            if rc == 0 or rc not in (124, 137, -9):
                break
        ok = rc == 0 and "Axioms: <none>" in out
        ctx.obligation("coqchk -o (C10_precedence, C10_single, C10_fields, C10_positions, C10_dispatch, C10_positions_dispatched, C10_registry): no axioms", ok, out[-600:])
        if not ok:
            ctx.not_shown("coqchk", out[-1500:])

    kernel_validation(ctx, ctx.budget(120, 1200))
    registry_validation(ctx, ctx.budget(150, 1500))
    fields_validation(ctx, ctx.budget(150, 1500))
    dispatch_validation(ctx, ctx.budget(40, 300))
    registry_walk_validation(ctx, ctx.budget(30, 250))

    cases = generate_cases(ctx)
    if not proofs_ok and ctx.quick():
        for _ in range(1500):   # a broken obligation: search harder
            cases.append(gen_case(ctx.rng))
    import time as _t0
    t_run = _t0.time()
    if len(cases) > 3000:
        with multiprocessing.get_context("fork").Pool(8) as pool:
            results = pool.map(_worker, cases, chunksize=64)
    else:
        results = [run_case(c) for c in cases]

    import time as _t
    ctx.notes.append(f"real classes built and run: {len(cases)} in {_t.time() - t_run:.1f}s")
    coq_cases, coq_descr = [], []
    for case, res in zip(cases, results):
        ctx.hist("entry", case["entry"])
        ctx.hist("alias", case["alias"])
        ctx.hist("n_slots", str(len(case["slots"])))
        sh = {**DEFAULT_SHAPE, **case.get("shape", {})}
        ctx.hist("shape_decl", sh["decl"] + ("+typevar" if sh["generic"] == "typevar" else ""))
        ctx.hist("shape_position", sh["position"])
        for d in ("ser", "de"):
            key = (case["entry"], case["alias"], case["tkind"], tuple(sorted(case["slots"].items())), d,
                   tuple(sorted(case.get("shape", {}).items())))
            if "class_error" in res:
                obs = {"error": res["class_error"]}
            else:
                obs = res[d]
            ctx.count(key, nontrivial=bool(case["slots"]))
            if self_generic_codec_defect(case, d, obs):
                ctx.fail(f"codec of a specialised generic alias with a Self field ({d}): {obs['error'][:120]}",
                         {"entry": case["entry"], "dir": d, "case": case, "source": build_source(case),
                          "observed": obs, "expected": oracle_expected(case, d)},
                         {"kind": "self-in-specialised-generic-codec"})
                continue          # the model has no such failure; nothing to compare
            w = oracle_winner(case, d)
            ctx.hist("winner", w or "builtin")
            coq_cases.append(coq_case(case, d, obs))
            coq_descr.append((case, d, obs))
            bad = classify(case, d, obs)
            if bad:
                what, sig = bad
                ctx.fail(what, {"entry": case["entry"], "dir": d, "case": case, "source": build_source(case),
                                "observed": obs, "expected": oracle_expected(case, d)}, sig)
    for case, d, obs in coq_descr[:4]:
        ctx.sample({"entry": case["entry"], "alias": case["alias"], "type": case["tkind"], "slots": case["slots"],
                    "dir": d, "observed": obs, "oracle": oracle_expected(case, d)})

    # (M) observed marker lists vs the model (and the translated kernel, when it exists) inside Coq
    def compare(name, imports, gen_imports, defs, okf, needs):
        bad, log = _bad_idx(name.replace("-", "_"), imports, gen_imports, defs, coq_cases, okf, "case_t", shard=500, needs=needs,
                                    timeout=1800)      # a loaded machine must not turn a slow coqc into an alarm
        if bad is None:
            ctx.correspondence(name, len(coq_cases), -1, log)
            ctx.not_shown("correspondence " + name, log)
            return False
        det = [f"{coq_descr[i][0]['entry']} {coq_descr[i][1]} alias={coq_descr[i][0]['alias']} type={coq_descr[i][0]['tkind']} "
               f"slots={coq_descr[i][0]['slots']} observed={coq_descr[i][2]}" for i in bad[:6]]
        ctx.correspondence(name, len(coq_cases), len(bad), str(det))
        if bad:
            ctx.not_shown("correspondence " + name, str(det))
        return True

    done = False
    if ctx.kernel_report.get("K5", {}).get("ok"):
        kb = vlib.coq_make(["theories/K5Kernel.vo"])
        if kb.ok:
            done = compare("tagged-classes-vs-model-and-kernel", "PyK_strat Strategies K5Kernel", "From VerifGen Require Import K5.",
                           COQ_DEFS_MODEL + COQ_DEFS_KERNEL, "case_ok", ["theories/K5Kernel.vo"])
        else:
            ctx.notes.append("K5Kernel.v does not build against the translated kernel: " + (kb.error or "")[:300])
    if not done:
        compare("tagged-classes-vs-model", "PyK_strat Strategies", "", COQ_DEFS_MODEL, "model_ok", ["theories/Strategies.vo"])

    paths_part(ctx, bool(proofs_ok))


def _path_worker(src):
    try:
        return exec_source(src)
    except Exception as e:  # noqa: BLE001
        return {"class_error": "harness: " + type(e).__name__ + ": " + str(e)[:200]}


def paths_part(ctx: vlib.Ctx, proofs_ok: bool):
    """positions below a field (NewType / Optional / collection element / nested dataclass / Self child):
    real classes vs K5PKernel.compile + Positions.ref_compile (in Coq) and vs the property-text oracle."""
    from harness.props import c10_paths as cp
    rng = ctx.rng
    n = ctx.budget(300, 2500) + (0 if proofs_ok else 600)
    cases = [cp.gen_path_case(rng) for _ in range(n)]
    srcs = [cp.build_source(c, PRELUDE) for c in cases]
    if len(cases) > 1500:
        with multiprocessing.get_context("fork").Pool(8) as pool:
            results = pool.map(_path_worker, srcs, chunksize=64)
    else:
        results = [_path_worker(s) for s in srcs]
    coq_cases, descr = [], []
    for case, src, res in zip(cases, srcs, results):
        ctx.hist("path_links", "+".join(case["links"]) or "none")
        ctx.hist("path_type_depth", str(len(cp.Term(case["type"]).nodes)))
        for d in ("ser", "de"):
            obs = {"error": res["class_error"]} if "class_error" in res else res[d]
            exp = cp.expected_obs(case, d)
            w, node = cp.oracle(case, d)
            ctx.hist("path_winner_node", "builtin" if w is None else f"node{node}")
            ctx.count(("path", case["entry"], repr(case["type"]), tuple(case["links"]), tuple(case["supports"]),
                       tuple(sorted(case["slots"].items())), d), nontrivial=bool(case["slots"]))
            coq_cases.append(cp.coq_case(case, d, obs, res.get("vals")))
            ctx.hist("path_valuations", "real classes" if "vals" in res else "stand-ins: " + res.get("vals_error", res.get("class_error", "?"))[:40])
            descr.append((case, d, obs))
            if obs != exp:
                ctx.fail(f"position precedence: {case['entry']} {d} type={case['type']} links={case['links']} "
                         f"supports={case['supports']} slots={case['slots']}: expected {exp}, observed {obs}",
                         {"entry": case["entry"], "dir": d, "kind": "path", "case": case, "source": src,
                          "observed": obs, "expected": exp},
                         {"kind": "position-precedence", "entry": case["entry"], "dir": d})
    for case, d, obs in descr[:2]:
        ctx.sample({"path_case": {k: case[k] for k in ("entry", "type", "links", "supports", "slots")}, "dir": d, "observed": obs}, limit=8)

    def compare(name, imports, gen_imports, defs, needs):
        bad, log = _bad_idx(name.replace("-", "_"), imports, gen_imports, defs, coq_cases, "path_ok", "path_case",
                                    shard=200, needs=needs, timeout=1800)
        if bad is None:
            ctx.correspondence(name, len(coq_cases), -1, log)
            ctx.not_shown("correspondence " + name, log)
            return False
        det = [f"{descr[i][0]['entry']} {descr[i][1]} type={descr[i][0]['type']} links={descr[i][0]['links']} "
               f"supports={descr[i][0]['supports']} slots={descr[i][0]['slots']} observed={descr[i][2]}" for i in bad[:5]]
        ctx.correspondence(name, len(coq_cases), len(bad), str(det))
        if bad:
            ctx.not_shown("correspondence " + name, str(det))
        return True

    done = False
    kr = ctx.kernel_report
    if all(kr.get(k, {}).get("ok") for k in ("K5", "K5P", "K8", "K5D", "K110a")):
        vb = vlib.coq_make(["theories/RegistryWalk.vo"])
        if vb.ok:
            done = compare("positions-real-classes-vs-registry-walk-compile-and-model",
                           "PyK_strat OptProj Strategies Positions K5Kernel K5PKernel Dispatch PositionsV RegistryWalk",
                           "From VerifGen Require Import K5 K5D K110a.", cp.COQ_DEFS + cp.valuation_defs() + cp.COQ_OK_REGISTRY,
                           ["theories/RegistryWalk.vo"])
        else:
            ctx.notes.append("RegistryWalk.v does not build against the translated kernels: " + (vb.error or "")[:300])
    if not done and all(kr.get(k, {}).get("ok") for k in ("K5", "K5P", "K8", "K5D")):
        vb = vlib.coq_make(["theories/PositionsV.vo"])
        if vb.ok:
            done = compare("positions-real-classes-vs-dispatched-compile-and-model",
                           "PyK_strat OptProj Strategies Positions K5Kernel K5PKernel Dispatch PositionsV",
                           "From VerifGen Require Import K5 K5D.", cp.COQ_DEFS + cp.valuation_defs() + cp.COQ_OK_DISPATCHED,
                           ["theories/PositionsV.vo"])
        else:
            ctx.notes.append("PositionsV.v does not build against the translated kernels: " + (vb.error or "")[:300])
    if not done and all(kr.get(k, {}).get("ok") for k in ("K5", "K5P", "K8")):
        kb = vlib.coq_make(["theories/K5PKernel.vo"])
        if kb.ok:
            done = compare("positions-real-classes-vs-compile-and-model",
                           "PyK_strat OptProj Strategies Positions K5Kernel K5PKernel",
                           "From VerifGen Require Import K5.", cp.COQ_DEFS + cp.valuation_defs() + cp.COQ_OK_KERNEL, ["theories/K5PKernel.vo"])
        else:
            ctx.notes.append("K5PKernel.v does not build against the translated kernels: " + (kb.error or "")[:300])
    if not done:
        compare("positions-real-classes-vs-model", "PyK_strat OptProj Strategies Positions", "", cp.COQ_DEFS + cp.valuation_defs() + cp.COQ_OK_MODEL,
                ["theories/Positions.vo"])


def registry_walk_validation(ctx: vlib.Ctx, n_terms: int):
    """(T) tie of K110a (+ K5D): for real type objects the REAL registries (PackerRegistry / UnpackerRegistry of the
    library) are walked on a real ValueSpec of a real CodeBuilder - which registered handler is the first to answer -
    and the translated walk (RegistryWalk.walk_d) under the valuation of the handlers' own tests for that type
    (library predicates) must name the same handler."""
    import collections
    import datetime
    import decimal
    import enum
    import fractions
    import ipaddress
    import pathlib
    import typing
    import uuid
    from dataclasses import dataclass
    from mashumaro import DataClassDictMixin
    from mashumaro.core.meta.code.builder import CodeBuilder
    from mashumaro.core.meta.helpers import get_type_origin, is_annotated
    from mashumaro.core.meta.types.common import FieldContext, ValueSpec
    from mashumaro.core.meta.types.pack import PackerRegistry
    from mashumaro.core.meta.types.unpack import UnpackerRegistry
    from mashumaro.types import GenericSerializableType, SerializableType
    from harness.props import c10_paths as cp
    name = "K110a-registry-walk-vs-real-registry"
    rng = ctx.rng

    @dataclass
    class Holder(DataClassDictMixin):
        x: int = 0

    @dataclass
    class ListDc(list, DataClassDictMixin):        # a dataclass that is also a collection: the dataclass handler is first
        y: int = 0

    class Ser1(SerializableType):
        def _serialize(self):
            return 1

        @classmethod
        def _deserialize(cls, v):
            return cls()

    class GSer(GenericSerializableType):
        def _serialize(self, types):
            return 1

        @classmethod
        def _deserialize(cls, v, types):
            return cls()

    class En(enum.Enum):
        A = 1

    class StrEn(str, enum.Enum):
        A = "a"

    class NTup(typing.NamedTuple):
        a: int

    class TDict(typing.TypedDict):
        a: int
    NT = typing.NewType("NT", int)
    T = typing.TypeVar("T")
    objs = [(repr(t)[:60], t) for t in (
        int, float, bool, type(None), str, bytes, bytearray, datetime.date, datetime.datetime, datetime.time, datetime.timedelta,
        datetime.timezone, uuid.UUID, decimal.Decimal, fractions.Fraction, ipaddress.IPv4Address, ipaddress.IPv6Network,
        pathlib.Path, pathlib.PurePosixPath, typing.Pattern, En, StrEn, NTup, TDict, NT, typing.Any, typing.Final[int],
        typing.Self, typing.Optional[typing.Self], typing.Tuple[typing.Self, ...], typing.Optional[int], typing.Union[int, str],
        typing.List[int], typing.Dict[str, int], typing.Tuple[int, str], typing.Tuple[int, ...], typing.Set[int],
        typing.FrozenSet[int], typing.Deque[int], collections.deque, typing.Mapping[str, int], typing.Sequence[int],
        collections.OrderedDict, typing.ChainMap[str, int], typing.Counter[str], typing.DefaultDict[str, int], list, dict, tuple,
        typing.Literal[1, "a"], typing.AnyStr, T, typing.Annotated[int, "m"], typing.Annotated[typing.List[int], "m"],
        typing.List[Holder], typing.Optional[Holder], Ser1, GSer, typing.Annotated[Holder, "m"])]
    for entry in ("mixin", "mixin_fmt", "codec_dc"):
        objs.append((f"path-case dataclass stand-in ({entry})", cp.standin_dataclass(entry)))
    objs += [("dataclass with the mixin", Holder), ("dataclass that is a list subclass", ListDc)]
    for _ in range(n_terms):
        term = cp.Term(cp.gen_type(rng))
        ns = {}
        exec("import datetime, decimal\nfrom typing import *\n" + "\n".join(term.defs), ns)
        for nd in term.nodes:
            objs.append((f"{nd['kind']} {nd['ex']}", ns[nd["ex"]]))

    def real_walk(side, t):
        reg = PackerRegistry if side == "pack" else UnpackerRegistry
        b = CodeBuilder(Holder)
        b.reset()
        spec = ValueSpec(type=t, expression="value", builder=b, field_ctx=FieldContext(name="x", metadata={}))
        for h in reg._registry:
            try:
                r = h(spec.copy())
            except Exception:  # noqa: BLE001  (the handler that raises is the one that took the type)
                return h.__name__
            if r is not None:
                return h.__name__
        return ""

    cases, descr = [], []
    for what, t in objs:
        if is_annotated(t):         # Registry.get hands the handlers the un-annotated type
            t = get_type_origin(t)
        for side in ("pack", "unpack"):
            try:
                real = real_walk(side, t)
                vals = cp.true_tests(t, side)
            except Exception as e:  # noqa: BLE001
                ctx.notes.append(f"registry walk validation: {what} skipped ({type(e).__name__})")
                continue
            cases.append(f"({'Ser' if side == 'pack' else 'De'}, [{'; '.join(vlib.coq_str(x) for x in vals)}], {vlib.coq_str(real)})")
            descr.append(f"{side} {what} -> real handler {real}")
            ctx.hist("registry_walk_handler", real or "none")
    if not all(ctx.kernel_report.get(k, {}).get("ok") for k in ("K5D", "K110a")):
        ctx.correspondence(name, len(cases), -1, "K110a / K5D was not translated")
        return
    defs = """
Definition memv (l: list string) (t: string) : bool := existsb (String.eqb t) l.
Definition walk_ok (c: dir * list string * string) : bool :=
  match c with (d, vals, real) => String.eqb (fst (walk_d d (memv vals))) real end.
"""
    bad, log = _bad_idx("c10_regwalk", "PyK_strat OptProj Strategies Positions Dispatch PositionsV RegistryWalk",
                                "From VerifGen Require Import K5D K110a.", defs, cases, "walk_ok", "dir * list string * string",
                                shard=150, needs=["theories/RegistryWalk.vo"])
    if bad is None:
        ctx.correspondence(name, len(cases), -1, log)
        ctx.not_shown("translation validation K110a (registry walk)", log)
    else:
        ctx.correspondence(name, len(cases), len(bad), str([descr[i] for i in bad[:8]]))
        if bad:
            ctx.not_shown("translation validation K110a (registry walk)", f"cases {[descr[i] for i in bad[:8]]}")
    ctx.count(n=len(cases))


def dispatch_validation(ctx: vlib.Ctx, n_terms: int):
    """(T) tie of K5D: for the real type objects of generated type terms (and Self / Tuple[Self, ...]) every test
    expression of the four dispatch chains is evaluated with the library's own predicates (in the namespace of
    pack.py / unpack.py, on a spec stand-in); the translated chain under that valuation must name the site the model
    uses for that kind of node."""
    import importlib.util
    import typing
    import mashumaro.core.meta.types.pack as pack
    import mashumaro.core.meta.types.unpack as unpack
    from mashumaro.core.meta.helpers import get_args, get_type_origin
    from harness.props import c10_paths as cp
    spec_ = importlib.util.spec_from_file_location("vk_k5d", os.path.join(vlib.VERIF, "tools", "kernels", "k5d_dispatch.py"))
    k5d = importlib.util.module_from_spec(spec_)
    spec_.loader.exec_module(k5d)
    texts = k5d.test_texts()
    rng = ctx.rng
    expect = {"opt": "SStep TOptional", "list": "SStep TElement", "dict": "SStep TElement", "nt": "SStep TNewType",
              "union": "SStep TMember", "tuple": "SStep TTupleItem", "ntuple": "SStep TNamedField", "tdict": "SStep TTypedKey",
              "leaf": "SDecline"}
    objs = []       # (description, type object, expected site)
    for _ in range(n_terms):
        term = cp.Term(cp.gen_type(rng))
        ns = {}
        exec("import datetime, decimal\nfrom typing import *\n" + "\n".join(term.defs), ns)
        for nd in term.nodes:
            objs.append((f"{nd['kind']} {nd['ex']}", ns[nd["ex"]], expect[nd["kind"]]))
    objs += [("Self", typing.Self, "SSelf"), ("Tuple[Self, ...]", typing.Tuple[typing.Self, ...], "SStep TTupleItem"),
             ("Optional[Self]", typing.Optional[typing.Self], "SStep TOptional"), ("int", int, "SDecline"),
             ("str", str, "SOther")]
    cases, descr = [], []
    for what, t, exp in objs:
        org = get_type_origin(t)
        for side, mod in (("pack", pack), ("unpack", unpack)):
            fake_builder = types.SimpleNamespace(get_field_resolved_type_params=lambda name: {}, cls=object, is_nailed=True,
                                                 dialect=None, initial_type_args=(), format_name="dict", encoder=None, decoder=None)
            sp = types.SimpleNamespace(type=t, origin_type=org, builder=fake_builder, field_ctx=types.SimpleNamespace(name="x", metadata={}),
                                       annotations=(), expression="value", no_copy_collections=())
            loc = {"spec": sp, "args": get_args(t), "resolved_type_params": {}, "constraints": (), "evaluated": None,
                   "method_name": "m", "method_loc": object}
            vals = []
            for tx in texts[side]:
                try:
                    v = bool(eval(tx, mod.__dict__, loc))
                except Exception:  # noqa: BLE001  (a test that cannot be evaluated for this type is not reached)
                    v = False
                vals.append(f"({vlib.coq_str(tx)}, {'true' if v else 'false'})")
            cases.append(f"({'true' if side == 'pack' else 'false'}, [{'; '.join(vals)}], {exp})")
            descr.append(f"{side} {what} -> {exp}")
            ctx.hist("dispatch_validation", exp)
    name = "K5D-dispatch-vs-python"
    if not ctx.kernel_report.get("K5D", {}).get("ok"):
        ctx.correspondence(name, len(cases), -1, "K5D was not translated")
        return
    defs = """
Fixpoint lkv (l: list (string * bool)) (t: string) : bool :=
  match l with [] => false | (k, b) :: r => if String.eqb k t then b else lkv r t end.
Definition site_eqb (a b: site) : bool :=
  match a, b with
  | SStep TNewType, SStep TNewType | SStep TOptional, SStep TOptional | SStep TElement, SStep TElement
  | SStep TMember, SStep TMember | SStep TTupleItem, SStep TTupleItem | SStep TNamedField, SStep TNamedField
  | SStep TTypedKey, SStep TTypedKey | SSelf, SSelf | SDecline, SDecline | SOther, SOther => true
  | _, _ => false end.
Definition disp_ok (c: bool * list (string * bool) * site) : bool :=
  match c with (pk, vals, ex) => site_eqb (site_of ((if pk then dispatch_pack else dispatch_unpack) (lkv vals))) ex end.
"""
    bad, log = _bad_idx("c10_dispatch", "PyK_strat OptProj Strategies Positions Dispatch", "From VerifGen Require Import K5D.",
                                defs, cases, "disp_ok", "bool * list (string * bool) * site", shard=100,
                                needs=["theories/Dispatch.vo"])
    if bad is None:
        ctx.correspondence(name, len(cases), -1, log)
        ctx.not_shown("translation validation K5D (dispatch)", log)
    else:
        ctx.correspondence(name, len(cases), len(bad), str([descr[i] for i in bad[:8]]))
        if bad:
            ctx.not_shown("translation validation K5D (dispatch)", f"cases {[descr[i] for i in bad[:8]]}")
    ctx.count(n=len(cases))


def replay(rep: dict) -> int:
    if rep.get("kind") == "path":
        res = exec_source(rep["source"])
        obs = {"error": res["class_error"]} if "class_error" in res else res[rep["dir"]]
        print("observed", obs, "expected", rep["expected"])
        if obs != rep["expected"]:
            print("REPRODUCED")
            return 1
        print("not reproduced")
        return 0
    res = exec_source(rep["source"])
    d = rep["dir"]
    obs = {"error": res["class_error"]} if "class_error" in res else res[d]
    exp = rep["expected"]
    print("observed", obs, "expected", exp)
    if "error" in obs or obs["layers"] != exp["layers"] or obs["base"] != exp["base"]:
        print("REPRODUCED")
        return 1
    print("not reproduced")
    return 0
