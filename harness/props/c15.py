"""C15 - all entry points agree (mixin methods, Encoder/Decoder objects, one-shot functions,
nested use; composite codec = elementwise; creating codecs/subclasses changes nothing)."""
from __future__ import annotations

import datetime
import json
import random

from harness import vlib
from harness import c15lib as L

THEOREMS = [
    "C15_agree_partial", "C15_agree_o_partial", "C15_pack_order_perm", "C15_exact_serializes", "C15_frame_o_partial",
    "C15_compositional_list", "C15_compositional_dict", "C15_compositional_tuple",
    "C15_compositional_optional", "C15_compositional_field", "C15_compositional_wrapper",
    "C15_unpack_compositional_list", "C15_unpack_compositional_dict", "C15_unpack_compositional_tuple",
    "C15_unpack_compositional_optional", "C15_unpack_agree", "C15_unpack_agree_data",
    "C15_frame_partial", "C15_frame_creation_extends", "C15_frame_history",
    "C15_lookalike_refuted", "C15_subclass_refuted", "C15_frame_subclass_refuted",
    "C15_fieldless_member_refuted", "C15_dialect_priority_refuted", "C15_union_order_observable", "C15_union_container_refuted",
]

FORMAT_THEOREMS = [
    "C15_format_agree_partial", "C15_format_agree_builtin_partial", "C15_format_agree_plain_partial", "C15_format_codec_list", "C15_format_codec_dict",
    "C15_format_decode_agree", "C15_format_decode_agree_data", "C15_format_priority_refuted",
]

HOLDER_THEOREMS = [
    "C15_site_target_kernel", "C15_site_method_loc_kernel", "C15_site_unpack_static", "C15_codec_creation_frame",
    "C15_codec_holders_disjoint", "C15_codec_complete", "C15_decoder_creation_frame_complete",
    "C15_frame_history_holders", "C15_frame_class_statements", "C15_selfref_codec_refuted", "C15_selfref_codec_late",
]

CASE_TYPE = "env * (bool * mode * opts) * ty * val * res val"
RUN = ("(fun c => match c with (E, (isp, m, dl), t, v, ex) => "
       "(if isp then run_pack_o E m dl t v else run_unpack E m t v) end)")
OK_FUN = ("fun c : (" + CASE_TYPE + ") => match c with (E, (isp, m, dl), t, v, ex) => "
          "match (if isp then run_pack_o E m dl t v else run_unpack E m t v) with "
          "| Err XUnmodelled => true | r => res_eqb r ex end end")
UNMODELLED_FUN = ("fun c : (" + CASE_TYPE + ") => match c with (E, (isp, m, dl), t, v, ex) => "
                  "match (if isp then run_pack_o E m dl t v else run_unpack E m t v) with "
                  "| Err XUnmodelled => false | _ => true end end")
# in the domain of C15_agree_partial  (bad_idx lists the cases where the predicate is FALSE)
DOMAIN_FUN = ("fun c : (" + CASE_TYPE + ") => match c with (E, (isp, m, dl), t, v, ex) => "
              "exact E v t && no_lookalike_union E t && dialect_compat_o E dl && names_ok E end")


# ---------------------------------------------------------------------------
# real entry points
# ---------------------------------------------------------------------------

def dl_of(sc, mod):
    return getattr(mod, "Dl") if sc.dialect is not None else None


def real_pack(sc, mod, i, obj, mode):
    from mashumaro.codecs.basic import BasicEncoder
    Dl = dl_of(sc, mod)
    if mode == "mixin":
        W = getattr(mod, f"W{i}")
        # (a None root under a call dialect with omit_none: the wrapper drops its own field)
        r = L.call(lambda: (W(f=obj).to_dict(dialect=Dl) if Dl else W(f=obj).to_dict()).get("f") if obj is None
                   else (W(f=obj).to_dict(dialect=Dl) if Dl else W(f=obj).to_dict())["f"])
    else:
        T = mod.ROOTS[i]
        r = L.call(lambda: (BasicEncoder(T, default_dialect=Dl) if Dl else BasicEncoder(T)).encode(obj))
    if r[0] == "ok":
        return r
    k = L.classify_exc(r[1])
    if k[1] == "invalid":          # to_dict raises InvalidFieldValue only from a union packer
        k = ("err", "unionI")
    return k


def real_unpack(sc, mod, i, wire, mode):
    from mashumaro.codecs.basic import BasicDecoder
    from mashumaro.exceptions import InvalidFieldValue
    Dl = dl_of(sc, mod)
    if mode == "mixin":
        W = getattr(mod, f"W{i}")
        r = L.call(lambda: (W.from_dict({"f": wire}, dialect=Dl) if Dl else W.from_dict({"f": wire})).f)
        if r[0] == "ok":
            return r
        e = r[1]
        if not (isinstance(e, InvalidFieldValue) and e.field_name == "f" and e.holder_class is W):
            return ("err", "other:unwrapped-" + type(e).__name__)
        inner = e.__context__
        if inner is None:
            return ("err", "other:no-context")
        k = L.classify_exc(inner)
        if k[1] == "invalid" and inner.holder_class is W:
            k = ("err", "unionI")      # raised by the union method of W's own field
        return k
    T = mod.ROOTS[i]
    r = L.call(lambda: (BasicDecoder(T, default_dialect=Dl) if Dl else BasicDecoder(T)).decode(wire))
    if r[0] == "ok":
        return r
    return L.classify_exc(r[1])


# ---------------------------------------------------------------------------
# fixed scenarios that keep the known findings (and the plain cases) visible on every run
# ---------------------------------------------------------------------------

def fixed_scenarios():
    out = []
    # D8 look-alike union
    sc = L.Scenario("fx-lookalike")
    a = L.Cls("K0", None, False, [("x", None, ("int",))], False, None)
    b = L.Cls("K1", None, False, [("x", None, ("date",))], False, None)
    sc.classes = [a, b]
    sc.roots = [("union", [("data", "K0"), ("data", "K1")]), ("data", "K1")]
    out.append((sc, [(0, ("obj", "K1", [("x", ("date", "2020-01-02"))])), (0, ("obj", "K0", [("x", ("int", 3))])),
                     (1, ("obj", "K1", [("x", ("date", "2021-03-04"))]))]))
    # subclass instance at a parent-annotated position (mixin family)
    sc = L.Scenario("fx-subclass")
    p = L.Cls("K0", None, True, [("x", None, ("int",))], False, None)
    c = L.Cls("K1", p, False, [("y", None, ("int",))], False, None)
    o = L.Cls("K2", None, True, [("f", None, ("data", "K0"))], False, None)
    sc.classes = [p, c, o]
    sc.roots = [("data", "K2"), ("data", "K0"), ("list", ("data", "K0"))]
    sub = ("obj", "K1", [("x", ("int", 1)), ("y", ("int", 2))])
    out.append((sc, [(0, ("obj", "K2", [("f", sub)])), (1, sub), (2, ("list", [sub])),
                     (0, ("obj", "K2", [("f", ("obj", "K0", [("x", ("int", 1))]))]))]))
    # plain subclass that nobody annotates: inherits the parent's installed method
    sc = L.Scenario("fx-plain-subclass")
    p = L.Cls("K0", None, False, [("x", None, ("int",))], False, None)
    c = L.Cls("K1", p, False, [("y", None, ("int",))], False, None)
    sc.classes = [p, c]
    sc.roots = [("data", "K0"), ("opt", ("data", "K0"))]
    sub = ("obj", "K1", [("x", ("int", 1)), ("y", ("int", 2))])
    out.append((sc, [(0, sub), (1, sub), (1, ("none",)), (0, ("obj", "K0", [("x", ("int", 9))]))]))
    # field-less dataclass member in a union
    sc = L.Scenario("fx-fieldless")
    e0 = L.Cls("K0", None, False, [], False, None)
    sc.classes = [e0]
    sc.roots = [("union", [("data", "K0"), ("date",)]), ("data", "K0")]
    out.append((sc, [(0, ("date", "2020-01-02")), (0, ("obj", "K0", [])), (1, ("obj", "K0", []))]))
    # dialect priority: Config says False, dialect says True
    sc = L.Scenario("fx-dialect")
    sc.dialect = True
    a = L.Cls("K0", None, True, [("x", "a_x", ("int",))], True, False)
    b = L.Cls("K1", None, True, [("y", "a_y", ("int",)), ("k", None, ("data", "K0"))], True, None)
    sc.classes = [a, b]
    sc.roots = [("data", "K0"), ("data", "K1")]
    out.append((sc, [(0, ("obj", "K0", [("x", ("int", 1))])),
                     (1, ("obj", "K1", [("y", ("int", 2)), ("k", ("obj", "K0", [("x", ("int", 1))]))]))]))
    return out


# ---------------------------------------------------------------------------
# (M) correspondence: model vs real implementation through both paths
# ---------------------------------------------------------------------------

class Case:
    __slots__ = ("sc", "env_name", "isp", "mode", "i", "v", "exp", "info", "src", "t")

    def __init__(self):
        self.t = None

    @property
    def ty(self):
        return self.t if self.t is not None else self.sc.roots[self.i]


def collect_cases(ctx, scen_values):
    """run the real implementation; returns cases + per-scenario env definitions"""
    cases = []
    defs = []
    for n, (sc, vals, src, mod) in enumerate(scen_values):
        if sc.wide:
            continue
        env_name = f"E{n}"
        defs.append(f"Definition {env_name} : env :=\n  {L.coq_env(sc)}.")
        for (i, v, info) in vals:
            try:
                obj = L.build(mod, v)
            except Exception as e:  # the harness built an ill-formed value: a bug of the check
                raise RuntimeError(f"cannot build {v} in {sc.sid}: {e}")
            wires = []
            for mode in ("mixin", "codec"):
                r = real_pack(sc, mod, i, obj, mode)
                c = Case()
                c.sc, c.env_name, c.isp, c.mode, c.i, c.v, c.exp, c.info, c.src = sc, env_name, True, mode, i, v, r, info, src
                cases.append(c)
                if r[0] == "ok" and L.in_universe(r[1]):
                    wires.append(r[1])
            # decoding: the wire form (when there is one) and perturbations of it
            seen = []
            for w in wires[:1]:
                cand = [w] + [L.mutate_wire(ctx.rng, w) for _ in range(2)]
                for d in cand:
                    if d in seen:
                        continue
                    seen.append(d)
                    dobj = L.build(mod, d)
                    for mode in ("mixin", "codec"):
                        r = real_unpack(sc, mod, i, dobj, mode)
                        c = Case()
                        c.sc, c.env_name, c.isp, c.mode, c.i, c.v, c.exp, c.info, c.src = sc, env_name, False, mode, i, d, r, info, src
                        cases.append(c)
        # sequences of one-shot calls over equal-but-differently-ordered shape types
        cases.extend(oneshot_history(ctx, sc, mod, src, env_name))
    return cases, "\n".join(defs)


def member_perms(rng, ms, limit=4):
    import itertools
    perms = [list(p) for p in itertools.permutations(ms)]
    rng.shuffle(perms)
    return perms[:limit]


def oneshot_history(ctx, sc, mod, src, env_name):
    """encode(v, T) / decode(d, T) called one after another for shape types that compare (and hash)
    equal but are (de)serialized differently - typing.Union ignores the order of its members in ==,
    the codecs try them in order.  Every one-shot result must equal that of a fresh codec object for
    the very same type object; the results also go to the correspondence (model: codec path)."""
    import typing
    from mashumaro.codecs.basic import BasicDecoder, BasicEncoder, decode, encode
    out = []
    if sc.dialect is not None:
        return out                      # the one-shot functions take no dialect
    for i, t in enumerate(sc.roots):
        if t[0] != "union":
            continue
        perms = member_perms(ctx.rng, t[1])
        pys = []
        for pm in perms:
            try:
                pys.append(typing.Union[tuple(eval(L.py_ty(m), mod.__dict__) for m in pm)])
            except Exception as e:
                raise RuntimeError(f"cannot build union {pm}: {e}")
        vals = [L.gen_value(ctx.rng, sc, t) for _ in range(2)]
        objs = [L.build(mod, v) for v in vals]
        wires = []
        for o in objs:
            r = L.call(lambda: BasicEncoder(pys[0]).encode(o))
            if r[0] == "ok" and L.in_universe(r[1]):
                wires += [r[1], L.mutate_wire(ctx.rng, r[1])]
        wobjs = [L.build(mod, w) for w in wires]
        ctx.hist("oneshot_history", f"perms={len(perms)}")
        for pm, T in zip(perms, pys):
            for (isp, xs, asts, one, obj) in ((True, objs, vals, lambda x, T=T: encode(x, T), lambda x, T=T: BasicEncoder(T).encode(x)),
                                             (False, wobjs, wires, lambda x, T=T: decode(x, T), lambda x, T=T: BasicDecoder(T).decode(x))):
                for x, ast in zip(xs, asts):
                    r1 = L.call(lambda: one(x))
                    r2 = L.call(lambda: obj(x))
                    ctx.count(("oneshot", sc.sid, i, repr(pm), isp, repr(ast)), n=2)
                    k1, k2 = res_key(r1), res_key(r2)
                    if k1 != k2:
                        ctx.fail(f"one-shot {'encode' if isp else 'decode'}(x, {L.py_ty(('union', pm))}) = {show(k1)} but a fresh "
                                 f"{'BasicEncoder' if isp else 'BasicDecoder'} for the same type gives {show(k2)} "
                                 f"(after one-shot calls for {[L.py_ty(('union', q)) for q in perms[:perms.index(pm)]]})",
                                 {"entry": "oneshot-history", "source": src, "root": i, "perms": perms, "at": perms.index(pm),
                                  "pack": isp, "input": ast, "values": vals, "wires": wires, "dialect": None,
                                  "observed": show(k1), "expected": show(k2)},
                                 {"kind": "oneshot-history"})
                    if env_name is not None:
                        c = Case()
                        c.sc, c.env_name, c.isp, c.mode, c.i, c.v, c.info, c.src = sc, env_name, isp, "oneshot", i, ast, {}, src
                        c.t = ("union", pm)
                        c.exp = r1 if r1[0] == "ok" else L.classify_exc(r1[1])
                        out.append(c)
    return out


def coq_case(c: Case) -> str:
    sc = c.sc
    dl = L.coq_opts(sc) if c.isp else "no_opts"
    return (f"({c.env_name}, ({'true' if c.isp else 'false'}, {'Mixin' if c.mode == 'mixin' else 'Codec'}, {dl}), "
            f"{L.coq_ty(c.ty)}, {L.coq_val(c.v)}, {L.coq_res(c.exp)})")


def describe(c: Case) -> dict:
    return {"scenario": c.sc.sid, "direction": "pack" if c.isp else "unpack", "mode": c.mode,
            "type": L.py_ty(c.ty), "value": repr(c.v), "impl": repr(c.exp), "dialect_by_alias": c.sc.dialect}


# ---------------------------------------------------------------------------
# locating the first differing position of two outputs (for signatures)
# ---------------------------------------------------------------------------

def first_diff(sc, t, v, a, b):
    """walk type/value/two outputs in parallel; returns (type, value) at the outermost position
    whose two outputs differ and below which the walk cannot be continued."""
    if a == b:
        return None
    k = t[0]
    if k == "opt":
        if v[0] == "none":
            return (t, v)
        return first_diff(sc, t[1], v, a, b)
    if a[0] != b[0] or a[0] == "err":
        return (t, v)
    if k == "union":
        # descend only through the FIRST member the value conforms to, and only if no earlier member could have
        # produced the difference by dispatching on the value (then the difference belongs to the union itself)
        for n, mt in enumerate(t[1]):
            if conforms(sc, mt, v):
                earlier = [q for q in t[1][:n] if q[0] in ("list", "dict", "tuple", "data")]
                if not earlier and mt[0] in ("list", "dict", "tuple", "data"):
                    d = first_diff(sc, mt, v, a, b)
                    if d is not None and d != (mt, v):
                        return d
                break
        return (t, v)
    if k == "list" and v[0] in ("list", "tuple") and a[0] == "list" and b[0] == "list" and len(a[1]) == len(b[1]) == len(v[1]):
        for x, ax, bx in zip(v[1], a[1], b[1]):
            d = first_diff(sc, t[1], x, ax, bx)
            if d:
                return d
    if k == "dict" and v[0] == "dict" and a[0] == "dict" and b[0] == "dict" and [q[0] for q in a[1]] == [q[0] for q in b[1]] == [q[0] for q in v[1]]:
        for (_, x), (_, ax), (_, bx) in zip(v[1], a[1], b[1]):
            d = first_diff(sc, t[1], x, ax, bx)
            if d:
                return d
    if k == "tuple" and v[0] in ("list", "tuple") and a[0] == "list" and b[0] == "list" and len(a[1]) == len(b[1]) == len(t[1]) <= len(v[1]):
        for tt, x, ax, bx in zip(t[1], v[1], a[1], b[1]):
            d = first_diff(sc, tt, x, ax, bx)
            if d:
                return d
    if k == "data" and v[0] == "obj" and v[1] == t[1] and a[0] == "dict" and b[0] == "dict":
        c = sc.cls(t[1])
        # outputs are matched by key (name or alias): sort_keys / omit_none / omit_default reorder or drop entries
        da, db, vals = dict(a[1]), dict(b[1]), dict(v[2])
        if set(da) == set(db):
            for (fn, al, ft) in c.fields:
                key = fn if fn in da else al
                if key in da and fn in vals:
                    d = first_diff(sc, ft, vals[fn], da[key], db[key])
                    if d:
                        return d
    return (t, v)


def conforms(sc, t, v) -> bool:
    """isinstance-conformance of a value AST to a type AST (strict-subclass instances conform)"""
    k = t[0]
    if k in ("int", "str", "date"):
        return v[0] == k
    if k == "list":
        return v[0] == "list" and all(conforms(sc, t[1], x) for x in v[1])
    if k == "dict":
        return v[0] == "dict" and all(conforms(sc, t[1], x) for _, x in v[1])
    if k == "tuple":
        return v[0] == "tuple" and len(v[1]) == len(t[1]) and all(conforms(sc, tt, x) for tt, x in zip(t[1], v[1]))
    if k == "opt":
        return v[0] == "none" or conforms(sc, t[1], v)
    if k == "union":
        return any(conforms(sc, m, v) for m in t[1])
    if k == "data":
        if v[0] != "obj":
            return False
        try:
            rc = sc.cls(v[1])
        except KeyError:
            return False
        return v[1] == t[1] or rc.is_strict_sub_of(t[1])
    return False


def wrap(r):
    return r[1] if r[0] == "ok" else ("err",) + tuple(r[1:])


def signature_of(sc, t, v, mixin_r, codec_r) -> dict:
    """precise classification of a mixin-vs-codec difference"""
    d = first_diff(sc, t, v, wrap(mixin_r) if mixin_r[0] == "ok" else ("err",), wrap(codec_r) if codec_r[0] == "ok" else ("err",))
    if d is None:
        return {"kind": "none"}
    (pt, pv) = d
    sig = {"kind": "unclassified", "position_type": L.py_ty(pt)}
    if pv[0] == "obj" and pt[0] == "data" and sc.cls(pv[1]).is_strict_sub_of(pt[1]):
        sig["kind"] = "codec-subclass-static-dispatch"
        return sig
    if pt[0] == "union":
        dms = [m[1] for m in pt[1] if m[0] == "data"]
        if pv[0] == "obj":
            rc = sc.cls(pv[1])
            # strict-subclass instance of a member, not itself a member
            if pv[1] not in dms and any(rc.is_strict_sub_of(m) for m in dms):
                sig["kind"] = "codec-subclass-static-dispatch"
                return sig
            if len(dms) >= 2 and pv[1] in dms and dms.index(pv[1]) > 0:
                sig["kind"] = "codec-union-static-dispatch"
                return sig
        if mixin_r[0] == "ok" and codec_r[0] == "ok" and pv[0] in ("list", "tuple", "dict") and \
                any(m[0] in ("list", "dict", "tuple") and L.data_names(m) for m in pt[1]):
            # a container member whose element packers dispatch dynamically (mixin) / statically (codec) meets a
            # container value of another member
            sig["kind"] = "union-container-member-dispatch"
            return sig
        fieldless_before = [m for m in dms if not sc.cls(m).fields and not (pv[0] == "obj" and pv[1] == m)]
        if fieldless_before and codec_r[0] == "ok" and codec_r[1] == ("dict", []):
            sig["kind"] = "codec-union-fieldless-member"
            return sig
    return sig


# ---------------------------------------------------------------------------
# direct oracle of the property on the real implementation
# ---------------------------------------------------------------------------

def res_key(r):
    """comparable outcome of an entry point: value, or the mapped error class"""
    if r[0] == "ok":
        return ("ok", r[1])
    k = L.classify_exc(r[1])
    if k[1] in ("unionI", "unionV"):
        return ("err", "union")
    return k


def oracle_entry_points(ctx, sc, mod, src, cls_name, v, conforming_kind):
    """all ways to serialize one dataclass value must agree (and dually for decoding)"""
    from mashumaro.codecs.basic import BasicDecoder, BasicEncoder, decode, encode
    from typing import Dict, List, Optional, Tuple
    D = getattr(mod, cls_name)
    Dl = dl_of(sc, mod)
    c = sc.cls(cls_name)
    x = L.build(mod, v)
    kw = {"default_dialect": Dl} if Dl else {}
    mk = {}
    wi = [i for i, r in enumerate(sc.roots) if r == ("data", cls_name)]
    eps = {}
    if c.mixin:
        eps["D.to_dict(x)"] = lambda: (type(x).to_dict(x, dialect=Dl) if Dl else type(x).to_dict(x))
    eps["BasicEncoder(D).encode(x)"] = lambda: BasicEncoder(D, **kw).encode(x)
    if not Dl:
        eps["encode(x, D)"] = lambda: encode(x, D)
        # a fresh, immediately dropped type object per call (builtin generics are not interned)
        eps["encode([x], list[D])[0]"] = lambda: encode([x], list[D])[0]
        eps["encode({'k':x}, dict[str,D])['k']"] = lambda: encode({"k": x}, dict[str, D])["k"]
    eps["BasicEncoder(List[D]).encode([x])[0]"] = lambda: BasicEncoder(List[D], **kw).encode([x])[0]
    eps["BasicEncoder(Dict[str,D]).encode({'k':x})['k']"] = lambda: BasicEncoder(Dict[str, D], **kw).encode({"k": x})["k"]
    eps["BasicEncoder(Tuple[D,int]).encode((x,1))[0]"] = lambda: BasicEncoder(Tuple[D, int], **kw).encode((x, 1))[0]
    eps["BasicEncoder(Optional[D]).encode(x)"] = lambda: BasicEncoder(Optional[D], **kw).encode(x)
    if wi:
        W = getattr(mod, f"W{wi[0]}")
        eps["W(f=x).to_dict()['f']"] = lambda: (W(f=x).to_dict(dialect=Dl) if Dl else W(f=x).to_dict())["f"]
    outs = {k: res_key(L.call(f)) for k, f in eps.items()}
    ctx.count(("ep-pack", sc.sid, cls_name, repr(v)), n=len(outs))
    ctx.hist("oracle_kind", "pack:" + conforming_kind)
    compat = L.scenario_compat(sc)
    names = list(outs)
    ref = names[0]
    for k in names[1:]:
        if outs[k] != outs[ref]:
            a_mix = ("to_dict" in ref)
            sig = {"kind": "unclassified"}
            if not compat and outs[ref][0] == "ok" and outs[k][0] == "ok":
                sig = {"kind": "dialect-priority"}       # documented precedence, not a finding: skipped
            elif outs[ref][0] == "ok" and outs[k][0] == "ok" and a_mix:
                sig = signature_of(sc, ("data", cls_name), v, outs[ref], outs[k])
            elif outs[ref][0] == "ok" and outs[k][0] == "ok":
                sig = signature_of(sc, ("data", cls_name), v, outs[k], outs[ref]) if "to_dict" in k else sig
            if sig["kind"] == "dialect-priority":
                ctx.hist("oracle_kind", "skipped:dialect-priority")
                continue
            ctx.fail(f"entry points disagree on {cls_name}: {ref} = {show(outs[ref])} but {k} = {show(outs[k])}",
                     {"entry": "entry-points-pack", "source": src, "class": cls_name, "value": v, "dialect": sc.dialect,
                      "a": ref, "b": k, "observed_a": show(outs[ref]), "observed_b": show(outs[k]),
                      "expected": "identical results"},
                     sig)
            break
    # decoding duals on the wire form and a perturbed one
    base = outs.get("BasicEncoder(D).encode(x)")
    if not base or base[0] != "ok" or not L.in_universe(base[1]):
        return
    for d in [base[1], L.mutate_wire(ctx.rng, base[1])]:
        dobj = L.build(mod, d)
        dps = {}
        if c.mixin:
            dps["D.from_dict(d)"] = lambda: (D.from_dict(dobj, dialect=Dl) if Dl else D.from_dict(dobj))
        dps["BasicDecoder(D).decode(d)"] = lambda: BasicDecoder(D, **kw).decode(dobj)
        if not Dl:
            dps["decode(d, D)"] = lambda: decode(dobj, D)
            dps["decode([d], list[D])[0]"] = lambda: decode([dobj], list[D])[0]
        dps["BasicDecoder(List[D]).decode([d])[0]"] = lambda: BasicDecoder(List[D], **kw).decode([dobj])[0]
        dps["BasicDecoder(Dict[str,D]).decode({'k':d})['k']"] = lambda: BasicDecoder(Dict[str, D], **kw).decode({"k": dobj})["k"]
        dps["BasicDecoder(Tuple[D,int]).decode([d,1])[0]"] = lambda: BasicDecoder(Tuple[D, int], **kw).decode([dobj, 1])[0]
        if d != ("none",):
            dps["BasicDecoder(Optional[D]).decode(d)"] = lambda: BasicDecoder(Optional[D], **kw).decode(dobj)
        if wi:
            W = getattr(mod, f"W{wi[0]}")

            def via_w():
                from mashumaro.exceptions import InvalidFieldValue
                try:
                    return (W.from_dict({"f": dobj}, dialect=Dl) if Dl else W.from_dict({"f": dobj})).f
                except InvalidFieldValue as e:
                    if e.field_name == "f" and e.holder_class is W and e.__context__ is not None:
                        raise e.__context__
                    raise
            dps["W.from_dict({'f':d}).f"] = via_w
        douts = {k: res_key(L.call(f)) for k, f in dps.items()}
        ctx.count(("ep-unpack", sc.sid, cls_name, repr(d)), n=len(douts))
        ctx.hist("oracle_kind", "unpack:" + ("ok" if list(douts.values())[0][0] == "ok" else "error"))
        names = list(douts)
        for k in names[1:]:
            if douts[k] != douts[names[0]]:
                ctx.fail(f"decoding entry points disagree on {cls_name}: {names[0]} = {show(douts[names[0]])} but {k} = {show(douts[k])}",
                         {"entry": "entry-points-unpack", "source": src, "class": cls_name, "wire": d, "dialect": sc.dialect,
                          "a": names[0], "b": k, "observed_a": show(douts[names[0]]), "observed_b": show(douts[k]),
                          "expected": "identical results"},
                         {"kind": "unclassified-unpack"})
                break
    # Optional[D] and None
    r = L.call(lambda: (BasicDecoder(Optional[D], **kw).decode(None), BasicEncoder(Optional[D], **kw).encode(None)))
    ctx.count(("ep-none", sc.sid, cls_name))
    if r != ("ok", ("tuple", [("none",), ("none",)])):
        ctx.fail(f"Optional[{cls_name}] codec does not map None to None: {show(res_key(r))}",
                 {"entry": "optional-none", "source": src, "class": cls_name, "dialect": sc.dialect,
                  "observed": show(res_key(r)), "expected": "(None, None)"},
                 {"kind": "optional-none"})


def show(r):
    return repr(r)[:400]


def oracle_compositional(ctx, sc, mod, src, i, vals):
    """a codec for a composite shape equals applying the element codec elementwise; the one-shot
    functions equal the codec objects"""
    from mashumaro.codecs.basic import BasicDecoder, BasicEncoder, decode, encode
    from typing import Dict, List, Optional, Tuple
    import typing
    T = mod.ROOTS[i]
    if not (typing.get_args(List[T])[0] is T and typing.get_args(Dict[str, T])[1] is T and typing.get_args(Tuple[T, T])[0] is T):
        ctx.hist("oracle_kind", "skipped:typing-interned-an-equal-composite")
        return      # List[T] would be an older, equal-but-differently-ordered object (typing cache)
    Dl = dl_of(sc, mod)
    kw = {"default_dialect": Dl} if Dl else {}
    objs = [L.build(mod, v) for v in vals]
    enc = BasicEncoder(T, **kw)
    single = [res_key(L.call(lambda o=o: enc.encode(o))) for o in objs]
    ctx.count(("comp", sc.sid, i, len(vals)), n=4)
    if any(s[0] != "ok" for s in single):
        return
    checks = {
        "BasicEncoder(List[T]).encode(l) == [BasicEncoder(T).encode(e) for e in l]":
            (lambda: BasicEncoder(List[T], **kw).encode(list(objs)), ("list", [s[1] for s in single])),
        "BasicEncoder(Dict[str,T]).encode(m) == {k: BasicEncoder(T).encode(e)}":
            (lambda: BasicEncoder(Dict[str, T], **kw).encode({f"k{j}": o for j, o in enumerate(objs)}),
             ("dict", [(f"k{j}", s[1]) for j, s in enumerate(single)])),
        "BasicEncoder(Tuple[T,T]).encode((a,b)) == [enc(a), enc(b)]":
            (lambda: BasicEncoder(Tuple[T, T], **kw).encode((objs[0], objs[-1])), ("list", [single[0][1], single[-1][1]])),
    }
    if not Dl:
        checks["encode(v, T) == BasicEncoder(T).encode(v)"] = (lambda: encode(objs[0], T), single[0][1])
    for name, (f, expect) in checks.items():
        got = res_key(L.call(f))
        if got != ("ok", expect):
            ctx.fail(f"composite codec is not elementwise for T={L.py_ty(sc.roots[i])}: {name}: got {show(got)}, elementwise {show(expect)}",
                     {"entry": "compositional-pack", "source": src, "root": i, "values": vals, "dialect": sc.dialect,
                      "check": name, "observed": show(got), "expected": show(expect)},
                     {"kind": "compositional"})
    # decoding side
    wires = [s[1] for s in single if L.in_universe(s[1])]
    if len(wires) != len(single):
        return
    dec = BasicDecoder(T, **kw)
    wobjs = [L.build(mod, w) for w in wires]
    dsingle = [res_key(L.call(lambda o=o: dec.decode(o))) for o in wobjs]
    if any(s[0] != "ok" for s in dsingle):
        return
    dchecks = {
        "BasicDecoder(List[T]).decode(l) == [BasicDecoder(T).decode(e) for e in l]":
            (lambda: BasicDecoder(List[T], **kw).decode(list(wobjs)), ("list", [s[1] for s in dsingle])),
        "BasicDecoder(Dict[str,T]).decode(m)":
            (lambda: BasicDecoder(Dict[str, T], **kw).decode({f"k{j}": o for j, o in enumerate(wobjs)}),
             ("dict", [(f"k{j}", s[1]) for j, s in enumerate(dsingle)])),
        "BasicDecoder(Tuple[T,T]).decode([a,b])":
            (lambda: BasicDecoder(Tuple[T, T], **kw).decode([wobjs[0], wobjs[-1]]), ("tuple", [dsingle[0][1], dsingle[-1][1]])),
    }
    if not Dl:
        dchecks["decode(d, T) == BasicDecoder(T).decode(d)"] = (lambda: decode(wobjs[0], T), dsingle[0][1])
    for name, (f, expect) in dchecks.items():
        got = res_key(L.call(f))
        if got != ("ok", expect):
            ctx.fail(f"composite decoder is not elementwise for T={L.py_ty(sc.roots[i])}: {name}: got {show(got)}, elementwise {show(expect)}",
                     {"entry": "compositional-unpack", "source": src, "root": i, "wires": wires, "dialect": sc.dialect,
                      "check": name, "observed": show(got), "expected": show(expect)},
                     {"kind": "compositional"})


def oracle_decompose(ctx, sc, mod, src, i, vals):
    """a codec for a shape == the codecs of its COMPONENTS applied componentwise, one level down: tuple items, list/dict
    elements, Optional, and the fields of a dataclass (use nested inside another dataclass) - encoding and decoding"""
    from mashumaro.codecs.basic import BasicDecoder, BasicEncoder
    import dataclasses as dc
    t = sc.roots[i]
    T = mod.ROOTS[i]
    Dl = dl_of(sc, mod)
    kw = {"default_dialect": Dl} if Dl else {}

    def pytype(ast):
        tp = eval(L.py_ty(ast), mod.__dict__)
        return tp if py_to_ast(tp) == ast else None      # typing may hand out an older equal-but-reordered object

    def comps(ast, obj, wire, decoding=False):
        """[(label, component type AST, component object, component wire)]"""
        k = ast[0]
        out = []
        if k == "tuple" and isinstance(obj, tuple) and isinstance(wire, list) and len(obj) == len(wire) == len(ast[1]):
            out = [(f"[{j}]", ast[1][j], obj[j], wire[j]) for j in range(len(obj))]
        elif k == "list" and isinstance(obj, list) and isinstance(wire, list) and len(obj) == len(wire):
            out = [(f"[{j}]", ast[1], obj[j], wire[j]) for j in range(len(obj))]
        elif k == "dict" and isinstance(obj, dict) and isinstance(wire, dict) and list(obj) == list(wire):
            out = [(f"[{kk!r}]", ast[1], obj[kk], wire[kk]) for kk in obj]
        elif k == "opt" and obj is not None and wire is not None:
            out = [("", ast[1], obj, wire)]
        elif k == "data" and dc.is_dataclass(obj) and L.cname(type(obj)) == ast[1] and isinstance(wire, dict):
            for (fn, al, ft) in sc.cls(ast[1]).fields:
                # to_dict writes name or alias; from_dict reads the alias when there is one
                key = (al or fn) if decoding else (fn if fn in wire else al)
                if key in wire:
                    out.append(("." + fn, ft, getattr(obj, fn), wire[key]))
        return out

    for v in vals:
        x = L.build(mod, v)
        whole = L.call(lambda: BasicEncoder(T, **kw).encode(x))
        if whole[0] != "ok":
            continue
        wire = BasicEncoder(T, **kw).encode(x)
        rb = L.call(lambda: BasicDecoder(T, **kw).decode(wire))
        if rb[0] != "ok":
            # the whole decoder rejects its own encoder's output: then some component decoder must reject its component
            # (positional shapes only: a dataclass may legitimately reject its own output, e.g. alias keys)
            cs = [(label, ct, pytype(ct), cwire) for (label, ct, _, cwire) in comps(t, x, wire, decoding=True)]
            if t[0] == "data":
                # a dataclass may legitimately reject its own output (alias keys, forbid_extra_keys): the claim needs every
                # field's decoding key to be present and no extra-key policy
                c = sc.cls(t[1])
                if len(cs) != len(c.fields) or "forbid_extra_keys" in c.extra or not c.fields:
                    cs = []
            if cs and all(CT is not None for (_, _, CT, _) in cs):
                rs = [res_key(L.call(lambda CT=CT, cwire=cwire: BasicDecoder(CT, **kw).decode(cwire))) for (_, _, CT, cwire) in cs]
                ctx.count(("decompose-dec-err", sc.sid, i, repr(v)), n=len(rs) + 1)
                first_err = next((r for r in rs if r[0] != "ok"), None)
                if first_err is not None and t[0] != "data" and res_key(rb) != first_err:
                    # positional shapes evaluate their components in order: the whole decoder fails exactly like the
                    # first failing component decoder (C15_unpack_compositional_*)
                    ctx.fail(f"decoder for {L.py_ty(t)} raises {show(res_key(rb))} but its first failing component decoder raises {show(first_err)}",
                             {"entry": "decompose", "source": src, "root": i, "value": v, "dialect": sc.dialect, "at": "*",
                              "pack": False, "observed": show(res_key(rb)), "expected": show(first_err)},
                             {"kind": "decompose"})
                if all(r[0] == "ok" for r in rs):
                    ctx.fail(f"decoder for {L.py_ty(t)} raises {show(res_key(rb))} on the output of its own encoder although every component "
                             f"decoder accepts its component ({[c[0] for c in cs]})",
                             {"entry": "decompose", "source": src, "root": i, "value": v, "dialect": sc.dialect, "at": "*",
                              "pack": False, "observed": show(res_key(rb)), "expected": "componentwise success"},
                             {"kind": "decompose"})
            continue
        try:
            back = BasicDecoder(T, **kw).decode(wire)
        except Exception:
            continue
        for (label, ct, cobj, cwire) in comps(t, x, wire):
            CT = pytype(ct)
            if CT is None:
                continue
            ctx.count(("decompose", sc.sid, i, label, repr(v)), n=2)
            e1 = res_key(L.call(lambda: BasicEncoder(CT, **kw).encode(cobj)))
            if e1 != ("ok", L.canon(cwire)):
                ctx.fail(f"encoder for {L.py_ty(t)} is not componentwise at {label}: whole gives {show(L.canon(cwire))}, "
                         f"BasicEncoder({L.py_ty(ct)}) gives {show(e1)}",
                         {"entry": "decompose", "source": src, "root": i, "value": v, "dialect": sc.dialect, "at": label,
                          "pack": True, "observed": show(L.canon(cwire)), "expected": show(e1)},
                         {"kind": "decompose"})
                continue
        # decoding: the whole decoder's components vs the component decoders on the component wires
        bcomps = comps(t, back, wire, decoding=True)
        for (label, ct, cback, cwire) in bcomps:
            CT = pytype(ct)
            if CT is None:
                continue
            d1 = res_key(L.call(lambda: BasicDecoder(CT, **kw).decode(cwire)))
            ctx.count(("decompose-dec", sc.sid, i, label, repr(v)), n=2)
            if d1 != ("ok", L.canon(cback)):
                ctx.fail(f"decoder for {L.py_ty(t)} is not componentwise at {label}: the whole decoder gives {show(L.canon(cback))} there, "
                         f"BasicDecoder({L.py_ty(ct)}).decode(component) gives {show(d1)}",
                         {"entry": "decompose", "source": src, "root": i, "value": v, "dialect": sc.dialect, "at": label,
                          "pack": False, "observed": show(L.canon(cback)), "expected": show(d1)},
                         {"kind": "decompose"})


# ---- frame: creating codecs / subclasses in between changes nothing ---------------------

CREATIONS = ["codec-same", "codec-list", "codec-dialect", "codec-related", "oneshot", "subclass-mixin",
             "subclass-plain", "subclass-with-field", "decoder-same", "codec-union",
             "codec-strategy-dialect", "codec-format", "codec-format"]

FORMAT_CODECS = [("MessagePackEncoder", "MessagePackDecoder"), ("ORJSONEncoder", "ORJSONDecoder"),
                 ("JSONEncoder", "JSONDecoder"), ("YAMLEncoder", "YAMLDecoder"), ("TOMLEncoder", "TOMLDecoder")]


def frame_namespace():
    """names available to creation statements"""
    from typing import Dict, List, Optional, Tuple, Union
    from mashumaro.codecs.basic import BasicDecoder, BasicEncoder, decode, encode
    from mashumaro.codecs.json import JSONDecoder, JSONEncoder
    from mashumaro.codecs.msgpack import MessagePackDecoder, MessagePackEncoder
    from mashumaro.codecs.orjson import ORJSONDecoder, ORJSONEncoder
    from mashumaro.codecs.toml import TOMLDecoder, TOMLEncoder
    from mashumaro.codecs.yaml import YAMLDecoder, YAMLEncoder
    return dict(locals())


def bind_frame_names(sc, mod):
    """_x_<cls>: an exact instance, _w_<cls>: its wire form - what freshly created codecs are USED on
    (a codec that is only created never runs its lazily compiled parts)"""
    from mashumaro.codecs.basic import BasicEncoder
    for c in sc.classes:
        o = L.build(mod, default_value(sc, c.name))
        mod.__dict__[f"_x_{c.name}"] = o
        r = L.call(lambda: BasicEncoder(getattr(mod, c.name)).encode(o))
        mod.__dict__[f"_w_{c.name}"] = L.build(mod, r[1]) if r[0] == "ok" and L.in_universe(r[1]) else {}


def with_uses(stmt, uses):
    body = "".join(f"\ntry:\n    {u}\nexcept Exception:\n    pass" for u in uses)
    return stmt + body



def creation_src(kind, sc, cls_name, n, rng):
    """python statements (executed inside the scenario module) that create a codec or a subclass"""
    c = sc.cls(cls_name)
    others = [k.name for k in sc.classes]
    o = rng.choice(others)
    x, w, xo, wo = f"_x_{cls_name}", f"_w_{cls_name}", f"_x_{o}", f"_w_{o}"
    if kind == "codec-same":
        return with_uses(f"_e{n} = BasicEncoder({cls_name}); _d{n} = BasicDecoder({cls_name})",
                         [f"_e{n}.encode({x})", f"_d{n}.decode({w})"])
    if kind == "codec-list":
        return with_uses(f"_e{n} = BasicEncoder(List[{cls_name}]); _d{n} = BasicDecoder(Dict[str, {cls_name}])",
                         [f"_e{n}.encode([{x}])", f"_d{n}.decode({{'k': {w}}})"])
    if kind == "codec-dialect":
        shape, arg = rng.choice([("List[%s]" % cls_name, f"[{x}]"), (cls_name, x), ("Optional[%s]" % cls_name, x)])
        return with_uses(f"class _Dl{n}(Dialect):\n    serialize_by_alias = {rng.choice([True, False])}\n    omit_none = True\n"
                         f"_e{n} = BasicEncoder({shape}, default_dialect=_Dl{n})\n"
                         f"_d{n} = BasicDecoder({cls_name}, default_dialect=_Dl{n})",
                         [f"_e{n}.encode({arg})", f"_d{n}.decode({w})"])
    if kind == "codec-strategy-dialect":
        # a default dialect that changes how leaf types are rendered
        strat = rng.choice(["date: {'serialize': date.toordinal, 'deserialize': date.fromordinal}",
                            "int: {'serialize': str, 'deserialize': int}",
                            "str: {'serialize': (lambda s: s[::-1]), 'deserialize': (lambda s: s[::-1])}",
                            "date: {'serialize': date.toordinal, 'deserialize': date.fromordinal}, int: {'serialize': str}"])
        shape, arg = rng.choice([("List[%s]" % cls_name, f"[{x}]"), (cls_name, x), ("Dict[str, %s]" % cls_name, f"{{'k': {x}}}")])
        return with_uses(f"class _Dl{n}(Dialect):\n    serialization_strategy = {{{strat}}}\n"
                         f"_e{n} = BasicEncoder({shape}, default_dialect=_Dl{n})\n"
                         f"_d{n} = BasicDecoder({cls_name}, default_dialect=_Dl{n})",
                         [f"_e{n}.encode({arg})", f"_d{n}.decode(BasicEncoder({cls_name}, default_dialect=_Dl{n}).encode({x}))"])
    if kind == "codec-format":
        # format codecs always carry a default dialect of their own
        enc, dec = rng.choice(FORMAT_CODECS)
        return with_uses(f"_e{n} = {enc}({cls_name}); _d{n} = {dec}({cls_name})",
                         [f"_d{n}.decode(_e{n}.encode({x}))", f"{enc}(List[{o}]).encode([{xo}])"])
    if kind == "codec-related":
        return with_uses(f"_e{n} = BasicEncoder(Tuple[{o}, {cls_name}]); _d{n} = BasicDecoder(Optional[{o}])",
                         [f"_e{n}.encode(({xo}, {x}))", f"_d{n}.decode({wo})"])
    if kind == "codec-union":
        return with_uses(f"_e{n} = BasicEncoder(Union[{cls_name}, {o}, int]); _d{n} = BasicDecoder(Union[{o}, {cls_name}])",
                         [f"_e{n}.encode({x})", f"_e{n}.encode({xo})", f"_d{n}.decode({w})"])
    if kind == "oneshot":
        return with_uses("pass", [f"encode(None, Optional[{cls_name}])", f"decode([], List[{o}])", f"encode({x}, {cls_name})",
                                  f"decode({wo}, {o})"])
    if kind == "decoder-same":
        return with_uses(f"_d{n} = BasicDecoder({cls_name}); _dd{n} = BasicDecoder(List[{o}])",
                         [f"_d{n}.decode({w})", f"_dd{n}.decode([{wo}])"])
    cfg = ""
    if sc.dialect is not None:
        cfg = ("\n    class Config(BaseConfig):\n        code_generation_options = [ADD_DIALECT_SUPPORT]\n"
               f"        serialize_by_alias = {sc.dialect if isinstance(sc.dialect, bool) else True}")
    if kind == "subclass-mixin":
        base = cls_name if c.mixin else f"{cls_name}, DataClassDictMixin"
        return f"@dataclass\nclass _S{n}({base}):\n    extra{n}: int = 0{cfg}"
    if kind == "subclass-plain":
        return f"@dataclass\nclass _S{n}({cls_name}):\n    extra{n}: Optional[date] = None{cfg}"
    if kind == "subclass-with-field":
        # a mixin subclass whose new field is annotated with some class of the table (this compiles
        # methods onto plain classes that did not own one before)
        base = cls_name if c.mixin else f"{cls_name}, DataClassDictMixin"
        return f"@dataclass\nclass _S{n}({base}):\n    extra{n}: Optional[{o}] = None\n    more{n}: List[{o}] = field(default_factory=list){cfg}"
    raise ValueError(kind)


DIALECT_CODEC_SWEEP = [
    "class _Dl{n}(Dialect):\n    serialize_by_alias = True\n_e{n} = BasicEncoder({T}, default_dialect=_Dl{n}); _d{n} = BasicDecoder({T}, default_dialect=_Dl{n})",
    "class _Dl{n}(Dialect):\n    serialize_by_alias = False\n    omit_none = True\n_e{n} = BasicEncoder({T}, default_dialect=_Dl{n}); _d{n} = BasicDecoder({T}, default_dialect=_Dl{n})",
    "class _Dl{n}(Dialect):\n    serialization_strategy = {{date: {{'serialize': date.toordinal, 'deserialize': date.fromordinal}}, "
    "int: {{'serialize': str, 'deserialize': int}}, str: {{'serialize': (lambda s: s[::-1]), 'deserialize': (lambda s: s[::-1])}}}}\n"
    "_e{n} = BasicEncoder({T}, default_dialect=_Dl{n}); _d{n} = BasicDecoder({T}, default_dialect=_Dl{n})",
    "_e{n} = ORJSONEncoder({T}); _d{n} = ORJSONDecoder({T})",
    "_e{n} = TOMLEncoder({T}); _d{n} = TOMLDecoder({T})",
    "_e{n} = MessagePackEncoder({T}); _d{n} = MessagePackDecoder({T})",
]


def frame_sweep_creations(sc):
    """for every class whose Config changes how/when it is compiled: every kind of codec that carries a default dialect,
    created AND used on an instance (deterministic counterpart of the random histories)"""
    out = []
    n = 100
    for c in sc.classes:
        if not c.extra:
            continue
        for tmpl in DIALECT_CODEC_SWEEP:
            stmt = tmpl.format(n=n, T=c.name)
            out.append(with_uses(stmt, [f"_x_enc{n} = _e{n}.encode(_x_{c.name})", f"_d{n}.decode(_x_enc{n})",
                                        f"_d{n}.decode(_w_{c.name})"]))
            n += 1
    return out


def oracle_frame(ctx, sc, src, vals_by_root, steps):
    """results of existing classes and existing codec objects before == after creating further
    codecs and subclasses (fresh module so that nothing is pre-created)"""
    from mashumaro.codecs.basic import BasicDecoder, BasicEncoder, decode, encode
    mod = L.load_module(src, "frame" + str(sc.sid))
    try:
        mod.__dict__.update(frame_namespace())
        bind_frame_names(sc, mod)
        Dl = dl_of(sc, mod)
        kw = {"default_dialect": Dl} if Dl else {}
        probes = []     # (description, thunk, root index, value)
        for i, vals in vals_by_root.items():
            t = sc.roots[i]
            if t[0] == "data" and sc.cls(t[1]).mixin:
                # the class's OWN methods
                D = getattr(mod, t[1])
                for v in vals:
                    if v[0] != "obj" or v[1] != t[1]:
                        continue
                    o = L.build(mod, v)
                    probes.append((f"own {t[1]}.to_dict()", (lambda o=o: o.to_dict(dialect=Dl) if Dl else o.to_dict()), i, v))
                    w = mod.__dict__[f"_w_{t[1]}"]
                    probes.append((f"own {t[1]}.from_dict(wire of the class)", (lambda D=D, w=w: D.from_dict(w, dialect=Dl) if Dl else D.from_dict(w)), i, v))
        for i, vals in vals_by_root.items():
            T = mod.ROOTS[i]
            W = getattr(mod, f"W{i}")
            enc = BasicEncoder(T, **kw)
            dec = BasicDecoder(T, **kw)
            for v in vals:
                o = L.build(mod, v)
                probes.append((f"W{i}(f=v).to_dict()", (lambda W=W, o=o: W(f=o).to_dict(dialect=Dl) if Dl else W(f=o).to_dict()), i, v))
                probes.append((f"existing BasicEncoder({L.py_ty(sc.roots[i])}).encode(v)", (lambda enc=enc, o=o: enc.encode(o)), i, v))
                r = L.call(lambda: enc.encode(o))
                if r[0] == "ok" and L.in_universe(r[1]):
                    w = L.build(mod, r[1])
                    probes.append((f"W{i}.from_dict({{'f': d}})", (lambda W=W, w=w: W.from_dict({"f": w}, dialect=Dl) if Dl else W.from_dict({"f": w})), i, r[1]))
                    probes.append((f"existing BasicDecoder({L.py_ty(sc.roots[i])}).decode(d)", (lambda dec=dec, w=w: dec.decode(w)), i, r[1]))
        before = [res_key(L.call(p[1])) for p in probes]
        log = []
        sweep = frame_sweep_creations(sc)
        for n in range(steps + len(sweep)):
            kind = ctx.rng.choice(CREATIONS)
            cn = ctx.rng.choice([c.name for c in sc.classes])
            # classes whose Config changes HOW/WHEN methods are compiled are the interesting targets of creations that
            # compile with another (default) dialect: half of the steps aim there
            special = [c.name for c in sc.classes if c.extra]
            if special and n % 2 == 0:
                cn = ctx.rng.choice(special)
                kind = ctx.rng.choice(["codec-strategy-dialect", "codec-format", "codec-dialect", "subclass-mixin"])
            stmt = creation_src(kind, sc, cn, n, ctx.rng)
            if n >= steps:
                kind, stmt = "sweep:codec-with-default-dialect", sweep[n - steps]
            try:
                exec(stmt, mod.__dict__)
                log.append(stmt)
                ctx.hist("frame_creation", kind)
            except Exception as e:   # a creation that mashumaro rejects is not an operation of the history
                ctx.hist("frame_creation", "rejected:" + kind)
                continue
            if kind in ("subclass-mixin", "subclass-with-field"):
                bad = fresh_subclass_agrees(ctx, sc, mod, cn, n, Dl, kw, vals_by_root)
                if bad:
                    ctx.fail(f"fresh subclass _S{n}({cn}) disagrees through its entry points: {bad[0]}",
                             {"entry": "frame-fresh-subclass", "source": src, "class": cn, "dialect": sc.dialect,
                              "creations": list(log), "observed": bad[0], "expected": "to_dict == BasicEncoder(S).encode"},
                             bad[1])
                    if bad[1]["kind"] == "frame-fresh-subclass":
                        return
            after = [res_key(L.call(p[1])) for p in probes]
            ctx.count(("frame", sc.sid, n, kind), n=len(probes))
            for p, b, a in zip(probes, before, after):
                if a != b:
                    sig = {"kind": "frame-unclassified", "creation": kind}
                    v = p[3]
                    # narrow signature of the known finding: the value holds a strict-subclass instance of a
                    # PLAIN class at a parent-annotated position, the probe is a mixin method, and the creation
                    # is a class creation that annotated that plain subclass
                    if kind == "subclass-with-field" and "to_dict" in p[0] and has_plain_strict_sub(sc, sc.roots[p[2]], v):
                        sig = {"kind": "subclass-creation-installs-method"}
                    ctx.fail(f"creating {kind} changed {p[0]}: before {show(b)} after {show(a)}",
                             {"entry": "frame", "source": src, "root": p[2], "value": v, "probe": p[0], "dialect": sc.dialect,
                              "creations": list(log), "observed": show(a), "expected": show(b)},
                             sig)
                    return
    finally:
        L.unload_module(mod)


def fresh_subclass_agrees(ctx, sc, mod, cn, n, Dl, kw, vals_by_root):
    """the subclass just created, instantiated from an existing exact value of its base, must give the
    same result through its mixin method (called BEFORE and AFTER the base's) and through a codec"""
    import dataclasses as dc
    from mashumaro.codecs.basic import BasicEncoder
    S = mod.__dict__.get(f"_S{n}")
    base = getattr(mod, cn)
    compat = L.scenario_compat(sc)
    if S is None or not compat:
        return None
    for i, vals in vals_by_root.items():
        if sc.roots[i] != ("data", cn):
            continue
        for v in vals:
            if v[0] != "obj" or v[1] != cn or has_plain_strict_sub(sc, sc.roots[i], v, plain_only=False):
                continue
            o = L.build(mod, v)
            s_inst = S(**{f.name: getattr(o, f.name) for f in dc.fields(o)})
            a = res_key(L.call(lambda: s_inst.to_dict(dialect=Dl) if Dl else s_inst.to_dict()))
            b = res_key(L.call(lambda: BasicEncoder(S, **kw).encode(s_inst)))
            c = res_key(L.call(lambda: o.to_dict(dialect=Dl) if Dl else o.to_dict())) if sc.cls(cn).mixin else None
            d = res_key(L.call(lambda: BasicEncoder(base, **kw).encode(o)))
            ctx.count(("fresh-sub", sc.sid, cn, n), n=4)
            if a != b:
                # the known static-dispatch findings can sit in the inherited fields (classified at the base class)
                sig = signature_of(sc, ("data", cn), v, a, b) if a[0] == "ok" and b[0] == "ok" else {"kind": "frame-fresh-subclass"}
                if sig.get("kind") in ("unclassified", "none"):
                    sig = {"kind": "frame-fresh-subclass"}
                return (f"_S{n}.to_dict = {show(a)} but BasicEncoder(_S{n}).encode = {show(b)}", sig)
            if c is not None and c != d:
                return (f"after calling the subclass: {cn}.to_dict = {show(c)} but BasicEncoder({cn}).encode = {show(d)}",
                        {"kind": "frame-fresh-subclass"})
            return None
    return None


def has_plain_strict_sub(sc, t, v, plain_only=True) -> bool:
    """does the value hold, at a dataclass position annotated c, an instance of a strict subclass of c
    (that is a plain, non-mixin dataclass when plain_only)?"""
    k = t[0]
    if k in ("list",) and v[0] in ("list", "tuple"):
        return any(has_plain_strict_sub(sc, t[1], x, plain_only) for x in v[1])
    if k == "dict" and v[0] == "dict":
        return any(has_plain_strict_sub(sc, t[1], x, plain_only) for _, x in v[1])
    if k == "tuple" and v[0] in ("list", "tuple"):
        return any(has_plain_strict_sub(sc, tt, x, plain_only) for tt, x in zip(t[1], v[1]))
    if k == "opt":
        return v[0] != "none" and has_plain_strict_sub(sc, t[1], v, plain_only)
    if k == "union":
        return any(has_plain_strict_sub(sc, m, v, plain_only) for m in t[1])
    if k == "data" and v[0] == "obj":
        rc = sc.cls(v[1])
        if rc.is_strict_sub_of(t[1]) and not (plain_only and rc.mixin):
            return True
        if v[1] == t[1] or rc.is_strict_sub_of(t[1]):
            ft = {fn: ty for (fn, _, ty) in rc.fields}
            return any(has_plain_strict_sub(sc, ft[fn], x, plain_only) for fn, x in v[2] if fn in ft)
    return False


# ---------------------------------------------------------------------------
# run
# ---------------------------------------------------------------------------

def run(ctx: vlib.Ctx):
    ctx.coverage["rule"] = (
        "scenario = random class table (2-6 dataclasses, plain/DataClassDictMixin, single inheritance, aliases, "
        "Config.serialize_by_alias, optional dialect with ADD_DIALECT_SUPPORT everywhere) + root types over "
        "int/str/date/List/Dict[str,.]/Tuple/Optional/Union/dataclass + generated values (exact classes; strict-subclass "
        "instances at a low rate; unrelated instances only for the correspondence); distinct = (scenario, root type, value, "
        "entry point set); non-trivial = at least one dataclass position. Further dimensions: look-alike 'twin' classes and all "
        "member permutations of their unions in sequences of one-shot calls; Config.lazy_compilation / allow_postponed_evaluation "
        "(inside the Coq-tied scenarios) and 'wide' scenarios (omit_none, omit_default, sort_keys, forbid_extra_keys, "
        "allow_deserialization_not_by_alias, kw_only + defaults, ADD_SERIALIZATION_CONTEXT, strategy dialects) for the oracles; "
        "format family: msgpack/orjson/json/yaml/toml mixins vs Encoder/Decoder/one-shot functions over int/str/bool/date/datetime/"
        "time/UUID/bytes/bytearray with user dialects (call-time or Config.dialect) whose strategies and options overlap the "
        "format's built-in dialect; mapping keys other than str, tuples and FOREIGN documents (perturbed, re-dumped with other library "
        "options) for every decoding entry point. Round 2: classes spread over library modules with EQUAL __qualname__ meeting in one "
        "holder/shape; modules with `from __future__ import annotations`; compile-mode variants of every scenario (all classes lazy + a "
        "call dialect, only top classes as roots); componentwise decomposition of every root (tuple items, elements, Optional, "
        "dataclass fields) for encoders, decoders and their errors")
    ctx.trusted += [
        "C15: harness/c15lib.py materialiser (Python source of the class table and the Coq env denote the same schema; "
        "predicted_has_method = which plain classes own __mashumaro_to_dict__; since round 6 compared on every run with the "
        "class __dict__s of a fresh module AND recomputed inside Coq by C15Nailed.k_module_exec over kernel K115a - flags tie), "
        "canonicaliser and exception reduction "
        "(raw / union / InvalidFieldValue(field,holder) / MissingField(field,holder))",
        "C15 model: CPython primitives modelled-not-verified: attribute lookup through the MRO (dispatch), list/dict .copy(), "
        "iteration and indexing of list/tuple, dict.get, int()/str()/date.fromisoformat on the generated alphabet; "
        "iteration/indexing of str and repr of containers are declined by the model (XUnmodelled, cases dropped and counted)",
        "C15 frame model: the state is the class table with the per-class flag 'owns __mashumaro_to_dict__' plus (round 6, "
        "C15Holders.v) one registry of holder objects per codec; codec creation is the model's compilation of the shape type "
        "over the decisions kernel K115a reads off pack_dataclass / unpack_dataclass / ValueSpec.attrs (receiver of the emitted "
        "call, method location, nested-builder condition, registry lookup-or-create); the real registries, holder identities "
        "and class __dict__s are compared with the model on every run (holders tie); setattr/getattr on holder objects and "
        "object identity (fresh allocation) are modelled-not-verified",
    ]
    ctx.trusted += [
        "C15 format part of the model (C15Format.v): ONE document function and ONE parser per format are parameters of the "
        "theorems (the libraries msgpack, orjson, json, yaml, tomli_w/tomllib are oracles; the correspondence only models what they "
        "reject: TOML needs a table and has no null) and documents are compared after parsing them back (key order ignored for "
        "YAML/TOML, TOML date literals as ISO text); Dialect.merge's OPTION part is the translated kernel K2 (+K13), its STRATEGY part "
        "(pass_through for bytes/date/..., user strategies) and the options namedtuple_as_dict/omit_default/no_copy_collections are "
        "outside the model - format tie restricted to union-free types, strategies covered by the format oracle only",
        "in the Coq model since round 4: Config.sort_keys / forbid_extra_keys / allow_deserialization_not_by_alias / omit_default, "
        "literal field defaults (int/str/None), the merged dialect option omit_default; the format tie decides in Coq, from the "
        "tables the kernel K13C reads off mashumaro/mixins/*.py, where a built-in dialect (date strategy, no_copy_collections) makes a "
        "union-reaching type fall outside the model (counted in format_tie)",
        "lazy compilation, module identity and PEP 563 are outside the Coq model (invisible there): covered by the correspondence "
        "(as invariance) and the oracles; strategies, no_copy_collections, namedtuple_as_dict, non-str mapping keys "
        "remain oracle-only (non-literal defaults / default_factory results are in the model since round 5); holders / registries of the "
        "codec path, the dataclass call site and the installed-method flags are in the model since round 6 (kernel K115a); "
        "self-referencing dataclasses: one fixed scenario (known finding codec-selfref-construction), not generated",
        "typing interns parametrised generics by equal arguments (List[Union[A,B]] is List[Union[B,A]]): modules in which the "
        "type objects do not have the generated member order are dropped (stated predicate module_matches_scenario)",
    ]
    ctx.assumptions += [
        "C15_agree_partial: every dataclass instance has exactly the annotated class (union: one member's class), unions "
        "contain only int/str/date/dataclass members and no look-alike dataclass members, Config and dialect do not contradict",
        "mixin path with a dialect: every class enables ADD_DIALECT_SUPPORT (otherwise the call dialect is not forwarded)",
    ]
    br = ctx.theorems("props/C15_entrypoints.vo", THEOREMS)

    # ---------------- scenarios
    nsc = ctx.budget(14, 90)
    scen = []
    for (sc, vals) in fixed_scenarios():
        scen.append((sc, [(i, v, {"fixed": True}) for (i, v) in vals]))
    for s in range(nsc):
        sc = L.gen_scenario(ctx.rng, f"r{s}")
        vals = []
        for i, t in enumerate(sc.roots):
            for _ in range(ctx.rng.randint(2, 4)):
                info = {}
                flavour = ctx.rng.random()
                sub_p, junk_p = (0.0, 0.0) if flavour < 0.7 else ((0.3, 0.0) if flavour < 0.88 else (0.1, 0.25))
                if sc.lazy or sc.dialect is not None:
                    # a lazy stub compiles for self.__class__, and with `dialect=` the inherited method looks the packer up
                    # in self.__class__'s (possibly INHERITED) dialect cache: what a strict-subclass instance dispatches to
                    # then depends on which class was called first (C14 territory, same family as the known finding
                    # subclass-creation-installs-method) - these scenarios keep exact classes
                    sub_p, junk_p = 0.0, junk_p if not sc.lazy else 0.0
                v = L.gen_value(ctx.rng, sc, t, sub_p, junk_p, info)
                vals.append((i, v, info))
        scen.append((sc, vals))
    # compile-mode variants: the SAME class table and values once more with every class compiled lazily and every call
    # carrying a dialect that sets nothing - both are invisible in the model, so model and oracles expect the same results
    import copy
    base = [x for x in scen if not x[0].lazy or x[0].dialect is None]
    for (sc0, vals0) in base[5:]:
        sc = copy.deepcopy(sc0)
        sc.sid = str(sc0.sid) + "~lazy+dialect"
        for c in sc.classes:
            c.by_alias_own = c.by_alias          # keep the effective Config when every class gets its own Config
        for c in sc.classes:
            c.own_config = True
            c.extra["lazy_compilation"] = "True"
        sc.lazy = True
        if sc.dialect is None:
            sc.dialect = "unset"
        # only "top" classes stay roots: a class referenced by another class's field is then reached (and compiled)
        # through its holders only, never through a wrapper of its own
        referenced = {n for c in sc.classes for (_, _, ft) in c.fields for n in L.data_names(ft)}
        keep = [i for i, t in enumerate(sc.roots) if not (set(L.data_names(t)) & referenced)]
        remap = {i: k for k, i in enumerate(keep)}
        sc.roots = [sc.roots[i] for i in keep]
        vals = [(remap[i], v, info) for (i, v, info) in vals0
                if i in remap and not info.get("subclass") and not info.get("junk")]
        if sc.roots and vals:
            scen.append((sc, vals))
    # wide scenarios: Config options outside the Coq model (omit_none, omit_default, sort_keys, forbid_extra_keys,
    # allow_deserialization_not_by_alias, lazy_compilation, code generation flags, defaults, kw_only, strategy
    # dialects): no correspondence, but every oracle
    for s in range(ctx.budget(5, 30)):
        sc = L.gen_scenario(ctx.rng, f"w{s}", wide=True)
        vals = []
        for i, t in enumerate(sc.roots):
            for _ in range(ctx.rng.randint(2, 3)):
                vals.append((i, L.gen_value(ctx.rng, sc, t), {}))
        scen.append((sc, vals))

    loaded = []
    for (sc, vals) in scen:
        src = L.scenario_src(sc)
        mod = L.load_module(src, str(sc.sid))
        if not module_matches_scenario(sc, mod):
            ctx.hist("scenario", "dropped:typing-interned-a-reordered-union")
            L.unload_module(mod)
            continue
        loaded.append((sc, vals, src, mod))
        ctx.hist("scenario_annotations", "pep563-strings" if sc.pep563 else "objects")
        ctx.hist("scenario_modules", "multi:same-qualname" if any(c.pyname != c.name for c in sc.classes) else ("multi" if sc.multi else "single"))
        ctx.hist("scenario", ("wide:" if sc.wide else "") + ("lazy:" if sc.lazy else "") + ("dialect" if sc.dialect is not None else "no-dialect"))
        if sc.wide:
            for c in sc.classes:
                for k in c.extra:
                    ctx.hist("wide_config_option", k)

    # ---------------- (M) correspondence
    cases, defs = collect_cases(ctx, loaded)
    for c in cases:
        ctx.hist("corr_case", ("pack" if c.isp else "unpack") + ":" + c.mode + ":" + c.exp[0] + ("" if c.exp[0] == "ok" else ":" + c.exp[1]))
        ctx.hist("root_shape", c.ty[0])
    coq_cases = [coq_case(c) for c in cases]
    bad, log = vlib.coq_bad_idx("c15_corr", "C15Model", "", defs, coq_cases, OK_FUN, CASE_TYPE, shard=300,
                                timeout=1800, needs=["theories/C15Model.vo"])
    corr_bad = []
    if bad is None:
        ctx.correspondence("model-vs-impl (both paths, pack+unpack)", len(cases), -1, log)
        ctx.not_shown("correspondence model-vs-impl", log)
    else:
        corr_bad = bad
        detail = json.dumps([describe(cases[i]) for i in bad[:5]], default=str)
        ctx.correspondence("model-vs-impl (both paths, pack+unpack)", len(cases), len(bad), detail)
        if bad:
            ctx.not_shown("correspondence model-vs-impl", detail)
    unm, _ = vlib.coq_bad_idx("c15_unm", "C15Model", "", defs, coq_cases, UNMODELLED_FUN, CASE_TYPE, shard=300,
                              timeout=1800, needs=["theories/C15Model.vo"])
    ctx.hist("corr_dropped", "unmodelled", len(unm or []))
    # domain of the agreement theorem, decided by the Coq predicates themselves
    pack_idx = [k for k, c in enumerate(cases) if c.isp and c.mode == "mixin"]
    outdom, dlog = vlib.coq_bad_idx("c15_dom", "C15Model", "", defs, [coq_cases[k] for k in pack_idx], DOMAIN_FUN,
                                    CASE_TYPE, shard=300, timeout=1800, needs=["theories/C15Model.vo"])
    if outdom is None:
        ctx.not_shown("domain predicates (exact/no_lookalike_union/dialect_compat) did not evaluate", dlog)
        outdom = list(range(len(pack_idx)))
    outdom = set(outdom)

    # ---------------- oracle 1: mixin path == codec path on the tie's own cases
    for n, k in enumerate(pack_idx):
        cm, cc = cases[k], cases[k + 1]
        assert cc.isp and cc.mode == "codec" and cc.v == cm.v
        in_dom = n not in outdom
        ctx.count(("agree", cm.sc.sid, cm.i, repr(cm.v)), nontrivial=bool(L.data_names(cm.sc.roots[cm.i])))
        ctx.hist("agree_domain", "in-domain" if in_dom else ("junk" if cm.info.get("junk") else "conforming-out-of-domain"))
        a = cm.exp if cm.exp[0] == "ok" else ("err", "union" if cm.exp[1].startswith("union") else cm.exp[1])
        b = cc.exp if cc.exp[0] == "ok" else ("err", "union" if cc.exp[1].startswith("union") else cc.exp[1])
        if a == b:
            continue
        if cm.info.get("junk"):
            continue            # not a conforming value: outside the property (kept for the correspondence only)
        sc = cm.sc
        compat = L.scenario_compat(sc)
        if not compat and not in_dom and a[0] == "ok" and b[0] == "ok":
            ctx.hist("agree_domain", "skipped:dialect-priority")
            continue            # documented precedence of call dialect vs default dialect (keys differ, both succeed)
        sig = {"kind": "in-theorem-domain"} if in_dom else signature_of(sc, sc.roots[cm.i], cm.v, cm.exp, cc.exp)
        ctx.fail(f"mixin path and codec path disagree for {L.py_ty(sc.roots[cm.i])}: W(f=v).to_dict()['f'] = {show(cm.exp)} "
                 f"but BasicEncoder(T).encode(v) = {show(cc.exp)}",
                 {"entry": "agree", "source": cm.src, "root": cm.i, "value": cm.v, "dialect": sc.dialect,
                  "observed_mixin": show(cm.exp), "observed_codec": show(cc.exp), "expected": "identical results"},
                 sig)
    # decoding: both paths on the same wire input
    for k, c in enumerate(cases):
        if c.isp or c.mode != "mixin":
            continue
        cc = cases[k + 1]
        ctx.count(("agree-unpack", c.sc.sid, c.i, repr(c.v)))
        a = c.exp if c.exp[0] == "ok" else ("err", "union" if c.exp[1].startswith("union") else c.exp[1]) + tuple(c.exp[2:])
        b = cc.exp if cc.exp[0] == "ok" else ("err", "union" if cc.exp[1].startswith("union") else cc.exp[1]) + tuple(cc.exp[2:])
        if a != b:
            ctx.fail(f"decoding paths disagree for {L.py_ty(c.sc.roots[c.i])}: W.from_dict = {show(c.exp)} but BasicDecoder = {show(cc.exp)}",
                     {"entry": "agree-unpack", "source": c.src, "root": c.i, "wire": c.v, "dialect": c.sc.dialect,
                      "observed_mixin": show(c.exp), "observed_codec": show(cc.exp), "expected": "identical results"},
                     {"kind": "unclassified-unpack"})

    # ---------------- oracle 2: the whole list of entry points per dataclass value; compositionality
    for (sc, vals, src, mod) in loaded:
        if sc.wide:
            oneshot_history(ctx, sc, mod, src, None)
        by_root = {}
        for (i, v, info) in vals:
            if info.get("junk"):
                continue
            by_root.setdefault(i, []).append((v, info))
        for i, lst in by_root.items():
            t = sc.roots[i]
            if t[0] == "data":
                for (v, info) in lst[:ctx.budget(2, 4)]:
                    oracle_entry_points(ctx, sc, mod, src, t[1], v, "subclass" if info.get("subclass") else "exact")
            exact_vals = [v for (v, info) in lst if not info.get("subclass")]
            if exact_vals:
                oracle_compositional(ctx, sc, mod, src, i, exact_vals[:3])
                oracle_decompose(ctx, sc, mod, src, i, exact_vals[:2])

    # ---------------- oracle 3: frame (fresh modules)
    fsel = loaded if not ctx.quick() else [x for k, x in enumerate(loaded) if k < 5 or k % 2 == 1 or any(c.extra for c in x[0].classes)]
    for (sc, vals, src, mod) in fsel:
        by_root = {}
        for (i, v, info) in vals:
            if info.get("junk"):
                continue
            if len(by_root.get(i, [])) < 2:
                by_root.setdefault(i, []).append(v)
        oracle_frame(ctx, sc, src, by_root, ctx.budget(4, 8))

    # ---------------- holders of the codec path: theorems over kernel K115a + tie with the real builders' registries
    ctx.theorems("props/C15_holders.vo", HOLDER_THEOREMS, kernels=["K115a"])
    from harness import c15holders
    c15holders.run_holders_tie(ctx, [x for x in loaded if not x[0].wide])
    c15holders.run_flags_tie(ctx, [x for x in loaded if not x[0].wide])

    for (sc, vals, src, mod) in loaded:
        L.unload_module(mod)

    # ---------------- (M) correspondence of the format part of the model (C15Format.v over the K2/K13 kernels)
    ctx.theorems("props/C15_formats.vo", FORMAT_THEOREMS, kernels=["K2", "K13", "K13C"])
    ctx.coqchk(["VerifProps.C15_entrypoints", "VerifProps.C15_formats", "VerifProps.C15_holders"])
    from harness import c15fmt_tie
    tied_for_formats = [(sc, vals) for (sc, vals, src, mod) in loaded if not sc.wide and "~" not in str(sc.sid) and not str(sc.sid).startswith("fx")]
    c15fmt_tie.run_format_tie(ctx, tied_for_formats, ctx.budget(10, 60))

    # ---------------- oracle 4: format mixins vs format codecs under user dialects (outside the Coq model)
    from harness import c15fmt
    c15fmt.run_format_family(ctx, ctx.budget(60, 300))

    # ---------------- oracle 5: one type, every place it can be used in (nullable fields, NamedTuple / TypedDict members, ...)
    from harness import c15ctx
    c15ctx.run_context_oracle(ctx, ctx.budget(6, 30), 4)

    # ---------------- a broken tie aims the search at the disagreement
    if corr_bad and not ctx.failures:
        for i in corr_bad[:20]:
            c = cases[i]
            ctx.notes.append("model/impl mismatch: " + json.dumps(describe(c), default=str)[:600])

    for (sc, vals, src, mod) in loaded[:3]:
        for (i, v, info) in vals[:1]:
            ctx.sample({"scenario": sc.sid, "type": L.py_ty(sc.roots[i]), "value": repr(v)[:200],
                        "classes": [(c.name, c.parent.name if c.parent else None, "mixin" if c.mixin else "plain",
                                     [(f[0], f[1], L.py_ty(f[2])) for f in c.fields]) for c in sc.classes]})


# ---------------------------------------------------------------------------
# replay
# ---------------------------------------------------------------------------

def replay(rep: dict) -> int:
    from mashumaro.codecs.basic import BasicDecoder, BasicEncoder, decode, encode
    entry = rep.get("entry")
    if rep.get("kind") == "no-failing-input-found":
        print("nothing to replay: the run found no failing input (see not_shown)")
        return 0
    if entry == "context":
        from harness import c15ctx
        rc = c15ctx.replay_context(rep)
        print("REPRODUCED" if rc else "not reproduced")
        return rc
    if entry == "format-family":
        from harness import c15fmt
        rc = c15fmt.replay_format(rep)
        print("REPRODUCED" if rc else "not reproduced")
        return rc

    def tup(x):
        if isinstance(x, list):
            if x and isinstance(x[0], str) and x[0] in ("none", "int", "str", "date", "list", "tuple", "dict", "obj"):
                k = x[0]
                if k in ("list", "tuple"):
                    return (k, [tup(y) for y in x[1]])
                if k == "dict":
                    return (k, [(a, tup(b)) for a, b in x[1]])
                if k == "obj":
                    return (k, x[1], [(a, tup(b)) for a, b in x[2]])
                return tuple(x)
            return [tup(y) for y in x]
        return x

    src = rep.get("source", "")
    mod = L.load_module(src, "replay")
    from typing import Dict, List, Optional, Tuple, Union
    mod.__dict__.update(BasicEncoder=BasicEncoder, BasicDecoder=BasicDecoder, encode=encode, decode=decode, Union=Union)
    Dl = getattr(mod, "Dl", None)
    kw = {"default_dialect": Dl} if Dl else {}
    try:
        if entry == "agree":
            i = rep["root"]
            v = tup(rep["value"])
            o = L.build(mod, v)
            W = getattr(mod, f"W{i}")
            a = res_key(L.call(lambda: (W(f=o).to_dict(dialect=Dl) if Dl else W(f=o).to_dict())["f"]))
            b = res_key(L.call(lambda: BasicEncoder(mod.ROOTS[i], **kw).encode(o)))
            print("mixin:", show(a)); print("codec:", show(b))
            rc = 1 if a != b else 0
        elif entry == "agree-unpack":
            i = rep["root"]
            w = L.build(mod, tup(rep["wire"]))
            W = getattr(mod, f"W{i}")

            def via_w():
                from mashumaro.exceptions import InvalidFieldValue
                try:
                    return (W.from_dict({"f": w}, dialect=Dl) if Dl else W.from_dict({"f": w})).f
                except InvalidFieldValue as e:
                    if e.field_name == "f" and e.holder_class is W and e.__context__ is not None:
                        raise e.__context__
                    raise
            a = res_key(L.call(via_w))
            b = res_key(L.call(lambda: BasicDecoder(mod.ROOTS[i], **kw).decode(w)))
            print("mixin:", show(a)); print("codec:", show(b))
            rc = 1 if a != b else 0
        elif entry in ("entry-points-pack", "entry-points-unpack", "optional-none", "compositional-pack", "compositional-unpack"):
            # re-run the complete oracle for that class / root on the recorded input
            ctx = vlib.Ctx("C15", "quick", rep.get("seed", 0))
            sc = scenario_from_module(mod, rep)
            if entry.startswith("entry-points") or entry == "optional-none":
                v = tup(rep.get("value")) if rep.get("value") is not None else default_value(sc, rep["class"])
                # the recorded input in the context of the other classes of the module (history-dependent
                # failures such as colliding caches need the neighbouring calls)
                for k in sc.classes:
                    oracle_entry_points(ctx, sc, mod, src, k.name, default_value(sc, k.name), "replay")
                oracle_entry_points(ctx, sc, mod, src, rep["class"], v, "replay")
            else:
                vals = [tup(v) for v in rep.get("values", [])]
                oracle_compositional(ctx, sc, mod, src, rep["root"], vals)
            for f in ctx.failures:
                print(f.what)
            rc = 1 if ctx.failures else 0
        elif entry == "decompose":
            ctx = vlib.Ctx("C15", "quick", rep.get("seed", 0))
            sc = scenario_from_module(mod, rep)
            oracle_decompose(ctx, sc, mod, src, rep["root"], [tup(rep["value"])])
            for f in ctx.failures:
                print(f.what)
            rc = 1 if ctx.failures else 0
        elif entry == "oneshot-history":
            import typing
            perms = [[tup(m) if isinstance(m, list) else m for m in pm] for pm in rep["perms"]]

            def ty(m):
                return tuple(m) if m[0] != "data" else ("data", m[1])
            perms = [[tuple(m) if not isinstance(m, tuple) else m for m in pm] for pm in rep["perms"]]
            pys = [typing.Union[tuple(eval(L.py_ty(m), mod.__dict__) for m in pm)] for pm in perms]
            xs = [L.build(mod, tup(v)) for v in (rep["values"] if rep["pack"] else rep["wires"])]
            rc = 0
            for T in pys:
                for x in xs:
                    a = res_key(L.call(lambda: encode(x, T) if rep["pack"] else decode(x, T)))
                    b = res_key(L.call(lambda: (BasicEncoder(T).encode(x) if rep["pack"] else BasicDecoder(T).decode(x))))
                    if a != b:
                        print("one-shot:", show(a)); print("object  :", show(b), "for", T)
                        rc = 1
        elif entry == "frame":
            sc_ = scenario_from_module(mod, rep)
            mod.__dict__.update(frame_namespace())
            bind_frame_names(sc_, mod)
            i = rep["root"]
            v = tup(rep["value"])
            o = L.build(mod, v)
            W = getattr(mod, f"W{i}")
            T = mod.ROOTS[i]
            enc = BasicEncoder(T, **kw)
            dec = BasicDecoder(T, **kw)
            probe = rep["probe"]

            def run_probe():
                if "to_dict" in probe:
                    return W(f=o).to_dict(dialect=Dl) if Dl else W(f=o).to_dict()
                if "from_dict" in probe:
                    return W.from_dict({"f": o}, dialect=Dl) if Dl else W.from_dict({"f": o})
                if "BasicEncoder" in probe:
                    return enc.encode(o)
                return dec.decode(o)
            if probe.startswith("own "):
                wire = mod.__dict__.get("_w_" + probe.split()[1].split(".")[0])
                D = type(o)

                def run_probe():  # noqa: F811
                    if "to_dict" in probe:
                        return o.to_dict(dialect=Dl) if Dl else o.to_dict()
                    return D.from_dict(wire, dialect=Dl) if Dl else D.from_dict(wire)
            before = res_key(L.call(run_probe))
            for stmt in rep["creations"]:
                exec(stmt, mod.__dict__)
            after = res_key(L.call(run_probe))
            print("before:", show(before)); print("after :", show(after))
            rc = 1 if before != after else 0
        elif entry == "frame-fresh-subclass":
            import dataclasses as dc
            sc = scenario_from_module(mod, rep)
            cn = rep["class"]
            o = L.build(mod, default_value(sc, cn))
            for stmt in rep["creations"]:
                exec(stmt, mod.__dict__)
            n = len(rep["creations"]) - 1
            S = [v for k, v in mod.__dict__.items() if k.startswith("_S") and isinstance(v, type)][-1]
            s_inst = S(**{f.name: getattr(o, f.name) for f in dc.fields(o)})
            a = res_key(L.call(lambda: s_inst.to_dict(dialect=Dl) if Dl else s_inst.to_dict()))
            b = res_key(L.call(lambda: BasicEncoder(S, **kw).encode(s_inst)))
            print("subclass.to_dict:", show(a)); print("codec           :", show(b))
            rc = 1 if a != b else 0
        elif entry == "generic-self":
            from harness import c15holders
            a, b, da, db = c15holders.generic_self_results(mod)
            print("mixin:", a, da); print("codec:", b, db)
            rc = 1 if (a != b or da != db) else 0
        else:
            print("unknown replay entry", entry)
            return 2
    finally:
        L.unload_module(mod)
    print("REPRODUCED" if rc else "not reproduced")
    return rc


def py_to_ast(tp):
    """python type object -> type AST (member ORDER as the object really has it)"""
    import dataclasses as dc
    import typing
    if tp is int:
        return ("int",)
    if tp is str:
        return ("str",)
    if tp is datetime.date:
        return ("date",)
    if dc.is_dataclass(tp):
        return ("data", L.cname(tp))
    o = typing.get_origin(tp)
    a = typing.get_args(tp)
    if o is list:
        return ("list", py_to_ast(a[0]))
    if o is dict:
        return ("dict", py_to_ast(a[1]))
    if o is tuple:
        return ("tuple", [py_to_ast(x) for x in a])
    if o is typing.Union:
        if len(a) == 2 and type(None) in a:
            return ("opt", py_to_ast([x for x in a if x is not type(None)][0]))
        return ("union", [py_to_ast(x) for x in a])
    raise ValueError(tp)


def module_matches_scenario(sc, mod) -> bool:
    """typing interns parametrised generics by EQUAL arguments and Union[A,B] == Union[B,A]: the second of
    List[Union[A,B]] / List[Union[B,A]] in one process silently is the first.  Such a module does not denote
    the generated schema (nothing mashumaro can see), so the scenario is dropped."""
    import typing
    try:
        for i, t in enumerate(sc.roots):
            if py_to_ast(mod.ROOTS[i]) != t:
                return False
        for c in sc.classes:
            hints = typing.get_type_hints(getattr(mod, c.name))     # resolved in the class's OWN module
            for (fn, _, ft) in c.fields:
                if py_to_ast(hints[fn]) != ft:
                    return False
    except Exception:
        return False
    return True


def scenario_from_module(mod, rep):
    """rebuild the Scenario description needed by the oracles from the executed module"""
    import dataclasses as dc
    import typing
    from mashumaro import DataClassDictMixin
    sc = L.Scenario("replay")
    sc.dialect = rep.get("dialect")
    dlo = getattr(mod.__dict__.get("Dl"), "omit_none", None)
    sc.dialect_omit = dlo if isinstance(dlo, bool) else None
    dld = getattr(mod.__dict__.get("Dl"), "omit_default", None)
    sc.dialect_omit_default = dld if isinstance(dld, bool) else None
    names = sorted([n for n in mod.__dict__ if n.startswith("K") and n[1:].isdigit()], key=lambda s: int(s[1:]))

    def ty_of(tp):
        if tp is int:
            return ("int",)
        if tp is str:
            return ("str",)
        if tp is datetime.date:
            return ("date",)
        if dc.is_dataclass(tp):
            return ("data", L.cname(tp))
        o = typing.get_origin(tp)
        a = typing.get_args(tp)
        if o is list:
            return ("list", ty_of(a[0]))
        if o is dict:
            return ("dict", ty_of(a[1]))
        if o is tuple:
            return ("tuple", [ty_of(x) for x in a])
        if o is typing.Union:
            if len(a) == 2 and type(None) in a:
                return ("opt", ty_of([x for x in a if x is not type(None)][0]))
            return ("union", [ty_of(x) for x in a])
        raise ValueError(tp)

    for n in names:
        k = getattr(mod, n)
        par = [b for b in k.__bases__ if dc.is_dataclass(b)]
        parent = sc.cls(L.cname(par[0])) if par else None
        hints = typing.get_type_hints(k)
        inherited = {f[0] for f in parent.fields} if parent else set()
        own = [(f.name, f.metadata.get("alias"), ty_of(hints[f.name])) for f in dc.fields(k) if f.name not in inherited]
        cfg = k.__dict__.get("Config")
        from mashumaro.core.const import Sentinel
        ba = getattr(cfg, "serialize_by_alias", None) if cfg else None
        if ba is Sentinel.MISSING:
            ba = None
        cobj = L.Cls(n, parent, DataClassDictMixin in k.__bases__, own, cfg is not None, ba)
        on = getattr(cfg, "omit_none", None) if cfg else None
        if isinstance(on, bool):
            cobj.extra["omit_none"] = str(on)
        for oname in ("sort_keys", "forbid_extra_keys", "allow_deserialization_not_by_alias", "omit_default"):
            if cfg is not None and isinstance(cfg.__dict__.get(oname), bool):
                cobj.extra[oname] = str(cfg.__dict__[oname])
        for f in dc.fields(k):
            if f.name not in inherited and f.default is not dc.MISSING:
                cobj.defaults[f.name] = L.canon(f.default)
            elif f.name not in inherited and f.default_factory is not dc.MISSING:
                cobj.defaults[f.name] = L.canon(f.default_factory())
        sc.classes.append(cobj)
    sc.roots = [ty_of(t) for t in mod.ROOTS]
    return sc


def default_value(sc, cls_name):
    return L.gen_value(random.Random(0), sc, ("data", cls_name))
