"""C05 / kernel K105a: per-run tie between the field blocks of every generated from_dict captured in the C05 stream
and the text of `K105a.fblock` (FieldUnpackerCodeBlockBuilder.build translated from /repo) for the five facts the
harness computes independently for that field (c05_oracle.field_meta): each block is cut out of the program,
the field's own texts are replaced by placeholders (FieldEmitText.v) and the lines are compared in Coq."""
from __future__ import annotations

import re

from harness import vlib
from harness.vlib import coq_str

HEADER = """From Coq Require Import List String Ascii Bool.
From Verif Require Import Wire FieldEmit FieldEmitText.
From VerifGen Require Import K105a.
Import ListNotations.
Open Scope string_scope.
Definition ok (c: (bool * bool * bool * bool * bool) * list string) : bool :=
  match c with (nba, ident, hd, nul, dn, ls) => lines_eqb (render_block (fblock nba ident hd nul dn)) ls end.
"""

START = re.compile(r"^(value|__\w+) = d\.get\(")


def blocks_of(src: str) -> list[list[str]] | None:
    """the field blocks of a generated from_dict: the lines of the outer try body from the first d.get on, cut at
    every d.get at the body's own indentation"""
    lines = src.splitlines()
    try:
        t = next(i for i, ln in enumerate(lines) if ln == "    try:")
        e = next(i for i, ln in enumerate(lines) if ln == "    except AttributeError:")
    except StopIteration:
        return None
    body = lines[t + 1:e]
    out, cur = [], None
    for ln in body:
        if not ln.startswith("        "):
            return None
        ln = ln[8:]
        if START.match(ln):
            cur = [ln]
            out.append(cur)
        elif cur is not None:
            cur.append(ln)
        # lines before the first block: extra-keys check, kwargs = {}, d.keys
    return out


def normalise(block: list[str], name: str, key: str, nba_alias: bool) -> list[str]:
    out, try_indent = [], None
    q = re.escape(name)
    for n, ln in enumerate(block):
        ind = len(ln) - len(ln.lstrip(" "))
        body = ln[ind:]
        if try_indent is not None and ind <= try_indent and body != "except:":
            try_indent = None
        if body == "try:":
            try_indent = ind
        m = re.match(rf"^(value|__{q}) = d\.get\((.+), MISSING\)$", body)
        if m:
            tgt = "value" if m.group(1) == "value" else "__F"
            if n == 0 and m.group(2) == repr(key):
                k = "ALIAS" if nba_alias else "KEY"
            elif n > 0 and m.group(2) == f"'{name}'":
                k = "'F'"
            else:
                k = m.group(2)
            body = f"{tgt} = d.get({k}, MISSING)"
        else:
            m = re.match(rf"^(__{q}|kwargs\['{q}'\]) = (.+)$", body)
            if m:
                tgt = "__F" if m.group(1).startswith("__") else "kwargs['F']"
                e = m.group(2)
                if try_indent is not None and ind > try_indent:
                    e = "UNPACK"
                elif e not in ("value", "None"):
                    e = "UNPACK!outside-try"
                body = f"{tgt} = {e}"
            elif re.match(rf"^raise MissingField\('{q}',.+,cls\) from None$", body):
                body = "raise MissingField('F',TYPE,cls) from None"
            elif re.match(rf"^raise InvalidFieldValue\('{q}',.+,value,cls\)$", body):
                body = "raise InvalidFieldValue('F',TYPE,value,cls)"
            else:
                body = re.sub(rf"\b__{q}\b", "__F", body)
        out.append(" " * ind + body)
    return out


FRAME_HEADER = """From Coq Require Import List String Ascii Bool.
From Verif Require Import Wire Core FieldEmitText FrameEmit K105bProofs.
From VerifGen Require Import K105b.
Import ListNotations.
Open Scope string_scope.
Definition okf (c: (list (string * option string) * option string * bool * bool) * (list string * list string)) : bool :=
  match c with
  | ((ff, discr, nba, forbid), (lit, ls)) =>
      lines_eqb (flat_map frstmt_text (frame_try forbid (is_nil ff))) ls &&
      (negb forbid || (subset lit (allowed_keys_k ff discr nba) && subset (allowed_keys_k ff discr nba) lit))
  end.
"""
HANDLER_LINES = ["    except AttributeError:", "        if not isinstance(d, dict):", None, "        else:", "            raise"]


def frame_of(src: str):
    """-> (normalised lines of the try body with the blocks collapsed to BLOCKS, allowed-keys literal | None) or None"""
    import ast
    lines = src.splitlines()
    try:
        t = next(i for i, ln in enumerate(lines) if ln == "    try:")
        e = next(i for i, ln in enumerate(lines) if ln == "    except AttributeError:")
    except StopIteration:
        return None
    h = lines[e:e + 5]
    if len(h) != 5 or any(w is not None and w != g for w, g in zip(HANDLER_LINES, h)) or \
            not re.match(r"^            raise ValueError\('Argument for \S+ method should be a dict instance'\) from None$", h[2]):
        return None
    if not (e + 5 < len(lines) and lines[e + 5].startswith("    return cls")):
        return None
    out, lit, in_blocks = [], None, False
    for ln in lines[t + 1:e]:
        ln = ln[8:]
        if START.match(ln):
            in_blocks = True
        if in_blocks:
            continue
        if ln == "kwargs = {}":
            continue                      # bookkeeping of the constructor call, not a frame statement
        m = re.match(r"^forbidden_keys = d_keys - (.+)$", ln)
        if m:
            try:
                v = eval(m.group(1), {"set": set})
            except Exception:  # noqa: BLE001
                return None
            if not isinstance(v, set) or not all(isinstance(x, str) for x in v):
                return None
            lit = sorted(v)
            ln = "forbidden_keys = d_keys - SET"
        out.append(ln)
    out.append("BLOCKS")
    return out, lit


class Collector:
    def __init__(self):
        self.cases = {}        # term -> label
        self.bad = []
        self.programs = 0
        self.frames = {}

    def add_frame(self, schema: dict, src: str):
        fr = frame_of(src)
        if fr is None:
            self.bad.append(f"{schema['cls']}: the try / except AttributeError frame was not recognised")
            return
        lines, lit = fr
        dk = list(schema.get("discr_keys") or [])
        if len(dk) > 1:
            return
        b = lambda x: "true" if x else "false"  # noqa: E731
        ff = "; ".join(f"({coq_str(f['name'])}, {('Some ' + coq_str(f['alias'])) if f['alias'] else 'None'})" for f in schema["fields"])
        term = (f"(([{ff}], {('Some ' + coq_str(dk[0])) if dk else 'None'}, {b(schema['allow_nba'])}, {b(schema['forbid'])}), "
                f"([{'; '.join(coq_str(x) for x in (lit or []))}], [{'; '.join(coq_str(x) for x in lines)}]))")
        self.frames.setdefault(term, f"{schema['cls']}: forbid={schema['forbid']} nba={schema['allow_nba']} allowed={lit} frame={' / '.join(lines)}"[:300])

    def add_program(self, cls_name: str, src: str, metas: list[dict]):
        self.programs += 1
        blocks = blocks_of(src)
        if blocks is None or len(blocks) != len(metas):
            self.bad.append(f"{cls_name}: {0 if blocks is None else len(blocks)} field blocks found for {len(metas)} init fields")
            return
        for blk, m in zip(blocks, metas):
            nba = m["key2"] is not None
            dn = bool(m["has_default"] and m["default"] is None)
            lines = normalise(blk, m["name"], m["key"], nba)
            b = lambda x: "true" if x else "false"  # noqa: E731
            term = (f"(({b(nba)}, {b(m['ident'])}, {b(m['has_default'])}, {b(m['nullable'])}, {b(dn)}), "
                    f"[{'; '.join(coq_str(x) for x in lines)}])")
            self.cases.setdefault(term, f"{cls_name}.{m['name']}: {m['type']} nba={nba} ident={m['ident']} default={m['has_default']} "
                                        f"nullable={m['nullable']} default_none={dn}: " + " / ".join(x.strip() for x in lines)[:300])

    def run(self, ctx: vlib.Ctx):
        name = "c05_field_block_text"
        if self.bad:
            ctx.correspondence(name + "-segmentation", self.programs, len(self.bad), "; ".join(self.bad[:5]))
            ctx.not_shown("correspondence " + name, "; ".join(self.bad[:8]))
        if not ctx.kernel_report.get("K105a", {}).get("ok", False):
            ctx.correspondence(name, len(self.cases), -1, str(ctx.kernel_report.get("K105a", {}).get("error")))
            ctx.not_shown("kernel K105a", str(ctx.kernel_report.get("K105a", {}).get("error")))
            return
        if not self.cases:
            ctx.correspondence(name, 0, -1, "no field block was captured")
            ctx.not_shown("correspondence " + name, "no field block was captured")
            return
        br = vlib.coq_make(["theories/FieldEmitText.vo", "gen/K105a.vo", "theories/Wire.vo"])
        if not br.ok:
            ctx.correspondence(name, len(self.cases), -1, "model does not build: " + (br.error or ""))
            ctx.not_shown("correspondence " + name, "model does not build: " + (br.error or ""))
            return
        terms = list(self.cases)
        labels = [self.cases[t] for t in terms]
        combos = {t.split("), [")[0] for t in terms}
        ctx.hist("field_block_text", "distinct blocks", len(terms))
        ctx.hist("field_block_text", "fact combinations (of 32)", len(combos))
        files, shard = [], 150
        for si in range(0, len(terms), shard):
            txt = HEADER + "Definition cases : list ((bool * bool * bool * bool * bool) * list string) :=\n  [" + \
                ";\n   ".join(terms[si:si + shard]) + "].\nEval vm_compute in (bad_idx ok cases).\n"
            files.append((f"{name}_{si // shard}", txt))
        from harness.props.c05_typed import eval_robust
        res = eval_robust(files, timeout=900, jobs=4)
        bad = []
        for n, (ok, out) in enumerate(res):
            idx = vlib.parse_nat_list(out) if ok else None
            if idx is None:
                ctx.correspondence(name, len(terms), -1, out[-1500:])
                ctx.not_shown("correspondence " + name, out[-1500:])
                return
            bad.extend(n * shard + i for i in idx)
        det = "; ".join(labels[i] for i in bad[:5])
        ctx.correspondence(name, len(terms), len(bad), det)
        if bad:
            ctx.not_shown("correspondence " + name, f"{len(bad)} of {len(terms)} field blocks differ from K105a.fblock: {det}")
        ctx.count(n=len(terms))
        self.run_frames(ctx)

    def run_frames(self, ctx: vlib.Ctx):
        name = "c05_frame_text"
        if not ctx.kernel_report.get("K105b", {}).get("ok", False):
            ctx.correspondence(name, len(self.frames), -1, str(ctx.kernel_report.get("K105b", {}).get("error")))
            ctx.not_shown("kernel K105b", str(ctx.kernel_report.get("K105b", {}).get("error")))
            return
        if not self.frames:
            ctx.correspondence(name, 0, -1, "no frame was captured")
            ctx.not_shown("correspondence " + name, "no frame was captured")
            return
        br = vlib.coq_make(["theories/K105bProofs.vo", "theories/FieldEmitText.vo", "theories/Wire.vo"])
        if not br.ok:
            ctx.correspondence(name, len(self.frames), -1, "model does not build: " + (br.error or ""))
            ctx.not_shown("correspondence " + name, "model does not build: " + (br.error or ""))
            return
        terms = list(self.frames)
        labels = [self.frames[t] for t in terms]
        files, shard = [], 150
        for si in range(0, len(terms), shard):
            txt = FRAME_HEADER + ("Definition cases : list ((list (string * option string) * option string * bool * bool) * "
                                  "(list string * list string)) :=\n  [") + ";\n   ".join(terms[si:si + shard]) + \
                "].\nEval vm_compute in (bad_idx okf cases).\n"
            files.append((f"{name}_{si // shard}", txt))
        from harness.props.c05_typed import eval_robust
        res = eval_robust(files, timeout=900, jobs=4)
        bad = []
        for n, (ok, out) in enumerate(res):
            idx = vlib.parse_nat_list(out) if ok else None
            if idx is None:
                ctx.correspondence(name, len(terms), -1, out[-1500:])
                ctx.not_shown("correspondence " + name, out[-1500:])
                return
            bad.extend(n * shard + i for i in idx)
        det = "; ".join(labels[i] for i in bad[:5])
        ctx.correspondence(name, len(terms), len(bad), det)
        if bad:
            ctx.not_shown("correspondence " + name, f"{len(bad)} of {len(terms)} frames differ from K105b: {det}")
        ctx.count(n=len(terms))


# ---------------------------------------------------------------------------
# every reachable combination of the five facts, on every run: two fixed classes (with / without
# allow_deserialization_not_by_alias + aliases) x 12 fields
# ---------------------------------------------------------------------------
COVER_FIELDS = [
    # (name, annotation, default source | None, pass_through?, nullable, ident, default is None)
    ("r_int", "int", None, False, False, False),
    ("r_opt", "Optional[int]", None, False, True, False),
    ("r_any", "Any", None, False, True, True),
    ("r_pt", "int", None, True, False, True),
    ("d_int", "int", "0", False, False, False),
    ("d_opt", "Optional[int]", "5", False, True, False),
    ("d_any", "Any", "7", False, True, True),
    ("d_pt", "int", "0", True, False, True),
    ("n_opt", "Optional[int]", "None", False, True, False),
    ("n_any", "Any", "None", False, True, True),
    ("n_int", "int", "None", False, True, False),
    ("n_pt", "int", "None", True, True, True),
]


def cover_source(cls: str, nba: bool) -> tuple[str, list[dict]]:
    lines = ["from dataclasses import dataclass, field", "from typing import Any, Optional",
             "from mashumaro import DataClassDictMixin, pass_through", "from mashumaro.config import BaseConfig",
             "@dataclass", f"class {cls}(DataClassDictMixin):"]
    metas = []
    # dataclass rule: fields without default first -- COVER_FIELDS is ordered that way
    for name, ann, dflt, pt, nullable, ident in COVER_FIELDS:
        md = []
        if nba:
            md.append(f"'alias': 'a_{name}'")
        if pt:
            md.append("'deserialize': pass_through")
        args = ([f"default={dflt}"] if dflt is not None else []) + ([f"metadata={{{', '.join(md)}}}"] if md else [])
        lines.append(f"    {name}: {ann}" + (f" = field({', '.join(args)})" if args else ""))
        metas.append({"name": name, "type": ann, "key": f"a_{name}" if nba else name, "key2": name if nba else None,
                      "has_default": dflt is not None, "default": (None if dflt in (None, "None") else eval(dflt)),
                      "nullable": nullable, "ident": ident})
    if nba:
        lines += ["    class Config(BaseConfig):", "        allow_deserialization_not_by_alias = True"]
    return "\n".join(lines) + "\n", metas


def add_coverage(fb: "Collector", recorder_cls):
    """build the two coverage classes under the recorder and add their field blocks"""
    import sys
    import types
    for cls, nba in (("CoverPlain", False), ("CoverNba", True)):
        src, metas = cover_source(cls, nba)
        mname = f"c05_cover_{cls}"
        m = types.ModuleType(mname)
        sys.modules[mname] = m
        try:
            with recorder_cls() as rec:
                exec(compile(src, f"<{mname}>", "exec"), m.__dict__)
            roots = [p for p in rec.programs if "def __mashumaro_from_dict__(" in p and f".{cls}.__mashumaro_from_dict__ method should be" in p]
            if not roots:
                fb.bad.append(f"{cls}: no generated from_dict captured")
            for p in roots:
                fb.add_program(cls, p, metas)
        except Exception as e:  # noqa: BLE001
            fb.bad.append(f"{cls}: coverage class does not build: {type(e).__name__}: {e}"[:200])
        finally:
            sys.modules.pop(mname, None)
