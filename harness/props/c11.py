"""C11 - Union, Optional and Literal resolution is deterministic and never swallows data.

1. theorems: coq/props/C11_union.v (model coq/theories/UnionModel.v, proofs UnionProofs.v)
2. correspondence (M): for generated (union, input) pairs the behaviour of every member
   (un)packer on that input is observed on the real implementation and embedded into a Coq case;
   the model (UnionModel.union_dec / opt_dec / pack_union / lit_dec) must predict what the real
   union/optional/literal method did; the reference (ref_union, ref_lit) and the domain predicates
   (no_shadow, none_safe -> classify; wire_disjoint; lit_homog) are evaluated in Coq and must agree
   with the verdicts of the independent Python oracle below.
3. oracle (always): REF_UNION_DECODE written from the property text, run against the real code.
"""
from __future__ import annotations

import math
import random
import re
import sys
import types
import typing

from harness import vlib
from harness.vlib import coq_str, coq_z

NoneType = type(None)
SCALARS = (int, float, bool, str, NoneType)
KIND = {int: "KInt", float: "KFloat", bool: "KBool", str: "KStr", NoneType: "KNone"}

# ---------------------------------------------------------------------------
# schema universe (self-contained source, also used by replay files)
# ---------------------------------------------------------------------------

SCHEMA_SRC = '''
import enum
from dataclasses import dataclass, field
from datetime import date, datetime, time
from decimal import Decimal
from uuid import UUID
from typing import Any, Dict, Generic, List, Literal, Optional, Sequence, Tuple, TypeVar, Union
from mashumaro import DataClassDictMixin
from mashumaro.codecs.basic import BasicDecoder, BasicEncoder
NoneType = type(None)

@dataclass
class DC1(DataClassDictMixin):
    x: int

@dataclass
class DC2(DataClassDictMixin):
    y: str
    z: int = 0

@dataclass
class DC3(DataClassDictMixin):
    x: date

class Color(enum.Enum):
    RED = "r"
    GREEN = "g"

class Num(enum.IntEnum):
    ONE = 1
    TWO = 2

class Lvl(enum.Enum):
    LO = 1
    HI = 2

class Kind(str, enum.Enum):
    A = "ka"
    B = "kb"

class Perm(enum.IntFlag):
    R = 4
    W = 2

Odd = enum.Enum("Odd", {"a-b": 1, "class": "kw"})

class SStr(str):
    def __repr__(self):
        return "SStr(%s)" % str.__repr__(self)
LS = SStr("sa")

from mashumaro.types import SerializableType
class Weird(SerializableType):
    """user type whose own code rejects inputs with exotic exceptions"""
    def __init__(self, v):
        self.v = v
    def __eq__(self, o):
        return type(o) is Weird and o.v == self.v
    def __repr__(self):
        return "Weird(%r)" % (self.v,)
    def _serialize(self):
        return {"weird": self.v}
    @classmethod
    def _deserialize(cls, value):
        if isinstance(value, dict) and "weird" in value:
            return cls(value["weird"])
        if isinstance(value, str):
            raise RuntimeError("no")
        if isinstance(value, bool):
            raise StopIteration
        if isinstance(value, int):
            raise ZeroDivisionError
        if isinstance(value, list):
            raise AssertionError
        raise KeyError(value)
from typing_extensions import TypeVar as XTypeVar
'''

# member pool: expression, weight
SCALAR_EXPRS = ["int", "float", "bool", "str", "None"]
NONSCALAR_EXPRS = [
    "List[int]", "List[str]", "Dict[str, int]", "Tuple[int, str]", "Tuple[int, ...]", "List[date]",
    "date", "datetime", "UUID", "Decimal", "DC1", "DC2", "DC3", "Color", "Num", "Kind", "Perm", "Weird", "bytes",
    "List[Union[int, date]]", "Dict[str, Union[None, int, str]]", "Literal['a', 1]", "Sequence[int]",
    "List[Optional[int]]",
]
DECODE_ONLY_EXPRS = ["Any"]

# curated shapes: upstream tests, DESIGN examples, the deviations, the mutations we want to see
CURATED_UNIONS = [
    "Union[int, str]", "Union[str, int]", "Union[str, date]", "Union[date, str]", "Union[int, float]",
    "Union[float, int]", "Union[bool, int]", "Union[int, bool]", "Union[Dict[int, int], List[int]]",
    "Union[str, List[str]]", "Union[int, float, None]", "Union[None, int, float]", "Union[int, None, float]",
    "Union[int, None, date]", "Optional[Union[int, date]]", "Union[List[int], str]", "Union[int, Any]",
    "Union[Any, int]", "Union[List[int], Sequence[int], int]", "Optional[int]", "Optional[str]", "Optional[date]",
    "Optional[List[int]]", "Optional[DC1]", "Optional[bool]", "Optional[float]", "Union[None, int]",
    "Union[DC1, DC2]", "Union[DC2, DC1, None]", "Union[DC1, DC3]", "Union[float, bool, str]",
    "Union[bool, float]", "Union[str, bool]", "Union[Decimal, int]", "Union[UUID, str, None]",
    "Union[Tuple[int, str], List[int]]", "Union[Color, int]", "Union[Num, str]", "Union[Literal['a', 1], int]",
    "Union[bytes, str]", "Union[List[Union[int, date]], str]", "Union[datetime, date, str]",
    "Union[date, datetime]", "Union[Dict[str, int], DC1, str]", "Union[float, str, None]",
    "Union[int, Num]", "Union[Num, int]", "Union[Kind, str]", "Union[str, Kind, None]", "Union[Decimal, str]", "Union[None, int, str]",
    "Union[Weird, str]", "Union[Weird, int, List[int]]", "Union[Weird, bool, Dict[str, int]]",
]

DECODE_INPUTS = [
    "None", "True", "False", "0", "1", "-1", "2", "7", "10**20", "0.0", "-0.0", "1.0", "1.5", "-2.5", "2.0",
    "float('nan')", "float('inf')", "1e20", "''", "'1'", "'1.5'", "'a'", "'abc'", "'123'", "' 1 '", "'true'",
    "'None'", "'2020-01-01'", "'2020-01-01T10:20:30'", "'r'", "'g'", "'eA==\\n'", "'12345678-1234-5678-1234-567812345678'",
    "'\\u0663'", "'1_0'", "'nan'", "'ka'", "4", "6", "[]", "[1]", "[1, 2]", "['1']", "['a']", "[1, 'a']", "['2020-01-01']", "[[1]]", "[None]",
    "[1.5]", "[True]", "{}", "{'x': 1}", "{'x': '1'}", "{'y': 's'}", "{'y': 's', 'z': 2}", "{'x': '2020-01-01'}",
    "{'a': 1}", "{'weird': 3}", "{'a': None}", "{'a': 'b'}", "{1: 2}", "{'x': 1, 'y': 's'}", "b'1'", "(1, 2)", "(1, 'a')", "[1, 's']",
]

# values for the encode direction, by member expression
ENCODE_VALUES = {
    "int": ["0", "1", "-5", "10**20"], "float": ["0.0", "1.5", "-2.0"], "bool": ["True", "False"],
    "str": ["''", "'a'", "'2020-01-01'"], "None": ["None"],
    "List[int]": ["[]", "[1, 2]"], "List[str]": ["['a']", "[]"], "Dict[str, int]": ["{}", "{'a': 1}"],
    "Tuple[int, str]": ["(1, 'a')"], "Tuple[int, ...]": ["(1, 2, 3)", "()"], "List[date]": ["[date(2020, 1, 1)]", "[]"],
    "date": ["date(2020, 1, 1)"], "datetime": ["datetime(2020, 1, 1, 10, 20, 30)"],
    "UUID": ["UUID('12345678-1234-5678-1234-567812345678')"], "Decimal": ["Decimal('1.5')"],
    "DC1": ["DC1(x=1)"], "DC2": ["DC2(y='s', z=2)"], "DC3": ["DC3(x=date(2020, 1, 1))"],
    "Color": ["Color.RED"], "Num": ["Num.TWO", "Num.ONE"], "Kind": ["Kind.A"], "Weird": ["Weird(3)"], "Perm": ["Perm.R", "Perm.R | Perm.W"], "bytes": ["b'x'"],
    "List[Union[int, date]]": ["[1, date(2020, 1, 1)]", "[2]"], "Dict[str, Union[None, int, str]]": ["{'a': None, 'b': 1, 'c': 's'}"],
    "Literal['a', 1]": ["'a'", "1"], "Sequence[int]": ["[3]"], "List[Optional[int]]": ["[None, 1]"],
}

CURATED_ENC_UNIONS = [
    "Union[int, str]", "Union[int, date]", "Union[List[int], List[date]]", "Union[List[date], List[int]]",
    "Union[date, str, int, None, List[int]]", "Optional[date]", "Union[UUID, datetime]", "Union[datetime, UUID]",
    "Union[DC1, DC2]", "Union[DC1, DC3]", "Union[DC3, DC1]", "Union[Dict[str, int], List[int]]",
    "Union[Decimal, date]", "Union[Color, Num, None]", "Union[date, datetime]", "Union[datetime, date]",
    "Union[bytes, str]", "Union[float, int, bool, str]", "Union[Tuple[int, str], List[int]]",
    "Union[Decimal, int]", "Union[UUID, int, None]", "Union[UUID, str]", "Union[Decimal, float, str]",
    "Union[int, Num]", "Union[Num, int]", "Union[str, Kind, None]", "Union[Kind, str]", "Union[int, Num, date]", "Union[Perm, int]",
    "Union[int, Perm, str, Kind]", "Union[float, Num]", "Union[bool, Num, str]",
]

LIT_POOL = ["0", "1", "2", "-1", "True", "False", "'a'", "'1'", "''", "None", "Color.RED", "Color.GREEN",
            "Num.ONE", "Lvl.LO", "Lvl.HI", "b'x'", "'r'", "1000", "'x y'", "Odd['a-b']", "Odd['class']", "Kind.A", "LS"]
LIT_INPUTS = ["0", "1", "2", "-1", "True", "False", "0.0", "1.0", "2.0", "-1.0", "1.5", "float('nan')", "'a'", "'1'", "''",
              "None", "'r'", "'g'", "'eA==\\n'", "'eA=='", "'x'", "[]", "[1]", "{}", "'True'", "'None'", "10**20", "1000", "'x y'", "1000.0", "'kw'", "'ka'", "'sa'", "LS"]
LIT_ENC_EXTRA = ["0", "1", "2", "True", "False", "1.0", "0.0", "'a'", "'r'", "'zz'", "None", "Num.ONE", "Num.TWO", "Lvl.LO", "Color.GREEN",
                 "b'x'", "b'y'", "1000", "[]", "1000.0", "'sa'", "LS"]
CURATED_LITS = ["Literal[1]", "Literal[1, True]", "Literal[0, False]", "Literal[True, 1]", "Literal['a']",
                "Literal['a', None]", "Literal[Color.RED, 'r']", "Literal[Lvl.LO, 1]", "Literal[1, Lvl.LO]",
                "Literal[b'x', 'eA==\\n']", "Literal[None]", "Literal[Num.ONE, 2]", "Literal[0, False, 'a', None]",
                "Literal[Literal[1, 2], 'a']", "Literal[1000, 'x y', 2]", "Literal[Num.ONE, True]", "Literal[Num.ONE, 1, True]",
                "Literal[True, Num.ONE]", "Literal[Lvl.LO, Num.ONE, 1]", "Literal[LS, 1]", "Literal[LS]", "Literal['a', LS, None]"]

_MOD_COUNTER = [0]


def xexec(src: str, ns: dict):
    """exec without inheriting this module's `from __future__ import annotations` (annotations must stay objects)"""
    exec(compile(src, "<c11-schema>", "exec", dont_inherit=True), ns)


def make_module(extra_src: str = "") -> types.ModuleType:
    _MOD_COUNTER[0] += 1
    name = f"_c11_schema_{_MOD_COUNTER[0]}"
    mod = types.ModuleType(name)
    sys.modules[name] = mod
    xexec(SCHEMA_SRC + extra_src, mod.__dict__)
    return mod


# ---------------------------------------------------------------------------
# canonical forms
# ---------------------------------------------------------------------------

def canon(x):
    """(class name, repr): what is compared; exact class, so True != 1 and 1 != 1.0."""
    return (type(x).__name__, repr(x))


def outcome(fn, *a):
    try:
        r = fn(*a)
    except Exception as e:  # the generated union code catches Exception
        return ("raise", type(e).__name__, isinstance(e, ValueError))
    return ("ok", r)


def same(o1, o2) -> bool:
    if o1[0] != o2[0]:
        return False
    if o1[0] == "raise":
        return True
    return canon(o1[1]) == canon(o2[1])


def show(o):
    return "raise " + o[1] if o[0] == "raise" else f"{canon(o[1])[1]} ({canon(o[1])[0]})"


def to_uv(x) -> str:
    t = type(x)
    if x is None:
        return "UNone"
    if t is bool:
        return f"(UBool {'true' if x else 'false'})"
    if t is int:
        return f"(UInt {coq_z(x)})"
    if t is float:
        iv = f"(Some {coq_z(int(x))})" if math.isfinite(x) and x == int(x) else "None"
        return f"(UFloat {iv} {coq_str(repr(x))})"
    if t is str:
        return f"(UStr {coq_str(x)})"
    if t is list:
        return "(UList [" + "; ".join(to_uv(y) for y in x) + "])"
    if t is tuple:
        return "(UTuple [" + "; ".join(to_uv(y) for y in x) + "])"
    if t is dict:
        return "(UDict [" + "; ".join(f"({to_uv(k)}, {to_uv(y)})" for k, y in x.items()) + "])"
    return f"(UObj {coq_str(t.__name__)} {coq_str(repr(x))})"


def to_ouv(o) -> str:
    return "None" if o[0] == "raise" else f"(Some {to_uv(o[1])})"


# ---------------------------------------------------------------------------
# running Coq on cases (several verdict functions per file)
# ---------------------------------------------------------------------------

def coq_verdicts(name: str, cases: list[str], case_type: str, funs: list[str], shard=400, jobs=4, timeout=2400, imports="UnionModel UnionCases", gen_imports="", needs=()):
    """For each function f in funs: indices i with f (case i) = false. None + log when Coq failed."""
    br = vlib.coq_make(["theories/Wire.vo", "theories/PyK.vo", "theories/UnionCases.vo", "theories/UnionDeep.vo"] + list(needs), jobs=4)
    if not br.ok:
        return None, "model does not build: " + (br.error or "")
    files = []
    for si in range(0, max(len(cases), 1), shard):
        chunk = cases[si:si + shard]
        txt = vlib.CASE_HEADER.format(imports=imports, gen_imports=gen_imports)
        txt += f"Definition cases : list ({case_type}) :=\n  [" + ";\n   ".join(chunk) + "].\n"
        for f in funs:
            txt += f"Eval vm_compute in (bad_idx ({f}) cases).\n"
        files.append((f"{name}_{si // shard}", txt))
    res = vlib.coq_eval_many(files, timeout=timeout, jobs=jobs)
    bads = [[] for _ in funs]
    for n, (ok, out) in enumerate(res):
        if not ok:
            return None, out[-3000:]
        lists = re.findall(r"=\s*(\[[^\]]*\])\s*(?:%nat)?\s*:\s*list nat", out, re.S)
        if len(lists) != len(funs):
            return None, "unparsable coq output: " + out[-1500:]
        for k, body in enumerate(lists):
            body = body.strip()[1:-1].strip()
            if body:
                bads[k].extend(n * shard + int(x.replace("%nat", "").strip()) for x in body.split(";"))
    return bads, ""


# ---------------------------------------------------------------------------
# schemas under test
# ---------------------------------------------------------------------------

class Site:
    """One union/optional/literal position, reachable through one entry point."""

    def __init__(self, mod, expr: str, entry: str):
        self.mod, self.expr, self.entry = mod, expr, entry
        ns = mod.__dict__
        self.snippet = ""
        n = _MOD_COUNTER[0] = _MOD_COUNTER[0] + 1
        # typing caches parameterised aliases by *equality* of the arguments and Union equality ignores order:
        # Optional[Union[str, int]] / List[Union[str, int]] would silently return an alias built earlier for
        # Union[int, str].  Start every site from empty typing caches (as a fresh process / the replay does).
        for _f in getattr(typing, "_cleanups", []):
            _f()
        if entry == "typevar":
            # expr is a comma separated constraint list
            self.snippet = (f"TV{n} = TypeVar('TV{n}', {expr})\n@dataclass\nclass H{n}(Generic[TV{n}], DataClassDictMixin):\n    x: TV{n}\n")
            xexec(self.snippet, ns)
            self.tp = ns[f"TV{n}"]
            self.members = tuple(NoneType if c is None else c for c in self.tp.__constraints__)
            self.holder = ns[f"H{n}"]
            self.path = "union"
        else:
            self.tp = eval(expr, ns)
            if typing.get_origin(self.tp) is typing.Literal:
                self.members = ()
                self.path = "literal"
            elif typing.get_origin(self.tp) is typing.Union:
                self.members = typing.get_args(self.tp)
                self.path = "optional" if (len(self.members) == 2 and NoneType in self.members) else "union"
            else:
                raise ValueError("not a union: " + expr)
            if entry == "field":
                self.snippet = f"@dataclass\nclass H{n}(DataClassDictMixin):\n    x: {expr}\n"
                xexec(self.snippet, ns)
                self.holder = ns[f"H{n}"]
        self.hname = f"H{n}"
        self._dec = self._enc = None

    # -- real implementation
    def decode(self, d):
        ns = self.mod.__dict__
        if self.entry == "codec":
            if self._dec is None:
                self._dec = ns["BasicDecoder"](self.tp)
            return self._dec.decode(d)
        if self.entry == "list":
            if self._dec is None:
                self._dec = ns["BasicDecoder"](list[self.tp])
            return self._dec.decode([d])[0]
        return self.holder.from_dict({"x": d}).x

    def encode(self, v):
        ns = self.mod.__dict__
        if self.entry == "codec":
            if self._enc is None:
                self._enc = ns["BasicEncoder"](self.tp)
            return self._enc.encode(v)
        if self.entry == "list":
            if self._enc is None:
                self._enc = ns["BasicEncoder"](list[self.tp])
            return self._enc.encode([v])[0]
        return self.holder(x=v).to_dict()["x"]

    def replay_base(self):
        return {"src": SCHEMA_SRC + self.snippet, "entry": self.entry, "type_expr": self.expr, "holder": self.hname}


class Members:
    """Stand-alone (un)packers of member types (the behaviour the union dispatches to)."""

    def __init__(self, mod):
        self.mod = mod
        self.dec = {}
        self.enc = {}
        self.mixenc = {}

    def _key(self, m):
        return repr(m)

    def decoder(self, m):
        k = self._key(m)
        if k not in self.dec:
            self.dec[k] = self.mod.__dict__["BasicDecoder"](m)
        return self.dec[k]

    def accept(self, m, d):
        return outcome(self.decoder(m).decode, d)

    def encode(self, m, v, mixin: bool):
        k = self._key(m)
        if mixin:
            if k not in self.mixenc:
                _MOD_COUNTER[0] += 1
                hn = f"HM{_MOD_COUNTER[0]}"
                ns = self.mod.__dict__
                ns["_m_tmp"] = m
                xexec(f"@dataclass\nclass {hn}(DataClassDictMixin):\n    x: _m_tmp\n", ns)
                self.mixenc[k] = ns[hn]
            h = self.mixenc[k]
            return outcome(lambda: h(x=v).to_dict()["x"])
        if k not in self.enc:
            self.enc[k] = self.mod.__dict__["BasicEncoder"](m)
        return outcome(self.enc[k].encode, v)


# ---------------------------------------------------------------------------
# REFERENCE (independent of the Coq model): the property text
# ---------------------------------------------------------------------------

def ref_union_decode(members, d, accept):
    """(1) exact scalar class of d is a scalar member => d unchanged; (2) else the first non-scalar member in
    declaration order whose own decoder accepts d; (3) else the first scalar member whose coercion accepts d,
    a null member accepting only null; (4) else raise."""
    t = type(d)
    if t in SCALARS and t in members:
        return ("ok", d)
    for m in members:
        if m not in SCALARS:
            r = accept(m, d)
            if r[0] == "ok":
                return r
    for m in members:
        if m in SCALARS:
            if m is NoneType:
                if d is None:
                    return ("ok", None)
                continue
            r = accept(m, d)
            if r[0] == "ok":
                return r
    return ("raise", "ValueError")


def classify_decode(members, d, observed, expected, accept) -> str:
    """Which listed finding (if any) explains observed != expected.  Narrow: see known_findings.d/C11.json."""
    if same(observed, expected):
        return "agree"
    t = type(d)
    if t in SCALARS and t in members:
        for m in members[:members.index(t)]:
            if m not in SCALARS:
                r = accept(m, d)
                if r[0] == "ok":   # first accepting non-scalar member declared before the matching scalar member
                    return "union-scalar-shadowed" if same(observed, r) else "other"
    # the None member's fallback expression: reached only when d's class is no scalar member, no non-scalar member
    # accepts d and every scalar member declared before None refuses to coerce d
    if (NoneType in members and d is not None and observed[0] == "ok" and observed[1] is None
            and not (t in SCALARS and t in members)
            and all(accept(m, d)[0] != "ok" for m in members if m not in SCALARS)
            and all(accept(m, d)[0] != "ok" for m in members[:members.index(NoneType)] if m in SCALARS)):
        return "union-none-fallback"
    return "other"


DEVCLASS = {"agree": "Agree", "union-none-fallback": "NoneDev", "union-scalar-shadowed": "ShadowDev", "other": "OtherDev"}


def conforms(tp, v) -> bool:
    """v is a value of type tp (exact classes), for the type forms of the pool."""
    if tp is None or tp is NoneType:
        return v is None
    if tp is typing.Any:
        return True
    org = typing.get_origin(tp)
    args = typing.get_args(tp)
    if org is typing.Union:
        return any(conforms(a, v) for a in args)
    if org is typing.Literal:
        return any(type(v) is type(a) and v == a for a in args)
    if org in (list, typing.Sequence) or (org is not None and getattr(org, "__name__", "") == "Sequence"):
        return type(v) is list and all(conforms(args[0], x) for x in v)
    if org is dict:
        return type(v) is dict and all(conforms(args[0], k) and conforms(args[1], x) for k, x in v.items())
    if org is tuple:
        if type(v) is not tuple:
            return False
        if len(args) == 2 and args[1] is Ellipsis:
            return all(conforms(args[0], x) for x in v)
        return len(v) == len(args) and all(conforms(a, x) for a, x in zip(args, v))
    return type(v) is tp


def is_identity_packer(m) -> bool:
    return m in SCALARS


# ---------------------------------------------------------------------------
# parts
# ---------------------------------------------------------------------------

def gen_union_expr(rng, encode: bool) -> tuple[str, str]:
    """(expression, entry)"""
    n = rng.choice([2, 2, 3, 3, 3, 4, 4, 5])
    ns = rng.randint(0, min(n, 4))
    pool_n = NONSCALAR_EXPRS + ([] if encode else DECODE_ONLY_EXPRS)
    ms = rng.sample(SCALAR_EXPRS, ns) + rng.sample(pool_n, n - ns)
    rng.shuffle(ms)
    form = rng.random()
    if form < 0.15 and "None" not in ms:   # a TypeVar constraint None is rejected by mashumaro at build time
        return ", ".join(ms), "typevar"
    entry = rng.choice(["codec", "codec", "field", "list"])
    if form < 0.3:
        inner = [m for m in ms if m != "None"]
        if len(inner) >= 2:
            return f"Optional[Union[{', '.join(inner)}]]", entry
    return f"Union[{', '.join(ms)}]", entry


def member_label(m) -> str:
    if m in SCALARS:
        return KIND[m][1:].lower()
    s = getattr(m, "__name__", None) or repr(m)
    return re.sub(r"typing\.|_c11_schema_\d+\.|datetime\.|uuid\.|decimal\.", "", repr(m) if typing.get_origin(m) else s)


def decode_part(ctx: vlib.Ctx, mod, mem: Members):
    rng = ctx.rng
    n_random = ctx.budget(140, 900)
    n_inputs = ctx.budget(26, 40)
    specs = [(e, ent) for e in CURATED_UNIONS for ent in (("codec", "field") if ctx.quick() else ("codec", "field", "list"))]
    specs += [("int, str", "typevar"), ("date, str", "typevar"), ("int, Union[str, date]", "typevar"),
              ("List[int], str", "typevar"), ("int, Optional[date], str", "typevar")]
    seen = set(specs)
    for _ in range(n_random):
        s = gen_union_expr(rng, encode=False)
        if s not in seen:
            seen.add(s)
            specs.append(s)
    ucases, uinfo, ocases, oinfo = [], [], [], []
    for expr, entry in specs:
        try:
            site = Site(mod, expr, entry)
        except Exception as e:
            ctx.notes.append(f"schema not built: {expr} via {entry}: {type(e).__name__}: {e}"[:200])
            continue
        if site.path == "literal" or len(site.members) < 2:
            continue
        members = list(site.members)
        ctx.hist("decode_path", site.path + "/" + entry)
        ctx.hist("decode_n_members", str(len(members)))
        inputs = list(DECODE_INPUTS) if (expr in CURATED_UNIONS and not ctx.quick()) else rng.sample(DECODE_INPUTS, n_inputs)
        if expr in CURATED_UNIONS and ctx.quick():
            inputs = sorted(set(inputs + ["None", "True", "1", "1.5", "'a'", "'1'", "'2020-01-01'", "[1, 2]", "'123'", "0", "''", "[]", "{'x': 1}"]), key=DECODE_INPUTS.index)
        for dx in inputs:
            d = eval(dx, mod.__dict__)
            accept = lambda m, d=d: mem.accept(m, d)
            observed = outcome(site.decode, d)
            again = outcome(site.decode, eval(dx, mod.__dict__))
            expected = ref_union_decode(members, d, accept)
            cls = classify_decode(members, d, observed, expected, accept) if site.path == "union" else ("agree" if same(observed, expected) else "other")
            key = (tuple(member_label(m) for m in members), site.path, type(d).__name__, cls, observed[0])
            ctx.count(key)
            ctx.hist("decode_input_class", type(d).__name__)
            ctx.hist("decode_outcome", cls + "/" + observed[0])
            rep = dict(site.replay_base(), op="decode", input=dx, observed=show(observed), expected=show(expected))
            if not same(observed, again):
                ctx.fail(f"decode of {dx} into {expr} via {entry} is not deterministic: {show(observed)} then {show(again)}",
                         dict(rep, expected=show(observed)), {"kind": "nondeterministic", "op": "decode"})
            if cls != "agree":
                ctx.fail(f"decode {expr} via {entry} <- {dx}: got {show(observed)}, property says {show(expected)}", rep,
                         {"kind": cls, "op": "decode"})
            if observed[0] == "raise" and observed[1] not in ("ValueError", "InvalidFieldValue"):
                ctx.hist("decode_raise_class", observed[1])
            # the union method's own raise (no member accepts) is ValueError(value) / InvalidFieldValue
            if site.path == "union" and observed[0] == "raise" and expected[0] == "raise" and not observed[2]:
                ctx.fail(f"decode {expr} via {entry} <- {dx}: no member accepts, but the exception is {observed[1]}, not a ValueError",
                         dict(rep, expected="raise ValueError"), {"kind": "raise-class", "op": "decode"})
            # Coq case
            if site.path == "union":
                cms = []
                for i, m in enumerate(members):
                    if m in SCALARS:
                        r = ("ok", None) if m is NoneType else accept(m, d)
                        cms.append(f"CS {KIND[m]} {to_ouv(r)}")
                    else:
                        cms.append(f"CN {i} {to_ouv(accept(m, d))}")
                ucases.append(f"UC [{'; '.join(cms)}] {to_uv(d)} {to_ouv(observed)} {to_ouv(expected)} {DEVCLASS[cls]}")
                uinfo.append((expr, entry, dx, show(observed), show(expected), cls))
            else:
                inner = [m for m in members if m is not NoneType][0]
                ocases.append(f"OC {to_ouv(accept(inner, d))} {to_uv(d)} {to_ouv(observed)}")
                oinfo.append((expr, entry, dx, show(observed)))
            if cls == "agree" and len(ctx.coverage["samples"]) < 3 and observed[0] == "ok" and type(d) is not type(observed[1]):
                ctx.sample({"op": "decode", "type": expr, "entry": entry, "input": dx, "observed": show(observed)})
    # correspondence
    corr(ctx, "union-decode-model-vs-impl", ucases, uinfo, "ucase",
         ["ucase_ok", "ucase_ok_model", "ucase_ok_ref", "ucase_ok_cls"], stale_fun="ucase_stale")
    corr(ctx, "optional-decode-model-vs-impl", ocases, oinfo, "ocase", ["ocase_ok"])


def corr(ctx, name, cases, info, ctype, funs, stale_fun=None, imports="UnionModel UnionCases", shard=400, gen_imports="", needs=()):
    """funs[0] = overall verdict, the others only explain a failure.  stale_fun marks cases where the
    implementation agrees with the reference while the (faithful, defect-containing) model deviates in a
    listed way: a repaired finding; reported as model-stale, not as a violation."""
    if not cases:
        ctx.correspondence(name, 0, 0, "no cases")
        return
    cap = ctx.budget(2400, 16000)
    if len(cases) > cap:
        idx = sorted(ctx.rng.sample(range(len(cases)), cap))
        cases = [cases[i] for i in idx]
        info = [info[i] for i in idx]
    allf = list(funs) + ([f"fun c => negb ({stale_fun} c)"] if stale_fun else [])
    bads, log = coq_verdicts("c11_" + name.split("-model")[0].replace("-", "_"), cases, ctype, allf,
                             jobs=4 if ctx.quick() else 10, imports=imports, shard=shard, gen_imports=gen_imports, needs=needs)
    if bads is None:
        ctx.correspondence(name, len(cases), -1, log)
        ctx.not_shown("correspondence " + name, log)
        return
    bad = bads[0]
    stale = set(bads[-1]) if stale_fun else set()
    real_bad = [i for i in bad if i not in stale]
    detail = ""
    if bad:
        parts = []
        for i in (real_bad + sorted(stale))[:8]:
            why = [funs[k] for k in range(1, len(funs)) if i in bads[k]]
            parts.append(f"{info[i]} failing={why}{' model-stale' if i in stale else ''}")
        detail = "; ".join(parts)
    ctx.correspondence(name, len(cases), len(real_bad), detail)
    if stale:
        ctx.notes.append(f"model-stale: {len(stale)} case(s) of {name} where the implementation now follows the reference "
                         f"while the model still contains a listed finding, e.g. {info[sorted(stale)[0]]}")
    if real_bad:
        ctx.not_shown("correspondence " + name, detail)


def classify_encode(site, members, j, v, observed, expected, menc) -> str:
    if same(observed, expected):
        return "agree"
    # packers are tried in declaration order without a class check: a member declared before the
    # matching one, to which v does not belong, whose packer nevertheless accepts v
    if not is_identity_packer(members[j]):
        for k in range(j):
            m = members[k]
            if not is_identity_packer(m) and not conforms(m, v):
                r = menc(m, v)
                if r[0] == "ok":
                    return "union-encode-untyped-try" if same(observed, r) else "other"
    return "other"


def encode_part(ctx: vlib.Ctx, mod, mem: Members):
    rng = ctx.rng
    specs = [(e, ent) for e in CURATED_ENC_UNIONS for ent in ("codec", "field")]
    seen = set(specs)
    for _ in range(ctx.budget(120, 600)):
        s = gen_union_expr(rng, encode=True)
        if s not in seen:
            seen.add(s)
            specs.append(s)
    pcases, pinfo = [], []
    expr_of = {}
    for e in SCALAR_EXPRS + NONSCALAR_EXPRS:
        expr_of[repr(eval(e, mod.__dict__))] = e
    expr_of[repr(NoneType)] = "None"
    for expr, entry in specs:
        try:
            site = Site(mod, expr, entry)
        except Exception as e:
            ctx.notes.append(f"schema not built: {expr} via {entry}: {type(e).__name__}: {e}"[:200])
            continue
        members = list(site.members)
        mixin = entry in ("field", "typevar")
        menc = lambda m, v: mem.encode(m, v, mixin)
        ctx.hist("encode_path", site.path + "/" + entry)
        for i, m in enumerate(members):
            mexpr = expr_of.get(repr(m))
            if mexpr is None or mexpr not in ENCODE_VALUES:
                continue
            for vx in ENCODE_VALUES[mexpr]:
                v = eval(vx, mod.__dict__)
                j = next((k for k, mm in enumerate(members) if conforms(mm, v)), None)
                if j is None:
                    continue
                observed = outcome(site.encode, v)
                expected = menc(members[j], v) if members[j] is not NoneType else ("ok", None)
                if expected[0] != "ok":
                    continue  # the member itself cannot encode this value: not a member value
                cls = classify_encode(site, members, j, v, observed, expected, menc) if site.path == "union" else ("agree" if same(observed, expected) else "other")
                ctx.count(("enc", tuple(member_label(x) for x in members), site.path, mexpr, cls))
                ctx.hist("encode_value_class", type(v).__name__)
                ctx.hist("encode_outcome", cls + "/" + observed[0])
                if cls != "agree":
                    ctx.fail(f"encode {expr} via {entry} <- {vx}: got {show(observed)}, member {member_label(members[j])} gives {show(expected)}",
                             dict(site.replay_base(), op="encode", input=vx, observed=show(observed), expected=show(expected)),
                             {"kind": cls, "op": "encode"})
                if site.path != "union":
                    continue
                cms, accepts_out = [], []
                for k, mm in enumerate(members):
                    ident = is_identity_packer(mm)
                    r = ("ok", v) if ident else menc(mm, v)
                    cname = "NoneType" if mm is NoneType else getattr(typing.get_origin(mm) or mm, "__name__", repr(mm))
                    cms.append(f"CP {coq_str(cname)} {'None' if ident else f'(Some {k + 1}%nat)'} {to_ouv(r)}")
                    fires = (type(v) is mm) if ident else r[0] == "ok"
                    if fires:
                        accepts_out.append(r)
                disj = all(same(a, b) for a in accepts_out for b in accepts_out)
                pcases.append(f"PC [{'; '.join(cms)}] {to_uv(v)} {to_ouv(observed)} {to_ouv(expected)} {'true' if disj else 'false'}")
                pinfo.append((expr, entry, vx, show(observed), show(expected), cls, disj))
                if disj and cls != "agree":
                    # the theorem's hypothesis holds and the real code still deviates
                    ctx.not_shown("C11_union_encode_partial hypothesis holds but implementation deviates", str(pinfo[-1]))
    corr(ctx, "union-encode-model-vs-impl", pcases, pinfo, "pcase", ["pcase_ok", "pcase_ok_model", "pcase_ok_disj"], stale_fun="pcase_stale")


def lit_coq(l) -> str:
    import enum as _enum
    if isinstance(l, _enum.Enum):
        return f"(LEnum {to_uv(l.value)} {to_uv(l)})"
    if type(l) is bytes:
        return f"(LBytes {to_uv(l)})"
    if l is None:
        return "LNone"
    if type(l) is bool:
        return f"(LBool {'true' if l else 'false'})"
    if type(l) is int:
        return f"(LInt {coq_z(l)})"
    return f"(LStr {coq_str(l)})"


def literal_part(ctx: vlib.Ctx, mod, mem: Members):
    import enum as _enum
    from mashumaro.core.meta.helpers import get_literal_values
    rng = ctx.rng
    specs = [(e, ent) for e in CURATED_LITS for ent in ("codec", "field")]
    for _ in range(ctx.budget(50, 300)):
        k = rng.choice([1, 2, 2, 3, 4])
        specs.append((f"Literal[{', '.join(rng.sample(LIT_POOL, k))}]", rng.choice(["codec", "field", "list"])))
    lcases, linfo, lecases, leinfo = [], [], [], []
    for expr, entry in specs:
        site = Site(mod, expr, entry)
        # a listed instance of a str/int/bytes subclass stands for the plain builtin value (fix 12c7fd8)
        lits = [next((b.__new__(b, l) for b in (str, bytes) if isinstance(l, b) and type(l) is not b and not isinstance(l, _enum.Enum)), l)
                for l in get_literal_values(site.tp)]

        def wire(l):
            return l.value if isinstance(l, _enum.Enum) else l

        def bdec(v):
            return mem.accept(bytes, v)

        def strict(v, l):
            if type(l) is bytes:
                r = bdec(v)
                return r[0] == "ok" and canon(r[1]) == canon(l)
            return canon(v) == canon(wire(l))

        def pymatch(v, l):
            if type(l) is bytes:
                return strict(v, l)
            return bool(v == wire(l))

        inputs = LIT_INPUTS if not ctx.quick() or expr in CURATED_LITS else rng.sample(LIT_INPUTS, 14)
        for vx in inputs:
            v = eval(vx, mod.__dict__)
            observed = outcome(site.decode, v)
            exp_l = next((l for l in lits if strict(v, l)), None)   # REFERENCE: exactly the listed values
            expected = ("ok", exp_l) if any(strict(v, l) for l in lits) else ("raise", "ValueError")
            cls = "agree" if same(observed, expected) else "literal-decode"
            cross = any(pymatch(v, l) and not strict(v, l) for l in lits)
            ctx.count(("lit", expr, type(v).__name__, cls, cross))
            ctx.hist("literal_input_class", type(v).__name__)
            ctx.hist("literal_outcome", cls + "/" + observed[0] + ("/cross-type-equal" if cross else ""))
            if cls != "agree":
                ctx.fail(f"Literal decode {expr} via {entry} <- {vx}: got {show(observed)}, property says {show(expected)}",
                         dict(site.replay_base(), op="decode", input=vx, observed=show(observed), expected=show(expected)),
                         {"kind": cls, "op": "decode", "cross_type_equal": cross})
            lcases.append(f"LC [{'; '.join(lit_coq(l) for l in lits)}] {to_ouv(bdec(v))} {to_uv(v)} {to_ouv(observed)} {to_ouv(expected)}")
            linfo.append((expr, entry, vx, show(observed), show(expected), cls))
        # encode: a listed constant is packed like a value of its own class, anything else raises
        evals = [(l, repr(l) if not isinstance(l, _enum.Enum) else f"{type(l).__name__}[{l.name!r}]") for l in lits]
        evals += [(eval(x, mod.__dict__), x) for x in (LIT_ENC_EXTRA if not ctx.quick() or expr in CURATED_LITS else rng.sample(LIT_ENC_EXTRA, 5))]
        for v, vx in evals:
            observed = outcome(site.encode, v)
            hit = next((l for l in lits if canon(v) == canon(l)), None)
            expected = mem.encode(type(hit), v, False) if hit is not None or any(canon(v) == canon(l) for l in lits) else ("raise", "ValueError")
            benc = mem.encode(bytes, v, False)
            cls = "agree" if same(observed, expected) else "literal-encode"
            ctx.count(("litenc", expr, type(v).__name__, cls))
            ctx.hist("literal_encode_outcome", cls + "/" + observed[0])
            if cls != "agree":
                ctx.fail(f"Literal encode {expr} via {entry} <- {vx}: got {show(observed)}, property says {show(expected)}",
                         dict(site.replay_base(), op="encode", input=vx, observed=show(observed), expected=show(expected)),
                         {"kind": cls, "op": "encode"})
            lecases.append(f"LEC [{'; '.join(lit_coq(l) for l in lits)}] {to_ouv(benc)} {to_uv(v)} {to_ouv(observed)} {to_ouv(expected)}")
            leinfo.append((expr, entry, vx, show(observed), show(expected), cls))
    corr(ctx, "literal-decode-model-vs-impl", lcases, linfo, "lcase", ["lcase_ok", "lcase_ok_model", "lcase_ok_ref", "lcase_ok_dom"])
    corr(ctx, "literal-encode-model-vs-impl", lecases, leinfo, "lecase", ["lecase_ok", "lecase_ok_model", "lecase_ok_ref"])


# ---------------------------------------------------------------------------
# several union / optional positions inside ONE shape
# ---------------------------------------------------------------------------
# name: (holes, slot->hole, type template | None, class snippet | None, input template, decode extractors,
#        value template, encode extractors).  {0},{1} = hole types, {a},{b} = slot expressions, {n} = serial.
SHAPES = {
    "tuple2": (2, [0, 1], "tuple[{0}, {1}]", None, "[{a}, {b}]", ["r[0]", "r[1]"], "({a}, {b})", ["r[0]", "r[1]"]),
    "tuple3": (2, [0, 1], "tuple[{0}, str, {1}]", None, "[{a}, 's', {b}]", ["r[0]", "r[2]"], "({a}, 's', {b})", ["r[0]", "r[2]"]),
    "vartuple": (1, [0, 0], "tuple[{0}, ...]", None, "[{a}, {b}]", ["r[0]", "r[1]"], "({a}, {b})", ["r[0]", "r[1]"]),
    "list": (1, [0, 0], "list[{0}]", None, "[{a}, {b}]", ["r[0]", "r[1]"], "[{a}, {b}]", ["r[0]", "r[1]"]),
    "dictval": (1, [0, 0], "dict[str, {0}]", None, "{{'p': {a}, 'q': {b}}}", ["r['p']", "r['q']"], "{{'p': {a}, 'q': {b}}}", ["r['p']", "r['q']"]),
    "namedtuple": (2, [0, 1], "NT{n}", "from typing import NamedTuple\nclass NT{n}(NamedTuple):\n    a: {0}\n    b: {1}\n",
                   "[{a}, {b}]", ["r.a", "r.b"], "NT{n}({a}, {b})", ["r[0]", "r[1]"]),
    "typeddict": (2, [0, 1], "TD{n}", "from typing import TypedDict\nclass TD{n}(TypedDict):\n    a: {0}\n    b: {1}\n",
                  "{{'a': {a}, 'b': {b}}}", ["r['a']", "r['b']"], "{{'a': {a}, 'b': {b}}}", ["r['a']", "r['b']"]),
    "dataclass": (2, [0, 1], "DH{n}", "@dataclass\nclass DH{n}(DataClassDictMixin):\n    a: {0}\n    b: {1}\n",
                  "{{'a': {a}, 'b': {b}}}", ["r.a", "r.b"], "DH{n}(a={a}, b={b})", ["r['a']", "r['b']"]),
    "dict_of_tuple": (2, [0, 1], "dict[str, tuple[{0}, {1}]]", None, "{{'k': [{a}, {b}]}}", ["r['k'][0]", "r['k'][1]"],
                      "{{'k': ({a}, {b})}}", ["r['k'][0]", "r['k'][1]"]),
    "tuple_of_lists": (2, [0, 1], "tuple[list[{0}], list[{1}]]", None, "[[{a}], [{b}]]", ["r[0][0]", "r[1][0]"],
                       "([{a}], [{b}])", ["r[0][0]", "r[1][0]"]),
    "list_of_tuple": (2, [0, 1], "list[tuple[{0}, {1}]]", None, "[[{a}, {b}]]", ["r[0][0]", "r[0][1]"], "[({a}, {b})]", ["r[0][0]", "r[0][1]"]),
}
OPT_INNER = ["date", "datetime", "UUID", "Decimal", "DC1", "Color", "List[int]", "List[date]", "Dict[str, int]", "bytes", "int", "str"]


class ShapeSite:
    def __init__(self, mod, shape: str, holes: list[str], entry: str):
        nh, self.slots, ttpl, snip, self.in_tpl, self.dec_ex, self.val_tpl, self.enc_ex = SHAPES[shape]
        self.shape, self.holes, self.entry, self.mod = shape, holes, entry, mod
        ns = mod.__dict__
        n = _MOD_COUNTER[0] = _MOD_COUNTER[0] + 1
        self.n = n
        for _f in getattr(typing, "_cleanups", []):
            _f()
        h = holes + [holes[-1]] * (2 - len(holes))
        self.snippet = snip.format(h[0], h[1], n=n) if snip else ""
        if self.snippet:
            xexec(self.snippet, ns)
        self.type_expr = ttpl.format(h[0], h[1], n=n)
        self.tp = eval(self.type_expr, ns)
        self.hole_tps = [eval(x, ns) for x in holes]
        if shape == "dataclass":
            self.entry = "dataclass"
        self.holder = ""
        if self.entry in ("field", "optfield"):
            # optfield: the enclosing field is nullable, so the field loop tests for None itself and hands
            # could_be_none=False down to the registry; every container must switch it on again for its items
            ann = self.type_expr if self.entry == "field" else f"Optional[{self.type_expr}]"
            hs = f"@dataclass\nclass HS{n}(DataClassDictMixin):\n    x: {ann}\n"
            xexec(hs, ns)
            self.snippet += hs
            self.holder = f"HS{n}"
        self._dec = self._enc = None

    def slot_info(self, i):
        tp = self.hole_tps[self.slots[i]]
        members = list(typing.get_args(tp))
        path = "optional" if (len(members) == 2 and NoneType in members) else "union"
        return tp, members, path

    def decode(self, x):
        ns = self.mod.__dict__
        if self.entry == "dataclass":
            return self.tp.from_dict(x)
        if self.entry in ("field", "optfield"):
            return ns[self.holder].from_dict({"x": x}).x
        if self._dec is None:
            self._dec = ns["BasicDecoder"](self.tp)
        return self._dec.decode(x)

    def encode(self, v):
        ns = self.mod.__dict__
        if self.entry == "dataclass":
            return v.to_dict()
        if self.entry in ("field", "optfield"):
            return ns[self.holder](x=v).to_dict()["x"]
        if self._enc is None:
            self._enc = ns["BasicEncoder"](self.tp)
        return self._enc.encode(v)

    def fmt(self, tpl, a, b):
        return tpl.format(a=a, b=b, n=self.n)

    def replay_base(self):
        return {"src": SCHEMA_SRC + self.snippet, "entry": "shape-" + ("field" if self.entry == "optfield" else self.entry),
                "type_expr": self.type_expr, "holder": self.holder}


def permuted(rng, expr_members: list[str]) -> list[str]:
    p = list(expr_members)
    for _ in range(6):
        rng.shuffle(p)
        if p != expr_members:
            break
    return p


def gen_hole(rng, encode: bool) -> list[str]:
    """member expressions of one hole"""
    if rng.random() < 0.4:
        return [rng.choice(OPT_INNER), "None"] if rng.random() < 0.7 else ["None", rng.choice(OPT_INNER)]
    n = rng.choice([2, 2, 3, 3, 4])
    ns = rng.randint(0, min(n, 4))
    pool_n = NONSCALAR_EXPRS + ([] if encode else DECODE_ONLY_EXPRS)
    ms = rng.sample(SCALAR_EXPRS, ns) + rng.sample(pool_n, n - ns)
    rng.shuffle(ms)
    return ms


def hole_expr(ms: list[str]) -> str:
    if len(ms) == 2 and ms[1] == "None":
        return f"Optional[{ms[0]}]"
    return f"Union[{', '.join(ms)}]"


def ucase_str(members, d, observed, expected, cls, accept):
    cms = []
    for i, m in enumerate(members):
        if m in SCALARS:
            r = ("ok", None) if m is NoneType else accept(m, d)
            cms.append(f"CS {KIND[m]} {to_ouv(r)}")
        else:
            cms.append(f"CN {i} {to_ouv(accept(m, d))}")
    return f"UC [{'; '.join(cms)}] {to_uv(d)} {to_ouv(observed)} {to_ouv(expected)} {DEVCLASS[cls]}"


def pcase_str(members, v, observed, expected, menc):
    cms, outs = [], []
    for k, mm in enumerate(members):
        ident = is_identity_packer(mm)
        r = ("ok", v) if ident else menc(mm, v)
        cname = "NoneType" if mm is NoneType else getattr(typing.get_origin(mm) or mm, "__name__", repr(mm))
        cms.append(f"CP {coq_str(cname)} {'None' if ident else f'(Some {k + 1}%nat)'} {to_ouv(r)}")
        if (type(v) is mm) if ident else r[0] == "ok":
            outs.append(r)
    disj = all(same(a, b) for a in outs for b in outs)
    return f"PC [{'; '.join(cms)}] {to_uv(v)} {to_ouv(observed)} {to_ouv(expected)} {'true' if disj else 'false'}", disj


ORDER_SENSITIVE = ["'1'", "'1.5'", "1.5", "True", "1", "[1]", "['1']", "'2020-01-01'", "0", "'a'", "None", "{'x': 1}", "2.0", "''"]


def shapes_part(ctx: vlib.Ctx, mod, mem: Members):
    rng = ctx.rng
    ucases, uinfo, ocases, oinfo, pcases, pinfo, oecases, oeinfo = [], [], [], [], [], [], [], []
    names = list(SHAPES)
    expr_of = {repr(eval(e, mod.__dict__)): e for e in SCALAR_EXPRS + NONSCALAR_EXPRS}
    expr_of[repr(NoneType)] = "None"
    n_shapes = ctx.budget(330, 1500)
    # systematic prefix (own random stream, the sampled part below is unchanged by it): EVERY shape x EVERY entry point
    # (codec / field / nullable field: could_be_none handed down as False) x both directions with an Optional position
    # that receives None -- the null member must match null at every nesting, whatever the enclosing spec says
    entries = ["codec", "field", "optfield"]
    n_sys = len(names) * len(entries) * 2
    srng = random.Random(ctx.seed * 7919 + 11)
    main_rng = rng
    for it in range(-n_sys, n_shapes):
        systematic = it < 0
        rng = srng if systematic else main_rng
        k = it + n_sys
        shape = names[(k // 2) % len(names)] if systematic else names[it % len(names)]
        encode = it % 2 == 1
        nh = SHAPES[shape][0]
        h0 = gen_hole(rng, encode)
        if systematic:
            inner = rng.choice(OPT_INNER)
            h0 = [inner, "None"] if rng.random() < 0.7 else ["None", inner]
        # the second hole: the same members in another order (typing equality ignores the order), or independent
        h1 = permuted(rng, h0) if rng.random() < 0.6 else gen_hole(rng, encode)
        if systematic:      # both holes Optional, independent inner types
            inner1 = rng.choice(OPT_INNER)
            h1 = [inner1, "None"] if rng.random() < 0.7 else ["None", inner1]
        holes = [hole_expr(h0), hole_expr(h1)][:nh]
        entry = rng.choice(entries)
        if systematic:
            entry = entries[(k // 2) // len(names)]
        try:
            site = ShapeSite(mod, shape, holes, entry)
        except Exception as e:
            ctx.notes.append(f"shape not built: {shape} {holes} via {entry}: {type(e).__name__}: {e}"[:200])
            continue
        infos = [site.slot_info(i) for i in range(2)]
        ctx.hist("shape_kind", shape + ("/enc" if encode else "/dec"))
        ctx.hist("shape_slot_paths", "+".join(i[2] for i in infos) + ("/permuted" if (nh == 2 and sorted(h0) == sorted(h1) and h0 != h1) else ""))
        mixin = site.entry in ("field", "optfield", "dataclass")
        # two positions with the same members in another order: feed both the inputs on which the property's
        # reference distinguishes the two orders (found by search over the input pool, per member set)
        sens = []
        if not encode and infos[0][2] == "union" and infos[1][2] == "union" and infos[0][1] != infos[1][1] \
                and sorted(map(repr, infos[0][1])) == sorted(map(repr, infos[1][1])):
            for dx in DECODE_INPUTS:
                d = eval(dx, mod.__dict__)
                acc = lambda m, d=d: mem.accept(m, d)
                if not same(ref_union_decode(infos[0][1], d, acc), ref_union_decode(infos[1][1], d, acc)):
                    sens.append(dx)
            sens = rng.sample(sens, min(len(sens), ctx.budget(4, 6)))
            ctx.hist("shape_order_sensitive_inputs", str(len(sens)))
        for rep_i in range(ctx.budget(3, 4) + len(sens)):
            if not encode:
                if rep_i >= ctx.budget(3, 4):
                    a = b = sens[rep_i - ctx.budget(3, 4)]
                else:
                    a = rng.choice(ORDER_SENSITIVE if rng.random() < 0.6 else DECODE_INPUTS)
                    b = a if rng.random() < 0.5 else rng.choice(ORDER_SENSITIVE if rng.random() < 0.6 else DECODE_INPUTS)
                    if systematic and rep_i < 2:
                        # one slot receives None, the other an input its hole accepts (so that a raise of the whole is a verdict)
                        def okin(i):
                            c = []
                            for dx in DECODE_INPUTS:
                                d0 = eval(dx, mod.__dict__)
                                if d0 is not None and ref_union_decode(infos[i][1], d0, lambda m, d0=d0: mem.accept(m, d0))[0] == "ok":
                                    c.append(dx)
                            return rng.choice(c) if c else "None"
                        a, b = ("None", okin(1)) if rep_i == 0 else (okin(0), "None")
                inx = site.fmt(site.in_tpl, a, b)
                whole = outcome(site.decode, eval(inx, mod.__dict__))
                exps, ds = [], []
                for i, dx in enumerate((a, b)):
                    d = eval(dx, mod.__dict__)
                    ds.append(d)
                    exps.append(ref_union_decode(infos[i][1], d, lambda m, d=d: mem.accept(m, d)))
                base = dict(site.replay_base(), op="decode", input=inx)
                if whole[0] == "raise" and all(e[0] == "ok" for e in exps):
                    ctx.count(("shape", shape, "raise-unexpected"))
                    ctx.fail(f"decode {site.type_expr} via {site.entry} <- {inx}: raised {whole[1]}, property says every position accepts "
                             f"({', '.join(show(e) for e in exps)})", dict(base, extract=None, observed=show(whole), expected="ok"),
                             {"kind": "other", "op": "decode", "shape": shape})
                    continue
                for i in range(2):
                    tp, members, path = infos[i]
                    d, expected = ds[i], exps[i]
                    accept = lambda m, d=d: mem.accept(m, d)
                    if whole[0] == "raise":
                        if expected[0] == "raise":
                            ctx.count(("shape", shape, path, "raise"))
                        continue
                    observed = outcome(lambda: eval(site.dec_ex[i], {"r": whole[1]}))
                    cls = classify_decode(members, d, observed, expected, accept) if path == "union" else ("agree" if same(observed, expected) else "other")
                    ctx.count(("shape", shape, i, tuple(member_label(m) for m in members), type(d).__name__, cls))
                    ctx.hist("shape_decode_outcome", cls)
                    if cls != "agree":
                        ctx.fail(f"decode {site.type_expr} via {site.entry} <- {inx}: position {site.dec_ex[i]} ({holes[site.slots[i]]}) got {show(observed)}, "
                                 f"property says {show(expected)}", dict(base, extract=site.dec_ex[i], observed=show(observed), expected=show(expected)),
                                 {"kind": cls, "op": "decode"} if cls != "other" else {"kind": cls, "op": "decode", "shape": shape})
                    if observed[0] != "ok":
                        continue
                    if path == "union":
                        ucases.append(ucase_str(members, d, observed, expected, cls, accept))
                        uinfo.append((site.type_expr, site.entry, inx, site.dec_ex[i], show(observed), show(expected), cls))
                    else:
                        inner = [m for m in members if m is not NoneType][0]
                        ocases.append(f"OC {to_ouv(accept(inner, d))} {to_uv(d)} {to_ouv(observed)}")
                        oinfo.append((site.type_expr, site.entry, inx, site.dec_ex[i], show(observed)))
            else:
                vxs, vs, js = [], [], []
                ok = True
                for i in range(2):
                    tp, members, path = infos[i]
                    cands = []
                    for m in members:
                        cands += ENCODE_VALUES.get(expr_of.get(repr(m), ""), [])
                    if NoneType in members and (rng.random() < 0.45 or (systematic and rep_i == i)):
                        cands = ["None"]
                    if not cands:
                        ok = False
                        break
                    vx = rng.choice(cands)
                    v = eval(vx, mod.__dict__)
                    j = next((k for k, mm in enumerate(members) if conforms(mm, v)), None)
                    if j is None:
                        ok = False
                        break
                    vxs.append(vx); vs.append(v); js.append(j)
                if not ok:
                    continue
                menc = lambda m, v: mem.encode(m, v, mixin)
                exps = [("ok", None) if infos[i][1][js[i]] is NoneType else menc(infos[i][1][js[i]], vs[i]) for i in range(2)]
                if any(e[0] != "ok" for e in exps):
                    continue
                valx = site.fmt(site.val_tpl, vxs[0], vxs[1])
                whole = outcome(lambda: site.encode(eval(valx, mod.__dict__)))
                base = dict(site.replay_base(), op="encode", input=valx)
                if whole[0] == "raise":
                    ctx.count(("shape-enc", shape, "raise-unexpected"))
                    ctx.fail(f"encode {site.type_expr} via {site.entry} <- {valx}: raised {whole[1]}, property says "
                             f"[{', '.join(show(e) for e in exps)}]", dict(base, extract=None, observed=show(whole), expected="ok"),
                             {"kind": "other", "op": "encode", "shape": shape})
                    continue
                for i in range(2):
                    tp, members, path = infos[i]
                    v, expected = vs[i], exps[i]
                    observed = outcome(lambda: eval(site.enc_ex[i], {"r": whole[1]}))
                    cls = classify_encode(site, members, js[i], v, observed, expected, menc) if path == "union" else ("agree" if same(observed, expected) else "other")
                    ctx.count(("shape-enc", shape, i, tuple(member_label(m) for m in members), type(v).__name__, cls))
                    ctx.hist("shape_encode_outcome", cls + ("/None" if v is None else ""))
                    if cls != "agree":
                        ctx.fail(f"encode {site.type_expr} via {site.entry} <- {valx}: position {site.enc_ex[i]} ({holes[site.slots[i]]}) got {show(observed)}, "
                                 f"member {member_label(members[js[i]])} gives {show(expected)}",
                                 dict(base, extract=site.enc_ex[i], observed=show(observed), expected=show(expected)),
                                 {"kind": cls, "op": "encode"} if cls != "other" else {"kind": cls, "op": "encode", "shape": shape})
                    if observed[0] != "ok":
                        continue
                    if path == "union":
                        c, disj = pcase_str(members, v, observed, expected, menc)
                        pcases.append(c)
                        pinfo.append((site.type_expr, site.entry, valx, site.enc_ex[i], show(observed), show(expected), cls, disj))
                    else:
                        inner = [m for m in members if m is not NoneType][0]
                        oecases.append(f"OC {to_ouv(menc(inner, v))} {to_uv(v)} {to_ouv(observed)}")
                        oeinfo.append((site.type_expr, site.entry, valx, site.enc_ex[i], show(observed)))
    corr(ctx, "shape-union-decode-model-vs-impl", ucases, uinfo, "ucase", ["ucase_ok", "ucase_ok_model", "ucase_ok_ref", "ucase_ok_cls"], stale_fun="ucase_stale")
    corr(ctx, "shape-optional-decode-model-vs-impl", ocases, oinfo, "ocase", ["ocase_ok"])
    corr(ctx, "shape-union-encode-model-vs-impl", pcases, pinfo, "pcase", ["pcase_ok", "pcase_ok_model", "pcase_ok_disj"], stale_fun="pcase_stale")
    corr(ctx, "shape-optional-encode-model-vs-impl", oecases, oeinfo, "ocase", ["ocase_ok"])


# ---------------------------------------------------------------------------
# TypeVar positions: constraints x default x bound x position wrapper x entry point
# ---------------------------------------------------------------------------
TV_WRAPPERS = {  # name: (type template, input template, decode extractor, value template, encode extractor)
    "bare": ("{T}", "{a}", "r", "{a}", "r"),
    "optional": ("Optional[{T}]", "{a}", "r", "{a}", "r"),
    "dictval": ("Dict[str, {T}]", "{{'k': {a}}}", "r['k']", "{{'k': {a}}}", "r['k']"),
    "list": ("List[{T}]", "[{a}]", "r[0]", "[{a}]", "r[0]"),
    "tuple": ("Tuple[{T}, int]", "[{a}, 1]", "r[0]", "({a}, 1)", "r[0]"),
}
TV_CONSTRAINT_SETS = [["int", "str"], ["str", "int"], ["int", "float"], ["float", "int"], ["int", "float", "List[int]"],
                      ["date", "str"], ["str", "date"], ["List[int]", "str"], ["bool", "int", "str"], ["DC1", "DC2"],
                      ["int", "Union[str, date]"], ["Decimal", "str"], ["Num", "int"], ["UUID", "date", "int"]]
TV_TARGETS = ["int", "str", "float", "date", "List[int]", "DC1", "bool", "Decimal"]


class TVSite:
    def __init__(self, mod, constraints, default, bound, wrapper, entry):
        ns = mod.__dict__
        n = _MOD_COUNTER[0] = _MOD_COUNTER[0] + 1
        self.mod, self.n, self.wrapper, self.entry = mod, n, wrapper, entry
        for _f in getattr(typing, "_cleanups", []):
            _f()
        kw = ([f"default={default}"] if default else []) + ([f"bound={bound}"] if bound else [])
        self.tvdef = f"XTypeVar('TV{n}', {', '.join(constraints + kw)})"
        ttpl, self.in_tpl, self.dec_ex, self.val_tpl, self.enc_ex = TV_WRAPPERS[wrapper]
        self.type_expr = ttpl.format(T=f"TV{n}")
        self.snippet = f"TV{n} = {self.tvdef}\n"
        if entry == "field":
            self.snippet += f"@dataclass\nclass HV{n}(Generic[TV{n}], DataClassDictMixin):\n    x: {self.type_expr}\n"
        xexec(self.snippet, ns)
        self.tv = ns[f"TV{n}"]
        self.tp = eval(self.type_expr, ns)
        self.holder = f"HV{n}" if entry == "field" else ""
        self.constraints = list(self.tv.__constraints__)
        self.target = eval(default or bound, ns) if (default or bound) else None
        self._dec = self._enc = None
        self.descr = f"{self.type_expr} with TV{n} = TypeVar({', '.join(constraints + kw)})"

    def decode(self, x):
        ns = self.mod.__dict__
        if self.entry == "field":
            return ns[self.holder].from_dict({"x": x}).x
        if self._dec is None:
            self._dec = ns["BasicDecoder"](self.tp)
        return self._dec.decode(x)

    def encode(self, v):
        ns = self.mod.__dict__
        if self.entry == "field":
            return ns[self.holder](x=v).to_dict()["x"]
        if self._enc is None:
            self._enc = ns["BasicEncoder"](self.tp)
        return self._enc.encode(v)

    def replay_base(self):
        return {"src": SCHEMA_SRC + self.snippet, "entry": "shape-" + self.entry, "type_expr": self.type_expr, "holder": self.holder}


def typevar_part(ctx: vlib.Ctx, mod, mem: Members):
    rng = ctx.rng
    tvcases, tvinfo = [], []
    expr_of = {repr(eval(e, mod.__dict__)): e for e in SCALAR_EXPRS + NONSCALAR_EXPRS}
    combos = []
    for cs in TV_CONSTRAINT_SETS:
        # constrained: no default / default = each constraint in turn (a default outside the constraints is rejected by typing)
        for dflt in [None] + cs:
            combos.append((cs, dflt, None))
    for t in TV_TARGETS:
        combos.append(([], t, None))          # default only
        combos.append(([], None, t))          # bound only
    for t, b in [("int", "float"), ("str", "int"), ("date", "str")]:
        combos.append(([], t, b))             # default and bound: the default decides
    rng.shuffle(combos)
    combos = combos[:ctx.budget(60, len(combos))]
    wnames = list(TV_WRAPPERS)
    for ci, (cs, dflt, bound) in enumerate(combos):
        for wrapper in ([wnames[ci % len(wnames)], "bare"] if ctx.quick() else wnames):
            entry = "codec" if (ci + len(wrapper)) % 2 else "field"
            try:
                site = TVSite(mod, cs, dflt, bound, wrapper, entry)
                site.decode  # noqa
            except Exception as e:
                ctx.notes.append(f"typevar site not built: {cs} default={dflt} bound={bound} {wrapper}/{entry}: {type(e).__name__}: {e}"[:200])
                continue
            constrained = bool(site.constraints)
            members = site.constraints if constrained else [site.target, NoneType]
            mixin = entry == "field"
            ctx.hist("typevar_kind", ("constrained" if constrained else "unconstrained") + ("+default" if dflt else "") + ("+bound" if bound else "") + "/" + wrapper + "/" + entry)
            # ---- decode
            for dx in rng.sample(ORDER_SENSITIVE, 5) + rng.sample(DECODE_INPUTS, ctx.budget(3, 8)):
                d = eval(dx, mod.__dict__)
                accept = lambda m, d=d: mem.accept(m, d)
                inx = site.in_tpl.format(a=dx)
                whole = outcome(site.decode, eval(inx, mod.__dict__))
                if d is None and (wrapper == "optional" or not constrained):
                    expected = ("ok", None)     # an unconstrained TypeVar acts as Optional[default or bound] (58abead, fc913d1)
                elif constrained:
                    expected = ref_union_decode(members, d, accept)
                else:
                    expected = accept(site.target, d)
                observed = whole if whole[0] == "raise" else outcome(lambda: eval(site.dec_ex, {"r": whole[1]}))
                cls = classify_decode(members, d, observed, expected, accept) if (constrained and d is not None) else ("agree" if same(observed, expected) else "other")
                ctx.count(("tv", tuple(cs), dflt, bound, wrapper, type(d).__name__, cls))
                ctx.hist("typevar_decode_outcome", cls + "/" + observed[0])
                if cls != "agree":
                    ctx.fail(f"decode {site.descr} via {entry} <- {inx}: got {show(observed)}, property says {show(expected)}",
                             dict(site.replay_base(), op="decode", input=inx, extract=site.dec_ex, observed=show(observed), expected=show(expected)),
                             {"kind": cls, "op": "decode"} if cls != "other" else {"kind": cls, "op": "decode", "typevar": True})
                if wrapper == "optional" and d is None:
                    continue
                cms = []
                for i, m in enumerate(site.constraints):
                    if m in SCALARS:
                        cms.append(f"CS {KIND[m]} {to_ouv(accept(m, d))}")
                    else:
                        cms.append(f"CN {i} {to_ouv(accept(m, d))}")
                fb = accept(site.target, d) if site.target is not None else ("raise", "x")
                tvcases.append(f"TVC [{'; '.join(cms)}] {to_ouv(fb)} {to_uv(d)} {to_ouv(observed)}")
                tvinfo.append((site.descr, entry, inx, show(observed), show(expected), cls))
            # ---- encode
            menc = lambda m, v: mem.encode(m, v, mixin)
            vals = []
            for m in (site.constraints if constrained else [site.target]):
                vals += ENCODE_VALUES.get(expr_of.get(repr(m), ""), [])
            picks = rng.sample(vals, min(len(vals), 3)) + ([] if constrained else ["None"])
            for vx in picks:
                v = eval(vx, mod.__dict__)
                j = next((k for k, mm in enumerate(members) if conforms(mm, v)), None)
                if j is None:
                    continue
                expected = menc(members[j], v)
                if expected[0] != "ok":
                    continue
                valx = site.val_tpl.format(a=vx)
                whole = outcome(lambda: site.encode(eval(valx, mod.__dict__)))
                observed = whole if whole[0] == "raise" else outcome(lambda: eval(site.enc_ex, {"r": whole[1]}))
                cls = classify_encode(site, members, j, v, observed, expected, menc) if constrained else ("agree" if same(observed, expected) else "other")
                ctx.count(("tv-enc", tuple(cs), dflt, bound, wrapper, type(v).__name__, cls))
                ctx.hist("typevar_encode_outcome", cls + "/" + observed[0])
                if cls != "agree":
                    ctx.fail(f"encode {site.descr} via {entry} <- {valx}: got {show(observed)}, member {member_label(members[j])} gives {show(expected)}",
                             dict(site.replay_base(), op="encode", input=valx, extract=site.enc_ex, observed=show(observed), expected=show(expected)),
                             {"kind": cls, "op": "encode"} if cls != "other" else {"kind": cls, "op": "encode", "typevar": True})
    corr(ctx, "typevar-decode-model-vs-impl", tvcases, tvinfo, "tvcase", ["tvcase_ok"])


# ---------------------------------------------------------------------------
# union / optional positions at any depth (UnionDeep.v)
# ---------------------------------------------------------------------------
DEEP_LEAVES = ["date", "datetime", "UUID", "Decimal", "DC1", "DC2", "Color", "Num", "Kind", "Weird", "bytes"]
DEEP_SCALARS = ["int", "float", "bool", "str"]
DEEP_ATOM_INPUTS = {
    "int": [0, 1, -3, 10 ** 12], "float": [0.5, 2.0, -1.25], "bool": [True, False], "str": ["", "a", "12", "2020-01-01", "x y"],
    "date": ["2020-01-01", "2021-12-31"], "datetime": ["2020-01-01T10:20:30"], "UUID": ["12345678-1234-5678-1234-567812345678"],
    "Decimal": ["1.5", "7"], "DC1": [{"x": 1}, {"x": "2"}], "DC2": [{"y": "s"}, {"y": "t", "z": 3}], "Color": ["r", "g"],
    "Num": [1, 2], "Kind": ["ka"], "Weird": [{"weird": 3}], "bytes": ["eA==\n"],
}
DEEP_GARBAGE = [None, True, 0, 1, 1.5, "", "1", "12", "ab", "2020-01-01", [], [1], ["1", "a"], [None], {}, {"x": 1}, {"k": [1]},
                {"a": None}, (1, "a"), [[1], [2]], {"k": "2020-01-01"}, ["2020-01-01", 3], [1.0, True], {"p": {"x": 1}}, b"1"]


def gen_deep_type(rng, depth: int) -> str:
    if depth == 0 or rng.random() < 0.15:
        return rng.choice(DEEP_SCALARS + DEEP_LEAVES)
    r = rng.random()
    sub = lambda: gen_deep_type(rng, depth - 1)
    if r < 0.38:
        ms = [sub() for _ in range(rng.choice([2, 2, 3, 3, 4]))]
        if rng.random() < 0.3:
            ms.insert(rng.randrange(len(ms) + 1), "None")
        return f"Union[{', '.join(ms)}]"
    if r < 0.50:
        return f"Optional[{sub()}]"
    if r < 0.64:
        return f"List[{sub()}]"
    if r < 0.74:
        return f"Tuple[{sub()}, ...]"
    if r < 0.88:
        return f"Tuple[{', '.join(sub() for _ in range(rng.choice([1, 2, 2, 3])))}]"
    return f"Dict[str, {sub()}]"


def deep_kind(tp):
    """('scalar', k) | ('opt', t) | ('union', [ts]) | ('list', t) | ('tupv', t) | ('tupf', [ts]) | ('dict', t) | ('leaf', tp)"""
    if tp is None or tp in SCALARS:
        return ("scalar", NoneType if tp is None else tp)
    org, args = typing.get_origin(tp), typing.get_args(tp)
    if org is typing.Union:
        if len(args) == 2 and NoneType in args:
            return ("opt", [a for a in args if a is not NoneType][0])
        return ("union", list(args))
    if org is list:
        return ("list", args[0])
    if org is tuple:
        if len(args) == 2 and args[1] is Ellipsis:
            return ("tupv", args[0])
        return ("tupf", list(args))
    if org is dict:
        return ("dict", args[1])
    return ("leaf", tp)


def has_union(tp) -> bool:
    k, a = deep_kind(tp)
    if k in ("union", "opt"):
        return True
    if k in ("list", "tupv", "dict"):
        return has_union(a)
    if k == "tupf":
        return any(has_union(x) for x in a)
    return False


def gen_deep_input(rng, tp, depth=0):
    """mostly what the type expects on the wire, with noise"""
    if rng.random() < 0.12:
        return rng.choice(DEEP_GARBAGE)
    k, a = deep_kind(tp)
    if k == "scalar":
        if a is NoneType:
            return None
        return rng.choice(DEEP_ATOM_INPUTS[a.__name__] + DEEP_ATOM_INPUTS[rng.choice(DEEP_SCALARS)])
    if k == "leaf":
        return rng.choice(DEEP_ATOM_INPUTS.get(getattr(tp, "__name__", ""), ["?"]))
    if k == "opt":
        return None if rng.random() < 0.3 else gen_deep_input(rng, a, depth)
    if k == "union":
        return gen_deep_input(rng, rng.choice(a), depth)
    if k in ("list", "tupv"):
        return [gen_deep_input(rng, a, depth + 1) for _ in range(rng.choice([0, 1, 2, 2, 3]))]
    if k == "tupf":
        xs = [gen_deep_input(rng, x, depth + 1) for x in a]
        if rng.random() < 0.1:
            xs = xs[:-1]
        return xs
    return {key: gen_deep_input(rng, a, depth + 1) for key in rng.sample(["k", "p", "q", "1"], rng.choice([0, 1, 2]))}


def subvalues(d, acc=None):
    """everything the container expressions can hand to an item unpacker"""
    acc = [] if acc is None else acc
    if any(canon(d) == canon(x) for x in acc):
        return acc
    acc.append(d)
    if isinstance(d, (list, tuple)):
        for x in d:
            subvalues(x, acc)
    elif isinstance(d, dict):
        for k2, x in d.items():
            subvalues(k2, acc)
            subvalues(x, acc)
    elif type(d) is str and len(d) > 1:
        for ch in d:
            subvalues(ch, acc)
    return acc


def ascii_only(d) -> bool:
    return all((type(x) is not str) or x.isascii() for x in subvalues(d)) and all(type(x) is not bytes for x in subvalues(d))


def ref_deep(tp, d, mem: Members):
    """REFERENCE for a whole type: the documented container plumbing with the property's union rule at every union"""
    k, a = deep_kind(tp)
    if k in ("scalar", "leaf"):
        r = mem.accept(NoneType if tp is None else tp, d)
        if r[0] != "ok":
            raise ValueError(d)
        return r[1]
    if k == "opt":
        return None if d is None else ref_deep(a, d, mem)
    if k == "union":
        r = ref_union_decode(a, d, lambda m, x: outcome(ref_deep, m, x, mem))
        if r[0] != "ok":
            raise ValueError(d)
        return r[1]
    if k == "list":
        return [ref_deep(a, x, mem) for x in d]
    if k == "tupv":
        return tuple([ref_deep(a, x, mem) for x in d])
    if k == "tupf":
        return tuple([ref_deep(t, d[i], mem) for i, t in enumerate(a)])
    return {str(key): ref_deep(a, x, mem) for key, x in d.items()}


def visit_unions(tp, d):
    """(union type, members, value) for every union position reached while decoding d"""
    k, a = deep_kind(tp)
    if k == "opt":
        if d is not None:
            yield from visit_unions(a, d)
    elif k == "union":
        yield (tp, a, d)
        for m in a:
            if m not in SCALARS:
                yield from visit_unions(m, d)
    elif k in ("list", "tupv"):
        try:
            items = list(d)
        except TypeError:
            return
        for x in items:
            yield from visit_unions(a, x)
    elif k == "tupf":
        for i, t in enumerate(a):
            try:
                x = d[i]
            except Exception:
                return
            yield from visit_unions(t, x)
    elif k == "dict":
        if isinstance(d, dict):
            for x in d.values():
                yield from visit_unions(a, x)


def coq_cty(tp, subs, mem: Members, kinds: set) -> str:
    k, a = deep_kind(tp)
    if k == "scalar":
        kinds.add(a)
        return f"(YS {KIND[a]})"
    if k == "leaf":
        rows = "; ".join(f"({to_uv(x)}, {to_ouv(mem.accept(tp, x))})" for x in subs)
        return f"(YLeaf (tb [{rows}]))"
    if k == "opt":
        return f"(YOpt {coq_cty(a, subs, mem, kinds)})"
    if k == "union":
        return "(YU [" + "; ".join(f"({i}%nat, {coq_cty(m, subs, mem, kinds)})" for i, m in enumerate(a)) + "])"
    if k == "list":
        return f"(YList {coq_cty(a, subs, mem, kinds)})"
    if k == "tupv":
        return f"(YTupV {coq_cty(a, subs, mem, kinds)})"
    if k == "tupf":
        return "(YTupF [" + "; ".join(coq_cty(t, subs, mem, kinds) for t in a) + "])"
    kinds.add(str)
    return f"(YDict {coq_cty(a, subs, mem, kinds)})"


KF_KINDS = ("union-none-fallback", "union-scalar-shadowed")


def deep_part(ctx: vlib.Ctx, mod, mem: Members):
    rng = ctx.rng
    dcases, dinfo = [], []
    curated = ["List[Union[int, date]]", "Dict[str, Optional[Union[int, date]]]", "Tuple[Union[int, str], ...]", "Union[List[Union[int, date]], str]",
               "List[Union[date, str]]", "Tuple[Union[int, float], Union[float, int]]", "Dict[str, Tuple[Optional[date], Union[str, int, None]]]",
               "Union[Dict[str, int], List[Optional[int]], str]", "List[Optional[Union[DC1, List[int]]]]", "Optional[List[Union[Weird, str]]]",
               "Tuple[List[Union[float, int]], List[Union[int, float]]]", "Union[Tuple[int, str], Tuple[str, ...], None]"]
    specs = list(curated)
    for _ in range(ctx.budget(170, 1400)):
        for _try in range(8):
            e = gen_deep_type(rng, rng.choice([2, 2, 3]))
            for _f in getattr(typing, "_cleanups", []):
                _f()
            try:
                if has_union(eval(e, mod.__dict__)) and len(e) < 160:
                    specs.append(e)
                    break
            except Exception:
                continue
    for ti, expr in enumerate(specs):
        entry = ("codec", "field", "optfield")[ti % 3]
        try:
            site = (Site(mod, expr, "field" if entry == "optfield" else entry) if deep_kind(eval(expr, mod.__dict__))[0] in ("union", "opt")
                    else DeepSite(mod, expr, entry))
        except Exception as e:
            ctx.notes.append(f"deep schema not built: {expr}: {type(e).__name__}: {e}"[:200])
            continue
        tp = site.tp
        ctx.hist("deep_root", deep_kind(tp)[0] + "/" + entry)
        for _ in range(ctx.budget(5, 7)):
            d = gen_deep_input(rng, tp)
            if not ascii_only(d):
                continue
            dx = repr(d)
            observed = outcome(site.decode, d)
            expected = outcome(ref_deep, tp, d, mem)
            if same(observed, expected):
                cls = "agree"
            else:
                node_cls = []
                for utp, members, dd in visit_unions(tp, d):
                    racc = lambda m, x=dd: mem.accept(m, x)
                    node_cls.append(classify_decode(members, dd, mem.accept(utp, dd), ref_union_decode(members, dd, racc), racc))
                bad = [c for c in node_cls if c != "agree"]
                cls = bad[0] if bad and all(c in KF_KINDS for c in bad) else "other"
            ctx.count(("deep", expr, type(d).__name__, cls, observed[0]))
            ctx.hist("deep_outcome", cls + "/" + observed[0])
            if cls != "agree":
                ctx.fail(f"decode {expr} via {entry} <- {dx}: got {show(observed)}, property says {show(expected)}",
                         dict(site.replay_base(), op="decode", input=dx, observed=show(observed), expected=show(expected)),
                         {"kind": cls, "op": "decode"} if cls != "other" else {"kind": cls, "op": "decode", "deep": True})
            subs = subvalues(d)
            kinds: set = set()
            cty = coq_cty(tp, subs, mem, kinds)
            cot = "; ".join(f"({KIND[k]}, [" + "; ".join(f"({to_uv(x)}, {to_ouv(mem.accept(k, x))})" for x in subs) + "])"
                            for k in sorted(kinds, key=lambda z: KIND[z]) if k is not NoneType)
            dcases.append(f"DCA {cty} [{cot}] {to_uv(d)} {to_ouv(observed)} {to_ouv(expected)}")
            dinfo.append((expr, entry, dx, show(observed), show(expected), cls))
    corr(ctx, "deep-decode-model-vs-impl", dcases, dinfo, "dcase", ["dcase_ok", "dcase_ok_model", "dcase_ok_ref", "dcase_thm"],
         stale_fun="dcase_stale", imports="UnionModel UnionDeep", shard=150)


class DeepSite(Site):
    """a type whose root is a container (the union positions are below it)"""

    def __init__(self, mod, expr: str, entry: str):
        self.mod, self.expr, self.entry = mod, expr, entry
        ns = mod.__dict__
        n = _MOD_COUNTER[0] = _MOD_COUNTER[0] + 1
        for _f in getattr(typing, "_cleanups", []):
            _f()
        if entry == "optfield":   # the enclosing field is nullable: the type under test is Optional[expr]
            self.expr = expr = f"Optional[{expr}]"
        self.tp = eval(expr, ns)
        self.members, self.path, self.snippet = (), "deep", ""
        if entry in ("field", "optfield"):
            ann = expr
            self.snippet = f"@dataclass\nclass H{n}(DataClassDictMixin):\n    x: {ann}\n"
            xexec(self.snippet, ns)
            self.holder = ns[f"H{n}"]
            self.entry = "field"
        self.hname = f"H{n}"
        self._dec = self._enc = None


# ---------------------------------------------------------------------------
# serialization at any depth (UnionDeepEnc.v)
# ---------------------------------------------------------------------------
def ident_packer(tp) -> bool:
    """the packer expression of tp is "value" """
    k, a = deep_kind(tp)
    if k == "scalar":
        return True
    if k == "opt":
        return ident_packer(a)
    if k == "union":
        return all(ident_packer(m) for m in a)
    return False


def structural(tp) -> bool:
    """a container emitted as comprehension / indexing because an item packer is not the identity"""
    k, a = deep_kind(tp)
    if k in ("list", "tupv", "dict"):
        return not ident_packer(a) and has_union(a)
    if k == "tupf":
        return any(has_union(x) for x in a) and any(not ident_packer(x) for x in a)
    return False


def gen_deep_value(rng, tp) -> str:
    k, a = deep_kind(tp)
    if k == "scalar":
        return "None" if a is NoneType else rng.choice(ENCODE_VALUES[a.__name__])
    if k == "leaf":
        return rng.choice(ENCODE_VALUES[tp.__name__])
    if k == "opt":
        return "None" if rng.random() < 0.3 else gen_deep_value(rng, a)
    if k == "union":
        return gen_deep_value(rng, rng.choice(a))
    if k == "list":
        return "[" + ", ".join(gen_deep_value(rng, a) for _ in range(rng.choice([0, 1, 2, 3]))) + "]"
    if k == "tupv":
        return "(" + "".join(gen_deep_value(rng, a) + ", " for _ in range(rng.choice([0, 1, 2]))) + ")"
    if k == "tupf":
        return "(" + "".join(gen_deep_value(rng, x) + ", " for x in a) + ")"
    return "{" + ", ".join(f"{key!r}: {gen_deep_value(rng, a)}" for key in rng.sample(["k", "p", "q"], rng.choice([0, 1, 2]))) + "}"


def ref_enc_deep(tp, v, mem: Members):
    """REFERENCE: the member a value belongs to (first conforming, declaration order) packs it"""
    k, a = deep_kind(tp)
    if k in ("scalar", "leaf") or not (k in ("union", "opt") or structural(tp)):
        r = mem.encode(NoneType if tp is None else tp, v, False)
        if r[0] != "ok":
            raise ValueError(v)
        return r[1]
    if k == "opt":
        return None if v is None else ref_enc_deep(a, v, mem)
    if k == "union":
        m = next((m for m in a if conforms(m, v)), None)
        if m is None:
            raise ValueError(v)
        return None if m is NoneType else ref_enc_deep(m, v, mem)
    if k in ("list", "tupv"):
        return [ref_enc_deep(a, x, mem) for x in v]
    if k == "tupf":
        return [ref_enc_deep(t, v[i], mem) for i, t in enumerate(a)]
    return {key: ref_enc_deep(a, x, mem) for key, x in v.items()}


def visit_unions_enc(tp, v):
    k, a = deep_kind(tp)
    if k == "opt":
        if v is not None:
            yield from visit_unions_enc(a, v)
    elif k == "union":
        yield (tp, a, v)
        m = next((m for m in a if conforms(m, v)), None)
        if m is not None and m not in SCALARS:
            yield from visit_unions_enc(m, v)
    elif k in ("list", "tupv") and isinstance(v, (list, tuple)):
        for x in v:
            yield from visit_unions_enc(a, x)
    elif k == "tupf" and isinstance(v, tuple) and len(v) == len(a):
        for t, x in zip(a, v):
            yield from visit_unions_enc(t, x)
    elif k == "dict" and isinstance(v, dict):
        for x in v.values():
            yield from visit_unions_enc(a, x)


def coq_pty(tp, subs, mem: Members) -> str:
    k, a = deep_kind(tp)
    if k == "opt":
        return f"(QOpt {coq_pty(a, subs, mem)})"
    if k == "union":
        return "(QU [" + "; ".join(f"({i + 1}%nat, {coq_pty(m, subs, mem)})" for i, m in enumerate(a)) + "])"
    if structural(tp):
        if k == "list":
            return f"(QList {coq_pty(a, subs, mem)})"
        if k == "tupv":
            return f"(QTupV {coq_pty(a, subs, mem)})"
        if k == "tupf":
            return "(QTupF [" + "; ".join(coq_pty(t, subs, mem) for t in a) + "])"
        return f"(QDict {coq_pty(a, subs, mem)})"
    t2 = NoneType if tp is None else tp
    cname = "NoneType" if t2 is NoneType else getattr(typing.get_origin(t2) or t2, "__name__", "x")
    rows = "; ".join(f"({to_uv(x)}, {to_ouv(mem.encode(t2, x, False))})" for x in subs)
    return f"(QLeaf {coq_str(cname)} {'true' if t2 in SCALARS else 'false'} (tb [{rows}]))"


def coq_rty(tp, subs, mem: Members) -> str:
    """coq_pty with the typing membership of every leaf (UnionMember.rty)"""
    k, a = deep_kind(tp)
    if k == "opt":
        return f"(ROpt {coq_rty(a, subs, mem)})"
    if k == "union":
        return "(RU [" + "; ".join(f"({i + 1}%nat, {coq_rty(m, subs, mem)})" for i, m in enumerate(a)) + "])"
    if structural(tp):
        if k == "list":
            return f"(RList {coq_rty(a, subs, mem)})"
        if k == "tupv":
            return f"(RTupV {coq_rty(a, subs, mem)})"
        if k == "tupf":
            return "(RTupF [" + "; ".join(coq_rty(t, subs, mem) for t in a) + "])"
        return f"(RDict {coq_rty(a, subs, mem)})"
    t2 = NoneType if tp is None else tp
    cname = "NoneType" if t2 is NoneType else getattr(typing.get_origin(t2) or t2, "__name__", "x")
    rows = "; ".join(f"({to_uv(x)}, {to_ouv(mem.encode(t2, x, False))})" for x in subs)
    crows = "; ".join(f"({to_uv(x)}, {'true' if conforms(t2, x) else 'false'})" for x in subs)
    return f"(RLeaf {coq_str(cname)} {'true' if t2 in SCALARS else 'false'} (tb [{rows}]) (tbb [{crows}]))"


def deep_enc_part(ctx: vlib.Ctx, mod, mem: Members):
    rng = ctx.rng
    qcases, qinfo = [], []
    rcases, rinfo, pool = [], [], []
    curated = ["List[Union[int, date]]", "Dict[str, Optional[Union[int, date]]]", "Tuple[Union[date, str], ...]",
               "Union[List[Union[int, date]], str]", "Dict[str, Union[List[int], List[date]]]", "List[Union[Decimal, int]]",
               "Tuple[Optional[date], Union[str, UUID, None]]", "Union[Dict[str, Union[date, int]], List[Optional[date]], str]",
               "List[Optional[Union[DC1, List[int]]]]", "Optional[List[Union[Weird, str]]]", "List[Union[UUID, datetime]]",
               "Dict[str, Tuple[Union[Num, int], Union[int, Num]]]"]
    specs = list(curated)
    for _ in range(ctx.budget(150, 1200)):
        for _try in range(8):
            e = gen_deep_type(rng, rng.choice([2, 2, 3]))
            for _f in getattr(typing, "_cleanups", []):
                _f()
            try:
                if has_union(eval(e, mod.__dict__)) and len(e) < 160:
                    specs.append(e)
                    break
            except Exception:
                continue
    for ti, expr in enumerate(specs):
        try:
            site = Site(mod, expr, "codec") if deep_kind(eval(expr, mod.__dict__))[0] in ("union", "opt") else DeepSite(mod, expr, "codec")
        except Exception as e:
            ctx.notes.append(f"deep schema not built: {expr}: {type(e).__name__}: {e}"[:200])
            continue
        tp = site.tp
        for _ in range(ctx.budget(4, 6)):
            vx = gen_deep_value(rng, tp)
            try:
                v = eval(vx, mod.__dict__)
            except Exception:
                continue
            # membership (UnionMember.rconf) against conforms() on a value made for ANOTHER type as well
            if pool and rng.random() < 0.5:
                ox, ov = rng.choice(pool)
                osubs = subvalues(ov)
                if ascii_only_str(osubs) and len(rcases) < ctx.budget(900, 2500):
                    oc = conforms(tp, ov)
                    oexp = outcome(ref_enc_deep, tp, ov, mem) if oc else ("raise", "", False)
                    oobs = outcome(site.encode, ov) if oc else ("raise", "", False)
                    rcases.append(f"RCA {coq_rty(tp, osubs, mem)} {to_uv(ov)} {'true' if oc else 'false'} {to_ouv(oobs)} {to_ouv(oexp)}")
                    rinfo.append((expr, ox, "foreign value", f"conforms={conforms(tp, ov)}"))
                    ctx.hist("member_value", "foreign/" + ("member" if conforms(tp, ov) else "not-a-member"))
            if len(pool) < 400:
                pool.append((vx, v))
            if not conforms(tp, v):
                continue
            expected = outcome(ref_enc_deep, tp, v, mem)
            if expected[0] != "ok":
                continue
            observed = outcome(site.encode, v)
            if same(observed, expected):
                cls = "agree"
            else:
                node_cls = []
                for utp, members, vv in visit_unions_enc(tp, v):
                    j = next((k for k, mm in enumerate(members) if conforms(mm, vv)), None)
                    if j is None:
                        node_cls.append("other")
                        continue
                    menc = lambda m, x: mem.encode(m, x, False)
                    exp_n = ("ok", None) if members[j] is NoneType else menc(members[j], vv)
                    node_cls.append(classify_encode(site, members, j, vv, mem.encode(utp, vv, False), exp_n, menc))
                bad = [c for c in node_cls if c != "agree"]
                cls = bad[0] if bad and all(c == "union-encode-untyped-try" for c in bad) else "other"
            ctx.count(("deep-enc", expr, cls, observed[0]))
            ctx.hist("deep_encode_outcome", cls + "/" + observed[0])
            if cls != "agree":
                ctx.fail(f"encode {expr} via codec <- {vx}: got {show(observed)}, property says {show(expected)}",
                         dict(site.replay_base(), op="encode", input=vx, observed=show(observed), expected=show(expected)),
                         {"kind": cls, "op": "encode"} if cls != "other" else {"kind": cls, "op": "encode", "deep": True})
            subs = subvalues(v)
            if not ascii_only_str(subs):
                continue
            qcases.append(f"QCA {coq_pty(tp, subs, mem)} {to_uv(v)} {to_ouv(observed)} {to_ouv(expected)}")
            qinfo.append((expr, vx, show(observed), show(expected), cls))
            rcases.append(f"RCA {coq_rty(tp, subs, mem)} {to_uv(v)} true {to_ouv(observed)} {to_ouv(expected)}")
            rinfo.append((expr, vx, show(observed), show(expected), cls))
            ctx.hist("member_value", "own/" + cls)
    corr(ctx, "deep-encode-model-vs-impl", qcases, qinfo, "qcase", ["qcase_ok", "qcase_ok_model", "qcase_ok_ref", "qcase_thm"],
         stale_fun="qcase_stale", imports="UnionModel UnionDeep UnionDeepEnc", shard=150, needs=("theories/UnionDeepEnc.vo",))
    # typing membership and the membership reference inside the model: rconf = conforms(), rmem = the Python reference
    # (first conforming member), and the theorem's conclusion evaluated on every case of its domain
    rcap = ctx.budget(2400, 4500)      # the leaf tables make these cases large: keep the thorough tier within its time
    if len(rcases) > rcap:
        keep = sorted(rng.sample(range(len(rcases)), rcap))
        rcases, rinfo = [rcases[i] for i in keep], [rinfo[i] for i in keep]
    corr(ctx, "member-value-model-vs-oracle", rcases, rinfo, "rcase", ["rcase_ok", "rcase_conf", "rcase_ref", "rcase_thm"],
         imports="UnionModel UnionDeep UnionDeepEnc UnionMember", shard=150, needs=("theories/UnionMember.vo",))


def ascii_only_str(subs) -> bool:
    """values the structural model can represent: ASCII text, and no instance of a str/list/tuple/dict SUBCLASS
    (a str-mixin enum member is iterable like a str, bytes iterate as ints: the (class, repr) encoding of objects does not show that)"""
    return (all((type(x) is not str) or x.isascii() for x in subs)
            and all(not isinstance(x, (bytes, bytearray)) for x in subs)     # iterable, but an opaque object in the model
            and all(type(x) in (str, list, tuple, dict) or not isinstance(x, (str, list, tuple, dict)) for x in subs))


# ---------------------------------------------------------------------------
# recursive PEP 695 aliases: `type R = Union[leaf.., container[R]]` decodes / encodes like its finite unfolding
# ---------------------------------------------------------------------------
REC_CONTAINERS = ["List[{R}]", "List[{R}]", "Tuple[{R}, ...]", "Dict[str, {R}]", "Tuple[{R}, int]", "Tuple[str, {R}]"]
# (root form, Coq case possible): Optional[alias] is not flattened by typing while Optional[unfolding] is
REC_FORMS = [("{R}", True), ("{R}", True), ("List[{R}]", True), ("Dict[str, {R}]", True), ("Tuple[{R}, ...]", True), ("Optional[{R}]", False),
             ("Tuple[{U}, {R}]", True), ("Tuple[{R}, {U}]", True), ("Tuple[{R}, int]", True), ("Tuple[{R}, {S}]", True),
             ("Dict[str, Tuple[{R}, {R}]]", True), ("List[Tuple[{U}, {R}]]", True)]
REC_PLAIN_UNIONS = ["Union[int, str]", "Union[date, int]", "Union[int, float, None]", "Union[str, UUID]"]
REC_KIND = "recursive-union-method-reuse"
REC_DEPTH = 4


class RecAlias:
    def __init__(self, rng, name: str):
        self.name = name
        leaves = rng.sample(DEEP_SCALARS + DEEP_LEAVES, rng.choice([1, 1, 2]))
        if rng.random() < 0.2:
            leaves.insert(rng.randrange(len(leaves) + 1), "None")
        self.leaves = leaves
        self.container = rng.choice(REC_CONTAINERS)
        ms = list(leaves)
        ms.insert(rng.randrange(len(ms) + 1), self.container)
        self.members = ms
        self.pep604 = rng.random() < 0.3 and "None" not in ms
        self.fixed_tuple = self.container.startswith("Tuple[") and "..." not in self.container

    def definition(self) -> str:
        ms = [m.format(R=self.name) for m in self.members]
        return f"type {self.name} = " + (" | ".join(ms) if self.pep604 else f"Union[{', '.join(ms)}]") + "\n"

    def unfold(self, k: int) -> str:
        if k == 0:
            return f"Union[{', '.join(self.leaves)}]"
        return "Union[" + ", ".join(m.format(R=self.unfold(k - 1)) for m in self.members) + "]"


def rec_part(ctx: vlib.Ctx, mod, mem: Members):
    """the recursion site of a recursive alias must call the method of ITS union with the argument of the call site:
    decode_R(d) == decode_{R unfolded REC_DEPTH times}(d) == REF, for inputs on which the unfolding depth does not matter"""
    rng = ctx.rng
    ns = mod.__dict__
    dcases, dinfo, qcases, qinfo = [], [], [], []

    def clean():
        for _f in getattr(typing, "_cleanups", []):
            _f()

    curated = 0
    for si in range(ctx.budget(60, 400)):
        n = _MOD_COUNTER[0] = _MOD_COUNTER[0] + 1
        r, s2 = RecAlias(rng, f"R{n}"), RecAlias(rng, f"S{n}")
        form, coq_ok = REC_FORMS[si % len(REC_FORMS)]
        u = rng.choice(REC_PLAIN_UNIONS)
        used_s = "{S}" in form
        defs = r.definition() + (s2.definition() if used_s else "")
        expr = form.format(R=r.name, S=s2.name, U=u)
        unf = lambda k: form.format(R=r.unfold(k), S=s2.unfold(k), U=u)
        # a fixed-size tuple around the alias (or as its recursive member) gives a call site whose argument is not `value`; the
        # forms with a second union in the same field are all fixed-size tuples
        trigger = ("Tuple[" in form and "..." not in form) or r.fixed_tuple or (used_s and s2.fixed_tuple)
        entry = ("field", "codec")[si % 2]
        try:
            xexec(defs, ns)
            clean()
            site = DeepSite(mod, expr, entry)
            site.snippet = defs + site.snippet
            clean()
            usite = DeepSite(mod, unf(REC_DEPTH), entry)
            clean()
            usite2 = DeepSite(mod, unf(REC_DEPTH + 1), entry)
            clean()
            gen_tp = eval(unf(2), ns)
        except Exception as e:
            ctx.notes.append(f"recursive schema not built: {defs.strip()} / {expr}: {type(e).__name__}: {e}"[:240])
            continue
        tp, tp2 = usite.tp, usite2.tp
        what = f"{expr} where {defs.strip().replace(chr(10), '; ')}"
        ctx.hist("rec_form", form + ("/trigger" if trigger else "/plain") + "/" + entry)
        for _ in range(ctx.budget(5, 7)):
            # ---- decode
            d = gen_deep_input(rng, gen_tp)
            if ascii_only(d):
                dx = repr(d)
                expected = outcome(ref_deep, tp, d, mem)
                uobs = outcome(usite.decode, d)
                if not same(expected, outcome(ref_deep, tp2, d, mem)) or not same(uobs, outcome(usite2.decode, d)):
                    ctx.hist("rec_outcome", "decode/depth-sensitive-skipped")
                else:
                    observed = outcome(site.decode, d)
                    if same(observed, expected):
                        cls = "agree"
                    elif same(observed, uobs):
                        node_cls = []
                        for utp, members, dd in visit_unions(tp, d):
                            racc = lambda m, x=dd: mem.accept(m, x)
                            node_cls.append(classify_decode(members, dd, mem.accept(utp, dd), ref_union_decode(members, dd, racc), racc))
                        bad = [c for c in node_cls if c != "agree"]
                        cls = bad[0] if bad and all(c in KF_KINDS for c in bad) else "other"
                    else:
                        cls = "other"   # recursive-union-method-reuse is repaired: checked at full strength
                    ctx.count(("rec", form, r.container, entry, type(d).__name__, cls, observed[0]))
                    ctx.hist("rec_outcome", "decode/" + cls + "/" + observed[0])
                    if cls != "agree":
                        ctx.fail(f"decode {what} via {entry} <- {dx}: got {show(observed)}, property (and the unfolded type) says {show(expected)}",
                                 dict(site.replay_base(), op="decode", input=dx, observed=show(observed), expected=show(expected)),
                                 {"kind": cls, "op": "decode"} if cls != "other" else {"kind": cls, "op": "decode", "rec": True})
                    if coq_ok and cls != REC_KIND:
                        subs = subvalues(d)
                        kinds: set = set()
                        cty = coq_cty(tp, subs, mem, kinds)
                        cot = "; ".join(f"({KIND[k]}, [" + "; ".join(f"({to_uv(x)}, {to_ouv(mem.accept(k, x))})" for x in subs) + "])"
                                        for k in sorted(kinds, key=lambda z: KIND[z]) if k is not NoneType)
                        dcases.append(f"DCA {cty} [{cot}] {to_uv(d)} {to_ouv(observed)} {to_ouv(expected)}")
                        dinfo.append((what, entry, dx, show(observed), show(expected), cls))
            # ---- encode
            vx = gen_deep_value(rng, gen_tp)
            try:
                v = eval(vx, ns)
            except Exception:
                continue
            if not conforms(tp, v):
                continue
            expected = outcome(ref_enc_deep, tp, v, mem)
            if expected[0] != "ok":
                continue
            uobs = outcome(usite.encode, v)
            if not same(uobs, outcome(usite2.encode, v)):
                # e.g. a str-mixin enum member captured by an earlier List[R] packer (finding union-encode-untyped-try): the
                # nesting of the result is the unfolding depth / the recursion limit
                ctx.hist("rec_outcome", "encode/depth-sensitive-skipped")
                continue
            observed = outcome(site.encode, v)
            if same(observed, expected):
                cls = "agree"
            elif same(observed, uobs):
                node_cls = []
                for utp, members, vv in visit_unions_enc(tp, v):
                    j = next((k for k, mm in enumerate(members) if conforms(mm, vv)), None)
                    if j is None:
                        node_cls.append("other")
                        continue
                    menc = lambda m, x: mem.encode(m, x, False)
                    exp_n = ("ok", None) if members[j] is NoneType else menc(members[j], vv)
                    node_cls.append(classify_encode(site, members, j, vv, mem.encode(utp, vv, False), exp_n, menc))
                bad = [c for c in node_cls if c != "agree"]
                cls = bad[0] if bad and all(c == "union-encode-untyped-try" for c in bad) else "other"
            else:
                cls = "other"   # recursive-union-method-reuse is repaired: checked at full strength
            ctx.count(("rec-enc", form, r.container, entry, cls, observed[0]))
            ctx.hist("rec_outcome", "encode/" + cls + "/" + observed[0])
            if cls != "agree":
                ctx.fail(f"encode {what} via {entry} <- {vx}: got {show(observed)}, property (and the unfolded type) says {show(expected)}",
                         dict(site.replay_base(), op="encode", input=vx, observed=show(observed), expected=show(expected)),
                         {"kind": cls, "op": "encode"} if cls != "other" else {"kind": cls, "op": "encode", "rec": True})
            subs = subvalues(v)
            if coq_ok and cls != REC_KIND and ascii_only_str(subs) and entry == "codec":
                qcases.append(f"QCA {coq_pty(tp, subs, mem)} {to_uv(v)} {to_ouv(observed)} {to_ouv(expected)}")
                qinfo.append((what, vx, show(observed), show(expected), cls))
    corr(ctx, "rec-decode-model-vs-impl", dcases, dinfo, "dcase", ["dcase_ok", "dcase_ok_model", "dcase_ok_ref", "dcase_thm"],
         stale_fun="dcase_stale", imports="UnionModel UnionDeep", shard=150)
    corr(ctx, "rec-encode-model-vs-impl", qcases, qinfo, "qcase", ["qcase_ok", "qcase_ok_model", "qcase_ok_ref", "qcase_thm"],
         stale_fun="qcase_stale", imports="UnionModel UnionDeep UnionDeepEnc", shard=150, needs=("theories/UnionDeepEnc.vo",))


# ---------------------------------------------------------------------------
# K19: the translated emission loop vs the method text the real generator produces
# ---------------------------------------------------------------------------
FB_TEXT = {"int(value)": "KInt", "float(value)": "KFloat", "bool(value)": "KBool", "str(value)": "KStr", "None": "KNone"}
TM_NAME = {"int": "KInt", "float": "KFloat", "bool": "KBool", "str": "KStr", "NoneType": "KNone"}


def capture_union_source(mod, tp):
    """source of the union method compiled last while BasicDecoder(tp) is built (the outermost union)"""
    import builtins
    import mashumaro.core.meta.types.common as _common
    got = []

    def rec(src, g=None, l=None):
        if "def __unpack_union_" in src or "def __unpack_type_var_" in src:
            got.append(src)
        return builtins.exec(src, g, l)
    old = _common.__dict__.get("exec")
    _common.exec = rec
    try:
        mod.__dict__["BasicDecoder"](tp)
    finally:
        if old is None:
            del _common.exec
        else:
            _common.exec = old
    return got[-1] if got else None


def parse_union_source(src: str):
    lines = [x.strip() for x in src.splitlines()[1:] if x.strip() and not x.strip().startswith("setattr(")]
    codes, i = [], 0
    while i < len(lines):
        ln = lines[i]
        m = re.match(r"if (__value_type|type\(value\)) is (\w+):$", ln)
        if ln == "__value_type = type(value)":
            codes.append("CVT"); i += 1
        elif m and i + 1 < len(lines) and lines[i + 1] == "return value" and m.group(2) in TM_NAME:
            codes.append(f"(CTM {'true' if m.group(1) == '__value_type' else 'false'} {TM_NAME[m.group(2)]})"); i += 2
        elif ln == "return value":
            codes.append("CRET"); i += 1
        elif ln == "try:" and i + 2 < len(lines) and lines[i + 1].startswith("return ") and lines[i + 2] == "except Exception: pass":
            e = lines[i + 1][len("return "):]
            codes.append(f"(CFB {FB_TEXT[e]})" if e in FB_TEXT else "CTRY"); i += 3
        elif ln.startswith("raise "):
            codes.append("CRAISE"); i += 1
        else:
            codes.append("CBAD"); i += 1
    return codes


def k19_part(ctx: vlib.Ctx, mod):
    """(T) validation of kernel K19: for real unions, the line shapes of the generated method must be what the
    translated loop (coq/gen/K19.v) emits for the same member list."""
    if not ctx.kernel_report.get("K19", {}).get("ok", False):
        ctx.not_shown("kernel K19", str(ctx.kernel_report.get("K19", {}).get("error")))
        return
    rng = ctx.rng
    exprs = [e for e in CURATED_UNIONS if not e.startswith("Optional[")]
    for _ in range(ctx.budget(120, 800)):
        e, ent = gen_union_expr(rng, encode=False)
        if ent != "typevar":
            exprs.append(e)
    cases, info, skipped = [], [], 0
    for expr in exprs:
        for _f in getattr(typing, "_cleanups", []):
            _f()
        tp = eval(expr, mod.__dict__)
        members = list(typing.get_args(tp))
        if typing.get_origin(tp) is not typing.Union or (len(members) == 2 and NoneType in members):
            continue
        src = capture_union_source(mod, tp)
        if src is None:
            ctx.not_shown("kernel K19 validation", f"no union method compiled for {expr}")
            continue
        codes = parse_union_source(src)
        nonscalar = [m for m in members if m not in SCALARS and m is not typing.Any]
        if codes.count("CTRY") != len(nonscalar):
            skipped += 1      # two members rendered to one expression: ids are not observable from outside
            continue
        lite = [f"LS {KIND[m]}" if m in SCALARS else f"LN {i} {'true' if m is typing.Any else 'false'}" for i, m in enumerate(members)]
        cases.append(f"([{'; '.join(lite)}], [{'; '.join(codes)}])")
        info.append((expr, " ".join(codes)))
        ctx.count(("k19", tuple(member_label(m) for m in members)))
    ctx.hist("k19_validation", "compared", len(cases))
    ctx.hist("k19_validation", "skipped-duplicate-expression", skipped)
    corr(ctx, "K19-translation-vs-generated-source", cases, info, "list mlite * list lcode", ["k19case_ok"],
         imports="UnionModel UnionEmit K19Cases", gen_imports="From VerifGen Require Import K19.", needs=("theories/K19Cases.vo",))


# ---------------------------------------------------------------------------
# K21: the translated loops of pack_union vs the method text the real generator produces
# ---------------------------------------------------------------------------
def capture_pack_union_source(mod, tp):
    import builtins
    import mashumaro.core.meta.types.pack as _pack
    got = []

    def rec(src, g=None, l=None):
        if "def __pack_union_" in src or "def __pack_type_var_" in src:
            got.append(src)
        return builtins.exec(src, g, l)
    old = _pack.__dict__.get("exec")
    _pack.exec = rec
    try:
        mod.__dict__["BasicEncoder"](tp)
    finally:
        if old is None:
            del _pack.exec
        else:
            _pack.exec = old
    return got[-1] if got else None


def parse_pack_source(src: str):
    lines = [x.strip() for x in src.splitlines()[1:] if x.strip() and not x.strip().startswith("setattr(")]
    codes, i = [], 0
    while i < len(lines):
        ln = lines[i]
        m1 = re.match(r"if value\.__class__ is (\w+):$", ln)
        m2 = re.match(r"if value\.__class__ in \(([\w, ]+)\):$", ln)
        if (m1 or m2) and i + 1 < len(lines) and lines[i + 1] == "return value":
            names = [m1.group(1)] if m1 else [x.strip() for x in m2.group(1).split(",")]
            codes.append(f"(QIdent [{'; '.join(coq_str(n) for n in names)}] {'true' if m2 else 'false'})"); i += 2
        elif ln == "try:" and i + 3 < len(lines) and lines[i + 1].startswith("return ") and lines[i + 2] == "except Exception:" and lines[i + 3] == "pass":
            codes.append("QTry"); i += 4
        elif ln.startswith("raise "):
            codes.append("QRaise"); i += 1
        else:
            return None
    return codes


def k21_part(ctx: vlib.Ctx, mod):
    """(T) validation of kernel K21: line shapes (and the class names of the identity block) of the generated
    pack method = what the translated loops (coq/gen/K21.v) emit for the same member list."""
    if not ctx.kernel_report.get("K21", {}).get("ok", False):
        ctx.not_shown("kernel K21", str(ctx.kernel_report.get("K21", {}).get("error")))
        return
    rng = ctx.rng
    exprs = [e for e in CURATED_ENC_UNIONS if not e.startswith("Optional[")]
    for _ in range(ctx.budget(120, 800)):
        e, ent = gen_union_expr(rng, encode=True)
        if ent != "typevar":
            exprs.append(e)
    cases, info, skipped = [], [], 0
    for expr in exprs:
        for _f in getattr(typing, "_cleanups", []):
            _f()
        tp = eval(expr, mod.__dict__)
        members = list(typing.get_args(tp))
        if typing.get_origin(tp) is not typing.Union or (len(members) == 2 and NoneType in members):
            continue
        src = capture_pack_union_source(mod, tp)
        if src is None:
            codes = ["QIdentity"]           # no method compiled: the union is the identity
        else:
            codes = parse_pack_source(src)
            if codes is None:
                ctx.not_shown("kernel K21 validation", f"unparsable pack method for {expr}: {src[:300]}")
                continue
        nonident = [m for m in members if not is_identity_packer(m)]
        if codes.count("QTry") != len(nonident):
            skipped += 1      # two members rendered to one expression
            continue
        lite = []
        for i, m in enumerate(members):
            cname = "NoneType" if m is NoneType else getattr(typing.get_origin(m) or m, "__name__", "x")
            lite.append(f"({coq_str(cname)}, {'None' if is_identity_packer(m) else f'Some {i + 1}%nat'})")
        cases.append(f"([{'; '.join(lite)}], [{'; '.join(codes)}])")
        info.append((expr, " ".join(codes)))
        ctx.count(("k21", tuple(member_label(m) for m in members)))
    ctx.hist("k21_validation", "compared", len(cases))
    ctx.hist("k21_validation", "skipped-duplicate-expression", skipped)
    corr(ctx, "K21-translation-vs-generated-source", cases, info, "list (string * option nat) * list pcode", ["k21case_ok"],
         imports="UnionModel PackEmit K21Cases", gen_imports="From VerifGen Require Import K21.", needs=("theories/K21Cases.vo",))


# ---------------------------------------------------------------------------
# K22: the translated Literal loops vs the method texts the real generator produces
# ---------------------------------------------------------------------------
def k22_part(ctx: vlib.Ctx, mod):
    import builtins
    import enum as _enum
    import mashumaro.core.meta.types.common as _common
    import mashumaro.core.meta.types.pack as _pack
    from mashumaro.core.meta.helpers import get_literal_values
    if not ctx.kernel_report.get("K22", {}).get("ok", False):
        ctx.not_shown("kernel K22", str(ctx.kernel_report.get("K22", {}).get("error")))
        return
    rng = ctx.rng
    exprs = list(CURATED_LITS)
    for _ in range(ctx.budget(60, 400)):
        exprs.append(f"Literal[{', '.join(rng.sample(LIT_POOL, rng.choice([1, 2, 3, 4])))}]")
    cases, info = [], []
    for expr in exprs:
        tp = eval(expr, mod.__dict__)
        got = {"u": None, "p": None}

        def rec(src, g=None, l=None):
            if "def __unpack_literal_" in src:
                got["u"] = src
            if "def __pack_literal_" in src:
                got["p"] = src
            return builtins.exec(src, g, l)
        olds = (_common.__dict__.get("exec"), _pack.__dict__.get("exec"))
        _common.exec = _pack.exec = rec
        try:
            mod.__dict__["BasicDecoder"](tp)
            mod.__dict__["BasicEncoder"](tp)
        except Exception as e:
            ctx.not_shown("kernel K22 validation", f"{expr}: {type(e).__name__}: {e}"[:300])
            continue
        finally:
            for m_, o_ in ((_common, olds[0]), (_pack, olds[1])):
                if o_ is None:
                    del m_.exec
                else:
                    m_.exec = o_
        if not got["u"] or not got["p"]:
            ctx.not_shown("kernel K22 validation", f"no literal method compiled for {expr}")
            continue

        def codes(src):
            out = []
            for ln in [x.strip() for x in src.splitlines()[1:]]:
                if re.match(r"if value\.__class__ is .+\]\.value\.__class__ and value == .+\]\.value:$", ln):
                    out.append(0)
                elif re.match(r"if value\.__class__ is [\w.]+ and value == [\w.]+\[.+\]:$", ln):
                    out.append(0)
                elif re.match(r"if value\.__class__ is \(.+\)\.__class__ and value == .+:$", ln):
                    out.append(2)
                elif ln == "try:":
                    out.append(1)
                elif ln.startswith("raise "):
                    out.append(3)
            return out
        kinds = [0 if isinstance(l, _enum.Enum) else 1 if isinstance(l, bytes) else 2 for l in get_literal_values(tp)]
        z = lambda xs: "[" + "; ".join(f"{x}%nat" for x in xs) + "]"
        cases.append(f"({z(kinds)}, ({z(codes(got['u']))}, {z(codes(got['p']))}))")
        info.append((expr, codes(got["u"]), codes(got["p"])))
        ctx.count(("k22", tuple(kinds)))
    corr(ctx, "K22-translation-vs-generated-source", cases, info, "list nat * (list nat * list nat)", ["k22case_ok"],
         imports="UnionModel LitEmit K22Cases", gen_imports="From VerifGen Require Import K22.", needs=("theories/K22Cases.vo",))


# ---------------------------------------------------------------------------
# K43: the translated dispatch of (un)pack_special_typing_primitive vs what the real functions return
# ---------------------------------------------------------------------------
class DispatchRecorder:
    """wraps the registered (un)pack_special_typing_primitive and Registry.get: for every call of the dispatch
    records spec.type, could_be_none, resolved type params, the returned expression (or exception) and the
    (type, expression) pairs of the registry calls made directly by it"""

    def __init__(self):
        import mashumaro.core.meta.types.common as _common
        import mashumaro.core.meta.types.pack as _pack
        import mashumaro.core.meta.types.unpack as _unpack
        self.common, self.records, self.stack = _common, [], []
        self.regs = {"unpack": _unpack.UnpackerRegistry, "pack": _pack.PackerRegistry}
        self.fn = {"unpack": _unpack.unpack_special_typing_primitive, "pack": _pack.pack_special_typing_primitive}

    def _wrap(self, side, fn):
        def wrapped(spec):
            rec = {"side": side, "type": spec.type, "cbn": spec.could_be_none, "expression": spec.expression, "nested": [],
                   "annotations": list(getattr(spec, "annotations", []) or [])}
            try:
                rec["rtp"] = dict(spec.builder.get_field_resolved_type_params(spec.field_ctx.name))
            except Exception as e:  # noqa: BLE001
                rec["rtp"] = None
            self.stack.append(("disp", rec))
            try:
                r = fn(spec)
                rec["result"] = r
                return r
            except BaseException as e:  # noqa: BLE001
                rec["exc"] = type(e).__name__
                raise
            finally:
                self.stack.pop()
                self.records.append(rec)
        return wrapped

    def __enter__(self):
        self.saved = []
        for side, reg in self.regs.items():
            lst = reg._registry
            i = next((k for k, f in enumerate(lst) if f is self.fn[side]), None)
            if i is None:
                raise RuntimeError(f"{side}_special_typing_primitive is not in the registry")
            self.saved.append((lst, i, lst[i]))
            lst[i] = self._wrap(side, lst[i])
        cls = self.common.Registry
        self.orig_get = orig = cls.get
        stack = self.stack

        def get(reg, spec):
            parent = stack[-1] if stack else None
            tp = spec.type
            stack.append(("get", None))
            try:
                r = orig(reg, spec)
            finally:
                stack.pop()
            if parent is not None and parent[0] == "disp":
                parent[1]["nested"].append((tp, r))
            return r
        cls.get = get
        return self

    def __exit__(self, *a):
        self.common.Registry.get = self.orig_get
        for lst, i, f in self.saved:
            lst[i] = f
        return False


def k43_dty(tp, table, depth=0):
    """python type -> Coq dty term; distinct non-scalar leaves / type variables are numbered through `table`"""
    if tp is None or tp is NoneType:
        return "DScalar KNone"
    if tp in (int, float, bool, str):
        return f"DScalar {KIND[tp]}"
    if tp is typing.Any:
        return "DAny"

    def num(x):
        key = ("tv", id(x)) if isinstance(x, typing.TypeVar) or type(x).__name__ == "TypeVar" else ("t", repr(x))
        return table.setdefault(key, len(table))
    if typing.get_origin(tp) is typing.Union:
        return "DUnion [" + "; ".join(k43_dty(a, table, depth + 1) for a in typing.get_args(tp)) + "]"
    if hasattr(tp, "__constraints__") and hasattr(tp, "__bound__"):
        if depth > 2:
            return f"DPlain {num(tp)}"
        opt = lambda x: "None" if x is None else f"(Some ({k43_dty(x, table, depth + 1)}))"
        try:
            has_default = tp.has_default()
        except AttributeError:
            has_default = getattr(tp, "__default__", None) is not None
        cs = "; ".join(k43_dty(c, table, depth + 1) for c in tp.__constraints__)
        return (f"DTypeVar {num(tp)} {'true' if tp is typing.AnyStr else 'false'} [{cs}] {opt(tp.__bound__)} "
                f"{opt(tp.__default__) if has_default else 'None'}")
    return f"DPlain {num(tp)}"


K43_LEAVES = ["date", "int", "str", "float", "bool", "List[int]", "DC1", "Decimal", "Dict[str, int]", "UUID", "Color", "bytes", "Any",
              "List[Optional[int]]", "Tuple[int, str]"]


def k43_observe(rec):
    """observation code (Coq xcode) of one recorded dispatch call, or None when the text does not tell"""
    tp, side = rec["type"], rec["side"]
    if "exc" in rec:
        return "ORaise" if rec["exc"] == "UnserializableDataError" else None
    r, nested = rec.get("result"), rec["nested"]
    if r is None:
        return "ONext"
    if typing.get_origin(tp) is typing.Union:
        cands = list(typing.get_args(tp))
    else:
        try:
            has_default = tp.has_default()
        except AttributeError:
            has_default = getattr(tp, "__default__", None) is not None
        cands = [getattr(tp, "__bound__", None)] + ([tp.__default__] if has_default else [])
    if not nested:
        return "OValue" if r == rec["expression"] else None
    if len(nested) == 1:
        a, ar = nested[0]
        if a is None:
            idx = "None"
        else:
            pos = next((i for i, c in enumerate(cands) if c is a), None)
            if pos is None:
                pos = next((i for i, c in enumerate(cands) if c == a), None)
            if pos is None:
                return None
            idx = f"(Some {pos})"
        if r == ar:
            return f"OReg {idx} false"
        if r == f"{ar} if {rec['expression']} is not None else None":
            return f"OReg {idx} true"
        return None
    if f"__{side}_union_" in r:
        return f"OUnion {len(nested)}"
    if f"__{side}_type_var_" in r:
        return f"OTypeVar {len(nested)}"
    return None


def k43_part(ctx: vlib.Ctx, mod):
    """(T) validation of kernel K43: build real codecs / dataclasses over union, Optional and type variable positions
    (codec top level: could_be_none; nullable dataclass fields: not could_be_none; container items; generic
    dataclasses specialised with None), record every call of the real dispatch and compare its outcome with the
    translated functions on the same abstracted ValueSpec."""
    if not ctx.kernel_report.get("K43", {}).get("ok", False):
        ctx.not_shown("kernel K43", str(ctx.kernel_report.get("K43", {}).get("error")))
        return
    rng, ns = ctx.rng, mod.__dict__
    exprs = list(CURATED_UNIONS)
    for _ in range(ctx.budget(40, 300)):
        exprs.append(gen_union_expr(rng, encode=False)[0])
    for _ in range(ctx.budget(60, 400)):
        k = rng.choice([2, 2, 2, 3, 3, 4])
        ms = rng.sample(K43_LEAVES, k - 1) + [rng.choice(["None", "None", rng.choice(K43_LEAVES)])]
        ms = list(dict.fromkeys(ms))
        if len(ms) < 2:
            continue
        rng.shuffle(ms)
        exprs.append(f"Union[{', '.join(ms)}]")
    snippets = []
    # type variable positions (codec top level and unspecialised generic dataclass field)
    tvdefs = []
    for cs in TV_CONSTRAINT_SETS[:ctx.budget(6, 14)] + [[]] * ctx.budget(6, 14):
        kw = []
        if rng.random() < 0.5:
            kw.append(f"default={rng.choice(TV_TARGETS)}")
        if not cs and rng.random() < 0.7:
            kw.append(f"bound={rng.choice(TV_TARGETS + ['Any'])}")
        tvdefs.append(f"XTypeVar('KT', {', '.join(cs + kw)})")
    tvdefs += ["XTypeVar('KT')", "XTypeVar('KT', bound=Any)", "typing.AnyStr"]
    recs, nbuilt = [], 0

    def build(src_or_fn):
        nonlocal nbuilt
        for _f in getattr(typing, "_cleanups", []):
            _f()
        with DispatchRecorder() as dr:
            try:
                src_or_fn()
            except Exception:  # noqa: BLE001  (AnyStr, unserializable combinations: the records tell)
                pass
        nbuilt += 1
        recs.extend(dr.records)

    ns.setdefault("typing", typing)
    for e in exprs:
        try:
            tp = eval(e, ns)
        except Exception:  # noqa: BLE001
            continue
        pure = typing.Any not in typing.get_args(tp) if typing.get_origin(tp) is typing.Union else True
        build(lambda: ns["BasicDecoder"](tp))
        if pure:
            build(lambda: ns["BasicEncoder"](tp))
        if rng.random() < ctx.budget(35, 60) / 100:
            n = _MOD_COUNTER[0] = _MOD_COUNTER[0] + 1
            src = (f"@dataclass\nclass K43H{n}(DataClassDictMixin):\n    a: {e}\n    b: List[{e}]\n    c: Dict[str, {e}] = field(default_factory=dict)\n"
                   f"    d: Optional[{e}] = None\n")
            build(lambda: xexec(src, ns))
    for tvd in tvdefs:
        n = _MOD_COUNTER[0] = _MOD_COUNTER[0] + 1
        try:
            xexec(f"K43T{n} = {tvd}\n", ns)
        except Exception:  # noqa: BLE001
            continue
        tv = ns[f"K43T{n}"]
        build(lambda: ns["BasicDecoder"](tv))
        build(lambda: ns["BasicEncoder"](tv))
        if tv is not typing.AnyStr:
            other = rng.choice(K43_LEAVES[:8])
            src = (f"@dataclass\nclass K43G{n}(Generic[K43T{n}], DataClassDictMixin):\n    a: K43T{n}\n    b: Optional[K43T{n}]\n"
                   f"    c: Union[K43T{n}, {other}]\n    d: List[Union[K43T{n}, {other}, None]]\n    e: Union[K43T{n}, None, {other}] = None\n"
                   f"@dataclass\nclass K43S{n}(K43G{n}[None]):\n    pass\n"
                   f"@dataclass\nclass K43R{n}(K43G{n}[{rng.choice(K43_LEAVES[:8])}]):\n    pass\n")
            build(lambda: xexec(src, ns))
    cases, info, seen, untold = [], [], set(), 0
    for rec in recs:
        tp = rec["type"]
        is_u = typing.get_origin(tp) is typing.Union
        is_tv = hasattr(tp, "__constraints__") and hasattr(tp, "__bound__")
        if not (is_u or is_tv) or rec["rtp"] is None:
            continue
        if any(type(a).__name__ == "Discriminator" for a in rec["annotations"]):
            continue
        obs = k43_observe(rec)
        if obs is None:
            untold += 1
            continue
        table: dict = {}
        t = k43_dty(tp, table)
        if is_u:
            cands = [k43_dty(a, table, 1) for a in typing.get_args(tp)]
        else:
            try:
                hd = tp.has_default()
            except AttributeError:
                hd = getattr(tp, "__default__", None) is not None
            cands = [k43_dty(tp.__bound__, table, 1)] + ([k43_dty(tp.__default__, table, 1)] if hd else [])
        if any(c.startswith("DUnion") for c in cands):
            untold += 1
            continue
        rtp = []
        for k, v in rec["rtp"].items():
            if type(k).__name__ == "TypeVar":
                kk = table.setdefault(("tv", id(k)), len(table))
                rtp.append(f"({kk}, {k43_dty(v, table, 1)})")
        case = (f"(K43C ({t}) [{'; '.join(rtp)}] {'true' if rec['cbn'] else 'false'} [{'; '.join(cands)}] "
                f"{'true' if rec['side'] == 'unpack' else 'false'} ({obs}))%nat")
        if case in seen:
            continue
        seen.add(case)
        cases.append(case)
        info.append((rec["side"], repr(tp)[:120], f"cbn={rec['cbn']}", f"rtp={ {getattr(k, '__name__', k): v for k, v in rec['rtp'].items()} }"[:80], obs))
        ctx.count(("k43", rec["side"], obs.split()[0], rec["cbn"], "rtp" if rtp else "", len(cands)))
        ctx.hist("k43_validation", f"{rec['side']}:{obs.split()[0]}:{'cbn' if rec['cbn'] else 'field-tested'}", 1)
    ctx.hist("k43_validation", "compared", len(cases))
    ctx.hist("k43_validation", "outcome-not-told-by-text", untold)
    ctx.hist("k43_validation", "builds", nbuilt)
    if len(cases) < 40:
        ctx.not_shown("kernel K43 validation", f"only {len(cases)} dispatch calls observed")
    corr(ctx, "K43-translation-vs-real-dispatch", cases, info, "k43case", ["k43case_ok"],
         imports="UnionModel UnionDispatch K43Cases", gen_imports="From VerifGen Require Import K43.", needs=("theories/K43Cases.vo",))


# ---------------------------------------------------------------------------
# K43a: the translated creators of the basic scalar types vs the expression the real registries return
# ---------------------------------------------------------------------------
class GetRecorder:
    """records the outermost Registry.get call (type, returned expression) made while something is built"""

    def __init__(self):
        import mashumaro.core.meta.types.common as _common
        self.common, self.calls, self.depth = _common, [], 0

    def __enter__(self):
        cls = self.common.Registry
        self.orig = orig = cls.get
        me = self

        def get(reg, spec):
            tp = spec.type
            me.depth += 1
            try:
                r = orig(reg, spec)
            finally:
                me.depth -= 1
            if me.depth == 0:
                me.calls.append((tp, r))
            return r
        cls.get = get
        return self

    def __exit__(self, *a):
        self.common.Registry.get = self.orig
        return False


K43A_TYPES = [("int", "OInt"), ("float", "OFloat"), ("bool", "OBool"), ("str", "(OStr false)"), ("NoneType", "ONoneType"), ("None", "ONonePy"),
              ("Any", "OAny"), ("SStr", "(OStr true)"), ("date", "OOther"), ("Decimal", "OOther"), ("List[int]", "OOther"), ("DC1", "OOther"),
              ("UUID", "OOther"), ("Dict[str, int]", "OOther"), ("Color", "OOther")]


def k43a_part(ctx: vlib.Ctx, mod):
    """(T) validation of kernel K43a: the expression the real registries return for a type at the top of a codec
    (TypeMatchEligibleExpression with which coercion / "value" / something else) against the translated creators."""
    if not ctx.kernel_report.get("K43a", {}).get("ok", False):
        ctx.not_shown("kernel K43a", str(ctx.kernel_report.get("K43a", {}).get("error")))
        return
    from mashumaro.core.meta.types.common import TypeMatchEligibleExpression as TME
    ns = mod.__dict__
    cases, info = [], []
    for expr, oty in K43A_TYPES:
        tp = eval(expr, ns)
        obs = []
        for side, codec in (("unpack", "BasicDecoder"), ("pack", "BasicEncoder")):
            with GetRecorder() as gr:
                try:
                    ns[codec](tp)
                except Exception as e:  # noqa: BLE001
                    ctx.notes.append(f"K43a: {codec}({expr}) not built: {type(e).__name__}"[:160])
            if not gr.calls:
                obs = None
                break
            r = gr.calls[-1][1]
            if isinstance(r, TME):
                k = FB_TEXT.get(str(r))
                obs.append(f"(Some (STme {k}))" if k else "(Some (STme KNone))" if str(r) == "None" else "None")
                if not k:
                    ctx.not_shown("kernel K43a validation", f"TypeMatchEligibleExpression with unknown text {r!r} for {expr}")
            elif r == "value":
                obs.append("(Some SValue)")
            else:
                obs.append("None")
        if obs is None:
            continue
        cases.append(f"({oty}, ({obs[0]}, {obs[1]}))")
        info.append((expr, oty, obs[0], obs[1]))
        ctx.count(("k43a", expr, obs[0], obs[1]))
    if len(cases) < 10:
        ctx.not_shown("kernel K43a validation", f"only {len(cases)} types observed")
    corr(ctx, "K43a-translation-vs-real-registry", cases, info, "oty * (option sexpr * option sexpr)", ["k43acase_ok"],
         imports="UnionModel ScalarCreators K43aCases", gen_imports="From VerifGen Require Import K43a.", needs=("theories/K43aCases.vo",))


THEOREMS = [
    "C11_union_decode_partial", "C11_union_deviation_char", "C11_union_shadow_result", "C11_union_none_refuted",
    "C11_union_shadow_refuted", "C11_no_cross_coercion", "C11_scalars_first_no_shadow", "C11_union_result_from_member",
    "C11_union_raises_iff", "C11_none_member_never_raises", "C11_deterministic", "C11_union_dedup_invisible", "C11_nested_union_partial", "C11_shape_positions", "C11_typevar_constraints_win", "C11_typevar_partial", "C11_deep_decode_partial", "C11_deep_decode_refuted", "C11_union_emit_correct", "C11_union_emitted_partial", "C11_union_raise_class", "C11_pack_emit_correct", "C11_pack_emitted_partial", "C11_union_encode_ref", "C11_deep_encode_partial", "C11_deep_encode_refuted", "C11_opt",
    "C11_union_encode_partial", "C11_union_encode_refuted", "C11_literal_full", "C11_literal_encode_full",
    "C11_literal_returns_listed", "C11_literal_accepts_listed", "C11_literal_emit_correct", "C11_literal_emitted_full",
    "C11_literal_pack_emit_correct", "C11_literal_text_denotes",
    "C11_is_optional_spec", "C11_not_none_arg_spec", "C11_union_dispatch_correct", "C11_typevar_dispatch_correct",
    "C11_typevar_dispatch_model", "C11_optional_position_full", "C11_union_position_partial", "C11_union_position_refuted",
    "C11_dispatch_symmetric", "C11_optional_encode", "C11_field_none_test_once",
    "C11_member_value_partial", "C11_member_value_refuted",
    "C11_scalar_members_tme", "C11_scalar_members_identity_packer", "C11_tme_only_scalars", "C11_scalar_creators_exclusive",
    "C11_scalar_type_is_scalar_member",
]


def run(ctx: vlib.Ctx):
    ctx.coverage["rule"] = (
        "unions: curated shapes (upstream tests, DESIGN examples, every listed deviation) plus random unions of 2-5 members "
        "drawn from 5 scalar and 22 non-scalar member types (containers, dataclasses, enums, date/UUID/Decimal/bytes leaves, "
        "nested unions, Literal, Any), as plain Union, Optional[Union], TypeVar constraints; entry points BasicDecoder/Encoder, "
        "dataclass field, List element; inputs: 62 basic-form values of every scalar class, lists, dicts and garbage. "
        "distinct = (member mix in order, path, input class, verdict class, outcome). Literal: 1-4 listed values of "
        "int/bool/str/None/enum/bytes x 27 inputs.")
    # the cone of the props file is built first with a generous time limit (a fresh copy on a loaded machine: the
    # default limit of the props build must only cover the props file itself); failures are reported by ctx.theorems
    vlib.coq_make(["theories/K19Proofs.vo", "theories/K21Proofs.vo", "theories/K22Proofs.vo", "theories/K43Proofs.vo",
                   "theories/K43aProofs.vo", "theories/UnionMember.vo", "theories/UnionDeepProofs.vo", "theories/UnionDeepEncProofs.vo",
                   "theories/PyLitProofs.vo", "theories/PyStrLit.vo", "theories/K19Cases.vo", "theories/K21Cases.vo", "theories/K22Cases.vo",
                   "theories/K43Cases.vo", "theories/K43aCases.vo", "theories/UnionCases.vo"], timeout=2700, jobs=6)
    ctx.theorems("props/C11_union.vo", THEOREMS, kernels=["K19", "K21", "K22", "K43", "K43a"])
    ctx.trusted += [
        "UnionModel.v is hand-written from UnionUnpackerBuilder._add_body / pack_union / LiteralUnpackerBuilder / expr_or_maybe_none; "
        "tied to /repo only behaviourally (correspondence on every run), parametric in the member (un)packers whose behaviour is "
        "observed on the real code per case (BasicDecoder(member).decode / BasicEncoder(member).encode / single-field holder)",
        "Python `==` on bool/int/float/str/None (UnionModel.py_eq) and `type(value) is T` (kind_of) are modelled, not verified",
        "harness: conforms() (which member a value belongs to; since round 6 only for LEAF types -- List[int], date, ... --, membership in "
        "unions / Optional / containers around unions is UnionMember.rconf, compared with conforms() on every case), "
        "to_uv() (class name + repr as identity of a value)",
        "K43: types / ValueSpec / returned expression abstracted to UnionDispatch.v (dty, dspec, dexpr); resolved_type_params keyed by "
        "type variables; has_default() is abstracted; of the registry creators that run before (un)pack_special_typing_primitive only the "
        "names and their order are pinned (C11_creators_before); the field-level None test of a nullable dataclass field (field_dec) is hand-modelled",
    ]
    ctx.assumptions += [
        "coherent / pcoherent: members rendered to the same (un)packer expression behave identically on the input (same expression, deterministic callee)",
        "interpretation (i) of DESIGN 3.1: a scalar member 'accepts' by exact class first; coercions are tried after all non-scalar members",
        "inputs/values compared by (exact class name, repr)",
    ]
    if not ctx.quick():
        # second opinion on the compiled proofs (independent checker)
        # generous: on a loaded machine coqchk gets a few percent of a core
        rc, log, secs = vlib.run(["timeout", "2700", "coqchk", "-silent", "-o", "-Q", "theories", "Verif", "-Q", "gen", "VerifGen", "-Q", "props", "VerifProps",
                                  "VerifProps.C11_union"], cwd=vlib.COQ, timeout=2760)
        ok = rc == 0 and "Axioms: <none>" in re.sub(r"\s+", " ", log)
        ctx.obligation("coqchk VerifProps.C11_union (no axioms)", ok, log[-600:])
        if not ok:
            ctx.not_shown("coqchk VerifProps.C11_union", log[-1500:])
    mod = make_module()
    mem = Members(mod)
    decode_part(ctx, mod, mem)
    encode_part(ctx, mod, mem)
    literal_part(ctx, mod, mem)
    shapes_part(ctx, mod, mem)
    typevar_part(ctx, mod, mem)
    deep_part(ctx, mod, mem)
    deep_enc_part(ctx, mod, mem)
    rec_part(ctx, mod, mem)
    k19_part(ctx, mod)
    k21_part(ctx, mod)
    k22_part(ctx, mod)
    k43_part(ctx, mod)
    k43a_part(ctx, mod)


# ---------------------------------------------------------------------------
# replay
# ---------------------------------------------------------------------------

def replay(rep: dict) -> int:
    if rep.get("kind") == "no-failing-input-found":
        print("no failing input recorded; broken obligations:", [o.get("name") for o in rep.get("not_shown", [])])
        return 2
    mod = types.ModuleType("_c11_replay")
    sys.modules["_c11_replay"] = mod
    xexec(rep["src"], mod.__dict__)
    ns = mod.__dict__
    entry, expr = rep["entry"], rep["type_expr"]
    v = eval(rep["input"], ns)
    op = rep.get("op", "decode")

    def call():
        if entry.startswith("shape-"):
            tp = eval(expr, ns)
            if entry == "shape-dataclass":
                r = tp.from_dict(v) if op == "decode" else v.to_dict()
            elif entry == "shape-field":
                h = ns[rep["holder"]]
                r = h.from_dict({"x": v}).x if op == "decode" else h(x=v).to_dict()["x"]
            else:
                r = ns["BasicDecoder"](tp).decode(v) if op == "decode" else ns["BasicEncoder"](tp).encode(v)
            return eval(rep["extract"], {"r": r}) if rep.get("extract") else "ok"
        if entry in ("field", "typevar"):
            h = ns[rep["holder"]]
            return h.from_dict({"x": v}).x if op == "decode" else h(x=v).to_dict()["x"]
        tp = eval(expr, ns)
        if entry == "list":
            tp = list[tp]
            return ns["BasicDecoder"](tp).decode([v])[0] if op == "decode" else ns["BasicEncoder"](tp).encode([v])[0]
        return ns["BasicDecoder"](tp).decode(v) if op == "decode" else ns["BasicEncoder"](tp).encode(v)

    got_o = outcome(call)
    got = show(got_o)
    if entry.startswith("shape-") and not rep.get("extract"):
        print(f"{op} {expr} via {entry} <- {rep['input']}: got {got if got_o[0] == 'raise' else 'a result'}; property expects a result")
        print("REPRODUCED" if got_o[0] == "raise" else "not reproduced")
        return 1 if got_o[0] == "raise" else 0
    print(f"{op} {expr} via {entry} <- {rep['input']}: got {got}; recorded observed {rep['observed']}; property expects {rep['expected']}")
    norm = lambda s: re.sub(r"_c11_\w+\.", "", re.sub(r"^raise .*", "raise", s))
    if norm(got) != norm(rep["expected"]):
        print("REPRODUCED")
        return 1
    print("not reproduced")
    return 0
