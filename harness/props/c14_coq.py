"""C14: Coq side - theorems, and the correspondence of coq/theories/LazyModel.v with the real classes:
for every generated history the model is run by vm_compute on the same family / definition order /
operations, and after class creation and after every operation its slot table (absent / stub /
compiled per class x generated method name), its dialect caches (existence + keys) and the outcome
kind must equal what was observed on the real classes."""
from __future__ import annotations

import hashlib
import re

from harness import vlib

FMT_ID = {"dict": 0, "msgpack": 1, "json": 2, "jsonb": 3, "toml": 4}
# specialisation ids: one per ORDERED tuple of type arguments (distinct rendered names => distinct id); the md5
# table is computed here from the rendered names, independently of /repo's hash_type_args
import itertools
from harness.c14fam import TARGS
_KEYS = sorted(TARGS)
SPEC_ID = {None: 0}
for _n in (1, 2):
    for _t in itertools.product(_KEYS, repeat=_n):
        SPEC_ID[_t] = len(SPEC_ID)
MD5_ID = {hashlib.md5(",".join(TARGS[a][1] for a in k).encode()).hexdigest(): v for k, v in SPEC_ID.items() if k}
_UNKNOWN_MD5 = {}


def spec_id(targ):
    return SPEC_ID[tuple(targ) if targ else None]


def md5_id(h):
    """id of the specialisation a generated method name belongs to; a hash that is not the md5 of the ordered,
    fully qualified argument names gets an id no model slot has (=> correspondence mismatch)"""
    if h in MD5_ID:
        return MD5_ID[h]
    return _UNKNOWN_MD5.setdefault(h, 900 + len(_UNKNOWN_MD5))
DIALECT_ID = {None: None, "D1": 1, "D2": 2}
# formats compiled at class creation per mixin: (unpack format, pack format)
MIXIN_FMTS = {"msgpack": ("msgpack", "msgpack"), "orjson": ("json", "jsonb"), "toml": ("toml", "toml")}
NAME_RE = re.compile(r"^(to|from)_(.+?)(?:_([0-9a-f]{32}))?$")


def b(x):
    return "true" if x else "false"


def mn(pack, fmt, top, spec):
    return f"(MN {b(pack)} {fmt} {b(top)} {spec})"


def parse_method(name: str):
    m = NAME_RE.match(name)
    if not m:
        raise ValueError("unknown generated method name " + name)
    pack = m.group(1) == "to"
    body = m.group(2)
    spec = md5_id(m.group(3)) if m.group(3) else 0
    if body == "dict":
        return mn(pack, 0, False, spec)
    if body.startswith("dict_"):
        return mn(pack, FMT_ID[body[5:]], False, spec)
    return mn(pack, FMT_ID[body], True, spec)


def entry_mname(fmt_key: str, pack: bool):
    """slot reached by the public entry point of mixin `fmt_key`"""
    if fmt_key in ("dict", "json", "yaml"):
        return mn(pack, 0, False, 0)
    if fmt_key == "orjson":
        return mn(pack, FMT_ID["jsonb" if pack else "json"], True, 0)
    return mn(pack, FMT_ID[fmt_key], True, 0)


def fam_term(fam, lazy):
    from harness import c14fam as F
    out = []
    for i, c in enumerate(fam["classes"]):
        root = c
        while root["parent"] is not None:
            root = fam["classes"][root["parent"]]
        fmts = []
        if root["kind"] == "mixin":
            fmts.append("(0, 0)")
            for m in reversed(root["mixins"]):
                if m in MIXIN_FMTS:
                    u, p = MIXIN_FMTS[m]
                    fmts.append(f"({FMT_ID[u]}, {FMT_ID[p]})")
        ghost = len(fam["classes"])      # a class id that is never defined: its name is never bound
        fields = [f"(FD {t[1]} {spec_id(t[3])} {b(not (len(t) > 4 and t[4] == 'Self'))})" if t[0] == "dc" else f"(FD {ghost} 0 true)"
                  for _, t in F.all_fields(fam, i) if t[0] in ("dc", "ghost")]
        par = "None" if c["parent"] is None else f"(Some {c['parent']})"
        out.append(f"(CDX {b(lazy[i] and c['kind'] == 'mixin')} {b(c['dsup'])} [{'; '.join(fmts)}] [{'; '.join(fields)}] {par} "
                   f"{b(c.get('apc', True))})")
    return "[" + "; ".join(out) + "]"


def tree_term(tree):
    return "(V [" + "; ".join(f"({k}, {tree_term(t)})" for k, t in tree) + "])"


def snap_term(fam, snap):
    idx = {c["name"]: i for i, c in enumerate(fam["classes"])}
    sl, ca = [], []
    for cname, s in snap.items():
        i = idx[cname]
        for m, k in s["m"].items():
            sl.append(f"(({i}, {parse_method(m)}), {b(k == 'S')})")
        for cn, ds in s["c"].items():
            mm = re.match(r"^(\w+)_(packer|unpacker)$", cn)
            ca.append(f"(({i}, ({b(mm.group(2) == 'packer')}, {FMT_ID[mm.group(1)]})), [{'; '.join(str(DIALECT_ID[d]) for d in ds)}])")
    return f"([{'; '.join(sl)}], [{'; '.join(ca)}])"


def outcome_kind(out, aux_rec=None):
    """0 ok, 1 AttributeError on a dialect cache, 2 AttributeError on a generated method, 3 RecursionError by
    re-dispatch, 4 RecursionError in nested compilation, None = an outcome the model does not talk about"""
    if out[0] == "OK":
        return 0
    if "UnresolvedTypeReferenceError" in (out[1], out[3] if len(out) > 3 else "") or (len(out) > 4 and "unresolved type reference" in out[4]):
        return 5
    if out[1] == "RecursionError":
        return {"redispatch": 3, "build-cycle": 4}.get(aux_rec)
    if len(out) > 4 and out[3] == "AttributeError":
        if "__dialect_" in out[4]:
            return 1
        if "__mashumaro_" in out[4]:
            return 2
    return None


def case_term(case, d5=True):
    """Coq term of type LazyCheck.case, or None if the history has nothing the model talks about"""
    fam = case["fam"]
    snaps = case["snaps"]
    steps = []
    for (k, op, got, exp, sig), meta, snap in zip(case["res"], case["opmeta"], snaps[1:]):
        if not meta["valid"]:
            break
        kind = outcome_kind(got, case.get("rec", {}).get(k))
        if kind is None:
            break
        d = DIALECT_ID[meta["dialect"]]
        opt = (f"(Call {meta['cls']} {entry_mname(meta['fmt'], meta['pack'])} "
               f"{'None' if d is None else '(Some %d)' % d} {tree_term(meta['tree'])})")
        # after a failure the partially executed generated program may have left less behind than the
        # model's atomic install; the state is compared only after successful operations
        steps.append(f"({opt}, ({kind}, {'Some ' + snap_term(fam, snap) if kind == 0 else 'None'}))")
        if kind != 0:
            break
    return (f"(CASE {fam_term(fam, case['lazy'])} {b(d5)} [{'; '.join(map(str, case['order']))}] "
            f"{snap_term(fam, snaps[0])} [{'; '.join(steps)}])"), len(steps)


THEOREMS = ["C14_reachable_inv", "C14_no_inherited_code", "C14_call_state_independent", "C14_history_partial", "C14_history_refuted",
            "C14_first_call_terminates", "C14_lazy_dialect_diverges", 
            "C14_no_cache_attribute_error", "C14_build_cycle_diverges", "C14_schedules_partial", "C14_schedules_multi_slot_partial"]


def theorems(ctx):
    ctx.theorems("props/C14_lazy.vo", THEOREMS)
    # specialisation key: proofs over kernel K11 (method names) as translated on this run; the plugin fails
    # closed unless hash_type_args is md5(",".join(map(type_name, type_args))).hexdigest()
    ctx.theorems("props/C14_speckey.vo", ["C14_spec_key_inj", "C14_join_inj", "C14_enc_name_differs_iff"], kernels=["K11"])
    spec_key_tie(ctx)
    # the stub / compile / raise decision and the stub's re-build arguments, over kernel K114a (builder.py, this run)
    # the on-demand compilation of nested dataclasses, over kernel K114b (pack.py / unpack.py, this run), and the
    # installation of a generated method, over kernel K114c (add_(un)pack_method / _add_setattr_method)
    ctx.theorems("props/C14_decision.vo", ["C14_source_lazy_test", "C14_source_unresolved_test", "C14_build_follows_source",
                                           "C14_stub_step_follows_source", "C14_source_ondemand_test",
                                           "C14_deps_step_follows_source", "C14_build_ondemand_follows_source",
                                           "C14_creation_never_unresolved", "C14_creation_unresolved_raises",
                                           "C14_source_install_tests", "C14_install_follows_source"],
                 kernels=["K114a", "K114b", "K114c"])
    ctx.coqchk(["VerifProps.C14_lazy", "VerifProps.C14_speckey", "VerifProps.C14_decision"])      # thorough tier only


def spec_key_tie(ctx):
    """the key the model assumes (md5 of the ORDERED, fully qualified rendered names joined by ',') against the
    real hash_type_args / type_name, for every argument tuple the generator can produce; Coq's `join` against
    Python's ','.join on the same lists"""
    from harness import c14fam as F
    from mashumaro.core.meta.helpers import hash_type_args, type_name
    F.ensure_aux()
    ns = {}
    exec("import typing, c14aux_a, c14aux_b\nfrom typing import List", ns)
    bad, cases = [], []
    for k in SPEC_ID:
        if not k:
            continue
        objs = [eval(TARGS[a][0], ns) for a in k]
        names = [TARGS[a][1] for a in k]
        got_names = [type_name(o) for o in objs]
        exp = hashlib.md5(",".join(names).encode()).hexdigest()
        if got_names != names or hash_type_args(objs) != exp:
            bad.append((k, got_names, hash_type_args(objs), exp))
        cases.append("([" + "; ".join(vlib.coq_str(n) for n in names) + "], " + vlib.coq_str(",".join(names)) + ")")
    ctx.correspondence("spec-key-vs-hash_type_args", len(SPEC_ID) - 1, len(bad), str(bad[:3]))
    if bad:
        ctx.not_shown("correspondence spec-key-vs-hash_type_args",
                      f"hash_type_args / type_name disagree with md5(','.join(full names)) on {bad[:3]}")
    if ctx.kernel_report.get("K11", {}).get("ok"):
        b2, log = vlib.coq_bad_idx("c14_join", "PyK_names K11Proofs SpecKey", "From VerifGen Require Import K11.", "", cases,
                                   "fun c => String.eqb (join (fst c)) (snd c) && forallb comma_free (fst c)", "list string * string",
                                   needs=["theories/SpecKey.vo"])
        if b2 is None or b2:
            ctx.correspondence("coq-join-vs-python-join", len(cases), -1 if b2 is None else len(b2), log[-300:])
            ctx.not_shown("correspondence coq-join-vs-python-join", log[-500:])
        else:
            ctx.correspondence("coq-join-vs-python-join", len(cases), 0, "")


def correspondence(ctx, cases, limit=None, tag=""):
    terms, srcs, nsteps = [], [], 0
    cterms = []
    for case in cases:
        if case.get("creation"):
            # the class statements up to the failing one: all fine, then UnresolvedTypeReferenceError (kind 5)
            pos = case["creation"]["pos"]
            cterms.append(f"(CCASE {fam_term(case['fam'], case['lazy'])} [{'; '.join(map(str, case['order'][:pos + 1]))}] "
                          f"[{'; '.join(['0'] * pos + ['5'])}])")
            continue
        if "snaps" not in case or not case["snaps"]:
            continue
        try:
            t, n = case_term(case)
        except (KeyError, ValueError) as e:
            ctx.not_shown("correspondence lazy-model", f"cannot render case: {e!r}")
            continue
        terms.append(t)
        srcs.append(case)
        nsteps += n + 1
        if limit and len(terms) >= limit:
            break
    name = "lazy-model-vs-class-dicts" + ("-" + tag if tag else "")
    if cterms or tag:
        cbad, _, clog = corr_eval(cterms, ok_fun="ccase_ok", case_type="ccase", fname="c14_ccorr" + tag, dom=False)
        cname = "lazy-model-vs-class-creation-failures" + ("-" + tag if tag else "")
        ctx.correspondence(cname, len(cterms), -1 if cbad is None else len(cbad), (clog if cbad is None else f"first: {cterms[cbad[0]]}" if cbad else ""))
        if cbad is None or cbad:
            ctx.not_shown("correspondence " + cname, clog[-1500:] if cbad is None else
                          f"{len(cbad)} class-creation failures disagree with the model; first: {cterms[cbad[0]][:1500]}")
    bad, out_dom, log = corr_eval(terms, fname="c14_corr" + tag)
    if bad is None:
        ctx.correspondence(name, len(terms), -1, log)
        ctx.not_shown("correspondence " + name, log)
        return False
    detail = ""
    if bad:
        c = srcs[bad[0]]
        ok, out = vlib.coq_eval("c14_corr_dbg", vlib.CASE_HEADER.format(imports="LazyModel LazyCheck", gen_imports="") + "Close Scope Z_scope.\n" +
                                f"Definition k := {terms[bad[0]]}.\nEval vm_compute in (check_case k).\nEval vm_compute in (trace_case k).\n",
                                timeout=1800)
        detail = (f"{len(bad)} histories disagree; first: mode {c['mode']} order {c['order']} lazy {c['lazy']} ops {c['ops'][:3]} "
                  f"observed {c['snaps'][:2]} ;; coq: {out[-1800:]}")
        ctx.not_shown("correspondence " + name, detail)
    ctx.correspondence(name, len(terms), len(bad), detail or f"{nsteps} compared states")
    ctx.hist("correspondence", "histories", len(terms))
    # how many of the compared families lie in the domain of the theorems (selfref_unspec), decided in Coq
    ctx.hist("correspondence", "families outside selfref_unspec", len(out_dom))
    ctx.hist("correspondence", "states", nsteps)
    return not bad


def corr_eval(terms, shard=60, ok_fun="case_ok", case_type="case", fname="c14_corr", dom=True):
    """one coqc run per shard evaluates both `bad_idx case_ok cases` and the domain predicate; generous time limit
    (a loaded machine must not turn into an alarm). Returns (bad, outside_domain, log) or (None, None, log)."""
    br = vlib.coq_make(["theories/Wire.vo", "theories/PyK.vo", "theories/LazyCheck.vo"], timeout=2400)
    if not br.ok:
        return None, None, "model does not build: " + (br.error or "")
    files = []
    for si in range(0, max(len(terms), 1), shard):
        chunk = terms[si:si + shard]
        txt = vlib.CASE_HEADER.format(imports="LazyModel LazyCheck", gen_imports="") + "Close Scope Z_scope.\n"
        txt += f"Definition cases : list {case_type} :=\n  [" + ";\n   ".join(chunk) + "].\n"
        txt += f"Eval vm_compute in (bad_idx {ok_fun} cases).\n"
        if dom:
            txt += "Eval vm_compute in (bad_idx (fun k => selfref_unspecb (k_fam k)) cases).\n"
        files.append((f"{fname}_{si // shard}", txt))
    res = vlib.coq_eval_many(files, timeout=1800, jobs=6)
    bad, domo, logs = [], [], []
    for n, (ok, out) in enumerate(res):
        if not ok:
            return None, None, out[-3000:]
        parts = re.findall(r"=\s*(\[[^\]]*\])\s*(?:%nat)?\s*:\s*list nat", out, re.S)
        if len(parts) != (2 if dom else 1):
            return None, None, "unparsable coq output: " + out[-1500:]
        for tgt, body in zip((bad, domo), parts):
            body = body.strip()[1:-1].strip()
            tgt.extend(n * shard + int(x.replace("%nat", "").strip()) for x in body.split(";") if x.strip())
        logs.append(out[-200:])
    return bad, domo, "\n".join(logs)
