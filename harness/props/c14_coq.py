"""C14: Coq side (theorems + correspondence)."""
from __future__ import annotations
from harness import vlib


def theorems(ctx):
    pass


def correspondence(ctx, cases):
    pass
