"""C05: root dataclasses whose fields include Union[...] / Literal[...] positions over the typed grammar, and
codec roots BasicDecoder(Union[...]) / BasicDecoder(Literal[...]): correspondence of ErrsX.uex / uex_root with
the real from_dict (mixin method: a failed union raises InvalidFieldValue itself) and BasicDecoder.decode (codec:
ValueError), on exception class, attributes, __context__ and value."""
from __future__ import annotations

import copy

from harness import gen, tycorr, vlib
from harness.gen import T, coq_pv, coq_sty, coq_senv
from harness.vlib import coq_str, coq_z
from harness.props import c05_typed as CT

HEADER = """From Coq Require Import List String Ascii ZArith Bool.
From Verif Require Import Wire Core CaseLib TupleIdx TyModel Errs ErrsTy ErrsX.
Import ListNotations.
Open Scope string_scope.
Open Scope Z_scope.
Inductive xcase :=
| XC (E: senv) (CF: string -> tcfg) (nailed: bool) (k: xcls) (d: pv) (e: res pv) (cx: option (option exn))
| XR (E: senv) (CF: string -> tcfg) (t: xty) (d: pv) (e: res pv).
"""

OK_FUN = """Definition res_same (a b: res pv) : bool :=
  match a, b with
  | Ok r, Ok x => pv_same r x
  | Exn a, Exn b => exn_eqb a b
  | _, _ => false end.
Definition ok (c: xcase) : bool :=
  match c with
  | XC E CF nailed k d e cx =>
      res_same (uex E Q CF nailed k d) e &&
      (match cx with None => true | Some want => opt_exn_eqb (uex_cause E Q CF nailed k d) want end)
  | XR E CF t d e => res_same (uex_root E Q CF t d) e
  end.
"""

LIT_POOL = [1, 2, "a", "b", "", True, None, 0, False, "1"]
JUNK = [None, 0, 1, -3, 2.5, True, False, "", "a", "12", "abc", [], [1], ["a", 2], {}, {"k": 1}, "2024-01-02", "1", 2, "b"]


def lit_term(v) -> str:
    if v is None:
        return "LNone"
    if isinstance(v, bool):
        return f"(LBool {'true' if v else 'false'})"
    if isinstance(v, int):
        return f"(LInt {coq_z(v)})"
    return f"(LStr {coq_str(v)})"


def has_x(t: T) -> bool:
    return any(n.kind in ("union", "lit") for n in t.walk())


def xty_term(t: T) -> str:
    if t.kind == "list" and has_x(t):
        return f"(XList {xty_term(t.args[0])})"
    if t.kind == "dict" and has_x(t.args[1]):
        return f"(XDict {coq_sty(t.args[0])} {xty_term(t.args[1])})"
    if t.kind == "opt" and has_x(t):
        return f"(XOpt {xty_term(t.args[0])})"
    if t.kind == "union":
        return "(XUnion [" + "; ".join(coq_sty(a) for a in t.args) + "])"
    if t.kind == "lit":
        return "(XLit [" + "; ".join(lit_term(v) for v in t.extra) + "])"
    return f"(XT {coq_sty(t)})"


def leaf_types(t: T) -> list:
    """the grammar types a position hands to ErrsTy.ue: union members, dict keys, or the type itself"""
    if not has_x(t):
        return [t]
    if t.kind == "union":
        return list(t.args)
    if t.kind == "lit":
        return []
    if t.kind == "dict":
        return [t.args[0]] + leaf_types(t.args[1])
    return [x for a in t.args for x in leaf_types(a)]


def gen_union(sg, rng) -> T:
    """members inside the Coq grammar; sometimes a None member (>= 3 members: the union builder, not Optional),
    sometimes look-alike members (int / float / bool / str coercions are fallbacks)"""
    pool = [T("int"), T("str"), T("bool"), T("float"), T("list", [T("int")]), T("dict", [T("str"), T("int")]),
            T("leaf", name="date"), T("leaf", name="UUID"), T("list", [T("str")]), T("tuplefix", [T("int"), T("str")])]
    datas = [c for c in sg.fam.classes if c.kind == "data" and c.name not in sg.open]
    if datas:
        pool.append(T("data", name=rng.choice(datas).name))
    ms = rng.sample(pool, rng.choice([2, 2, 3, 3, 4]))
    if len(ms) >= 2 and rng.random() < 0.3:
        ms.insert(rng.randrange(len(ms) + 1), T("none"))
        if len(ms) == 2:
            ms.append(T("leaf", name="date"))
    return T("union", ms)


def wrap(rng, t: T) -> T:
    """a union / Literal position, now and then inside List / Dict[str, .] / Optional (nested up to twice)"""
    if t.kind == "lit" and None not in t.extra and rng.random() < 0.3:
        t = T("opt", [t])
    for _ in range(2):
        c = rng.random()
        if c < 0.22:
            t = T("list", [t])
        elif c < 0.34:
            t = T("dict", [T("str"), t])
        elif c < 0.42 and t.kind == "lit" and None not in t.extra:
            t = T("opt", [t])
        else:
            break
    return t


def gen_lit(rng) -> T:
    vals = []
    for v in rng.sample(LIT_POOL, rng.randrange(1, 5)):
        if not any(type(v) is type(w) and v == w for w in vals):
            vals.append(v)
    # typing.Literal deduplicates values that are == and hash alike (1 / True): keep the first of such a pair
    out = []
    for v in vals:
        if not any(v == w and hash(v) == hash(w) for w in out):
            out.append(v)
    return T("lit", extra=out)


def make_cases(rng, n_schemas: int, per_schema: int):
    from mashumaro.codecs.basic import BasicDecoder, BasicEncoder
    cases = []
    for si in range(n_schemas):
        sg = gen.SchemaGen(rng, gen.GenOpts(depth=2, coq_only=True, named=True, mixin=True, configs=rng.random() < 0.4,
                                            abstract=False, unpacked=False))
        sg.tag = f"x{si}_"
        t = sg.dataclass_type(1)
        fam = sg.fam
        spec = fam.get(t.name)
        if not spec.fields:
            continue
        # the root class gets Union / Literal fields and therefore lives outside the class table of the grammar:
        # no class of the family may refer to it (self reference through Optional / List)
        if any(n.kind == "data" and n.name == t.name for x in fam.classes for f in x.fields for n in f.ty.walk()):
            continue
        spec.mixin = True
        # turn some fields into Union / Literal positions
        changed = 0
        for f in spec.fields:
            if (changed == 0 and f is spec.fields[-1]) or rng.random() < 0.45:
                f.ty = wrap(rng, gen_union(sg, rng) if rng.random() < 0.6 else gen_lit(rng))
                f.final = False
                if f.default is not gen.NODEFAULT:
                    f.default, f.default_src = None, "None"
                changed += 1
        try:
            ns = fam.build()
            cls = ns[t.name]
            dec = BasicDecoder(cls)
            enc = BasicEncoder(cls)
        except Exception:  # noqa: BLE001 - e.g. typing rejects the generated Literal; not this stream's subject
            continue
        vg = gen.ValueGen(rng, fam)
        for _ in range(per_schema):
            try:
                w = enc.encode(vg.value(t))
            except Exception:  # noqa: BLE001
                continue
            inputs = [w]
            for _ in range(5):
                d2 = copy.deepcopy(w)
                for f in rng.sample(spec.fields, min(len(spec.fields), rng.choice([1, 1, 2, 3]))):
                    key = f.alias or f.name
                    c = rng.random()
                    if c < 0.15:
                        d2.pop(key, None)
                    elif has_x(f.ty) and f.ty.kind in ("list", "dict") and c < 0.7 and isinstance(d2.get(key), (list, dict)) and d2.get(key):
                        # one element of the container replaced by junk: the culprit is that element
                        cont = d2[key]
                        if isinstance(cont, list):
                            cont[rng.randrange(len(cont))] = copy.deepcopy(rng.choice(JUNK))
                        else:
                            cont[rng.choice(list(cont))] = copy.deepcopy(rng.choice(JUNK))
                    elif has_x(f.ty) or c < 0.6:
                        d2[key] = copy.deepcopy(rng.choice(JUNK + [[1, "zz", None], {"k": "zz"}, ["a", 1]]))
                    else:
                        d2[key] = tycorr.corrupt(d2.get(key), rng)
                inputs.append(d2)
            inputs.append(copy.deepcopy(rng.choice(CT.WHOLE_JUNK)))
            for d in inputs:
                nailed = rng.random() < 0.5
                fn = cls.from_dict if nailed else dec.decode
                cases.append(dict(kind="class", fam=fam, t=t, ns=ns, spec=spec, nailed=nailed, fn=fn, input=copy.deepcopy(d),
                                  entry="from_dict" if nailed else "BasicDecoder.decode"))
        # codec roots of the same union / literal types
        for f in spec.fields:
            if has_x(f.ty):
                try:
                    rdec = BasicDecoder(gen.resolve(f.ty, ns)).decode
                except Exception:  # noqa: BLE001
                    continue
                for _ in range(4):
                    cases.append(dict(kind="root", fam=fam, t=f.ty, ns=ns, fn=rdec,
                                      input=copy.deepcopy(rng.choice(JUNK + [[1, "zz", None], {"k": "zz"}, ["a", 1], [[1]], {"k": [1, "b"]}])),
                                      entry="BasicDecoder.decode"))
    return cases


def observe(c):
    d = copy.deepcopy(c["input"])
    term, exc, r = CT.res_term(c["fn"], d)
    cx = "None"
    if c["kind"] == "class" and exc is not None:
        if type(exc).__name__ == "InvalidFieldValue":
            cx = (f"(Some (Some {CT.exn_term(exc.__context__, exc.field_value)}))" if exc.__context__ is not None
                  else "(Some None)")
        elif type(exc).__name__ in ("MissingField", "ExtraKeysError"):
            cx = "(Some None)"
    return term, exc, r, cx, d


def xcls_term(spec) -> str:
    fs = []
    for f in spec.fields:
        if f.default is gen.NODEFAULT:
            d = "None"
        elif f.default == "factory:list":
            d = "(Some (VList []))"
        elif f.default == "factory:dict":
            d = "(Some (VDict []))"
        else:
            d = f"(Some {coq_pv(f.default)})"
        fs.append(f"{{| xf_name := {coq_str(f.name)}; xf_ty := {xty_term(f.ty)}; xf_default := {d} |}}")
    return f"{{| xc_name := {coq_str(spec.name)}; xc_fields := [" + "; ".join(fs) + "] |}"


def cf_term(fam) -> str:
    out = "no_cfg"
    for x in fam.classes:
        if x.kind == "data" and (x.config or any(f.alias for f in x.fields)):
            al = "; ".join(f"({coq_str(f.name)}, {coq_str(f.alias)})" for f in x.fields if f.alias is not None)
            cfg = (f"{{| tc_forbid := {'true' if x.config.get('forbid_extra_keys') else 'false'}; "
                   f"tc_nba := {'true' if x.config.get('allow_deserialization_not_by_alias') else 'false'}; "
                   f"tc_alias := [{al}] |}}")
            out = f"(if String.eqb c {coq_str(x.name)} then {cfg} else {out})"
    return f"(fun c : string => {out})"


def emit(cases, shard=120):
    files = []
    for si in range(0, len(cases), shard):
        chunk = cases[si:si + shard]
        tb = CT.ETables()
        envs, defs, lines = {}, [], []
        for c in chunk:
            fam = c["fam"]
            if id(fam) not in envs:
                envs[id(fam)] = f"E_{len(envs)}"
                # the class table holds the classes that are fully inside the grammar (everything but the root)
                names = [x.name for x in fam.classes if x.kind in ("data", "nt", "td") and
                         all(not has_x(f.ty) for f in x.fields)]
                defs.append(f"Definition {envs[id(fam)]} : senv := {coq_senv(fam, names)}.")
                defs.append(f"Definition CF_{envs[id(fam)]} : string -> tcfg := {cf_term(fam)}.")
            en = envs[id(fam)]
            # oracle tables: every member / field type the case can reach
            if c["kind"] == "class":
                for f in c["spec"].fields:
                    for tt in leaf_types(f.ty):
                        tb.add_input(c["input"], tt, fam, c["ns"])
                lines.append(f"XC {en} CF_{en} {'true' if c['nailed'] else 'false'} {xcls_term(c['spec'])} "
                             f"{coq_pv(c['input'])} {c['term']} {c['cx']}")
            else:
                for tt in leaf_types(c["t"]):
                    tb.add_input(c["input"], tt, fam, c["ns"])
                lines.append(f"XR {en} CF_{en} {xty_term(c['t'])} {coq_pv(c['input'])} {c['term']}")
        txt = HEADER + tb.coq() + "\n" + "\n".join(defs) + "\n" + OK_FUN
        txt += "Definition cases : list xcase :=\n  [" + ";\n   ".join(lines) + "].\n"
        txt += "Eval vm_compute in (bad_idx ok cases).\n"
        files.append(txt)
    return files


def run(ctx: vlib.Ctx, n_schemas: int, per_schema: int):
    from harness.props import c05_emit
    with c05_emit.UnionSources() as us:
        cases = make_cases(ctx.rng, n_schemas, per_schema)
    # kernel K19: the union methods the generator produced here vs the translated emission loop (ErrsEmit.v)
    c05_emit.run(ctx, us.sources, cases)
    for c in cases:
        c["term"], exc, r, c["cx"], d_after = observe(c)
        ctx.count(("xtyped", c["kind"], c["entry"], type(exc).__name__ if exc else "ok"))
        ctx.hist("xtyped_outcomes", c["kind"] + ":" + (type(exc).__name__ if exc else "ok"))
        problems = []
        if not gen.same(d_after, c["input"]):
            problems.append(f"input object was modified: {c['input']!r} -> {d_after!r}")
        # direct oracle for Literal positions: an accepted value is one of the listed ones, of the same class
        def lit_ok(t, v):
            return any(type(v) is type(l) and v == l for l in t.extra)
        if exc is None and c["kind"] == "root" and c["t"].kind == "lit" and not lit_ok(c["t"], c["input"]):
            problems.append(f"Literal accepted {c['input']!r}, which is none of {c['t'].extra!r} (result {r!r})")
        if exc is None and c["kind"] == "class" and isinstance(c["input"], dict):
            for f in c["spec"].fields:
                key = f.alias or f.name
                if f.ty.kind == "lit" and key in c["input"] and not lit_ok(f.ty, c["input"][key]) and \
                        not (c["input"][key] is None and f.default is None):
                    problems.append(f"field {f.name}: Literal accepted {c['input'][key]!r}, none of {f.ty.extra!r} "
                                    f"(instance holds {getattr(r, f.name, None)!r})")
        # the union's own InvalidFieldValue (the __context__ of the field's) must carry the offending object itself:
        # the field value or one of the items inside it
        def occurs(obj, cont, depth=0):
            if obj is cont:
                return True
            if depth > 6:
                return False
            if isinstance(cont, dict):
                return any(occurs(obj, x, depth + 1) for x in cont.values()) or any(obj is k for k in cont)
            if isinstance(cont, (list, tuple)):
                return any(occurs(obj, x, depth + 1) for x in cont)
            return isinstance(cont, str) and isinstance(obj, str) and len(obj) == 1 and obj in cont
        if c["kind"] == "class" and c["nailed"] and exc is not None and type(exc).__name__ == "InvalidFieldValue":
            inner = exc.__context__
            fld = next((f for f in c["spec"].fields if f.name == exc.field_name), None)
            if fld is not None and has_x(fld.ty) and type(inner).__name__ == "InvalidFieldValue" and \
                    inner.field_name == exc.field_name and not occurs(inner.field_value, exc.field_value):
                problems.append(f"field {fld.name}: the union's InvalidFieldValue carries {inner.field_value!r}, which is not "
                                f"the offending value nor an item of {exc.field_value!r}")
        # the exception whitelist is about dataclass roots; a container / union codec root raises what its
        # unpacker raises (compared with the model, not judged here)
        allowed = ("ValueError", "MissingField", "InvalidFieldValue", "ExtraKeysError")
        if c["kind"] == "class" and exc is not None and type(exc).__name__ not in allowed:
            problems.append(f"undocumented {type(exc).__name__} escapes: {exc}")
        for what in problems:
            ctx.fail(f"{gen.py_ann(c['t'])} via {c['entry']} <- {c['input']!r}: {what}"[:600],
                     {"entry": "typed:" + ("from_dict" if c["entry"] == "from_dict" else "BasicDecoder.decode"),
                      "schema": {"cls": c["t"].name or c["t"].kind, "source": c["fam"].source()},
                      "type_expr": gen.py_ann(c["t"]), "input_expr": gen.py_src(c["input"]), "observed": what[:300],
                      "outcome": (type(exc).__name__ if exc is not None else gen.py_src(r))[:400],
                      "expected": "documented exception / unmodified input"},
                     {"kind": "xtyped-" + ("input-modified" if "modified" in what else ("literal" if "Literal" in what else ("union-culprit" if "union's InvalidFieldValue" in what else "undocumented"))),
                      "root": c["kind"]})
    br = vlib.coq_make(["theories/ErrsX.vo", "theories/CaseLib.vo", "theories/Wire.vo"])
    if not br.ok:
        return cases, None, "model does not build: " + (br.error or "")
    files = emit(cases)
    res = CT.eval_robust([(f"c05_xtyped_{i}", txt) for i, txt in enumerate(files)], timeout=900, jobs=6)
    bad, shard = [], 120
    for n, (ok, out) in enumerate(res):
        if not ok:
            return cases, None, out[-3000:]
        idx = vlib.parse_nat_list(out)
        if idx is None:
            return cases, None, "unparsable coq output: " + out[-1500:]
        bad.extend(n * shard + i for i in idx)
    return cases, bad, ""
