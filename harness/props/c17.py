"""C17 - generated code is closed and binds every type by identity.

1. theorems (coq/props/C17_closed.v): soundness of the closedness analysis, setdefault binding
2. tie, on every run: every captured program is translated fail-closed to the Coq AST and the
   kernel checks `check_closed ns_i p_i = true` for it (one .v file per shard); clean_id model
   vs implementation
3. oracle on the real implementation (always): bytecode-level name resolution, module/class
   attribute chains, holder attributes, identity of decoded classes, executed error paths."""
from __future__ import annotations

import builtins
import json
import os
import shutil
import subprocess
import sys
import time

from harness import vlib
from harness import c17_translate

PY = sys.executable
SCRATCH = os.path.join(vlib.VERIF, ".scratch", "c17")


def _spawn(seed, family, start, end, exercise, outp):
    env = dict(os.environ)
    return subprocess.Popen([PY, "-m", "harness.c17_worker", str(seed), family, str(start), str(end), str(exercise), outp],
                            cwd=vlib.VERIF, env=env, stdout=subprocess.DEVNULL, stderr=subprocess.PIPE, text=True)


def run_family(ctx, family: str, n: int, exercise: int, jobs: int, batch: int, per_schema_timeout: float):
    """-> (results, skipped) ; schemas that hang (library loops, not C17) are skipped and counted"""
    os.makedirs(SCRATCH, exist_ok=True)
    todo = [(s, min(s + batch, n)) for s in range(0, n, batch)]
    results: dict[int, dict] = {}
    skipped: list[int] = []
    running = []
    while todo or running:
        while todo and len(running) < jobs:
            s, e = todo.pop(0)
            outp = os.path.join(SCRATCH, f"{family}_{ctx.seed}_{s}_{e}.json")
            if os.path.exists(outp):
                os.remove(outp)
            running.append((s, e, outp, _spawn(ctx.seed, family, s, e, exercise, outp), time.time()))
        still = []
        for s, e, outp, p, t0 in running:
            rc = p.poll()
            timed_out = rc is None and time.time() - t0 > per_schema_timeout * (e - s) + 20
            if rc is None and not timed_out:
                still.append((s, e, outp, p, t0))
                continue
            if timed_out:
                p.kill()
                p.wait()
            got = []
            if os.path.exists(outp):
                try:
                    got = json.load(open(outp))
                except Exception:
                    got = []
            for r in got:
                results[r["idx"]] = r
            done = {r["idx"] for r in got}
            missing = [i for i in range(s, e) if i not in done]
            if missing:
                if timed_out or rc != 0:
                    # the first missing schema is the one that hung / crashed the worker
                    bad = missing[0]
                    if timed_out:
                        skipped.append(bad)
                    else:
                        err = (p.stderr.read() if p.stderr else "")[-1500:]
                        results[bad] = {"idx": bad, "crash": f"worker exit {rc}: {err}", "findings": [], "programs": [], "tags": [],
                                        "defloc": "?", "calls": 0, "errors_seen": {}, "info": [], "attr_reads": [], "attr_sets": [],
                                        "build_error": None, "module": "?"}
                    rest = [i for i in missing if i != bad]
                    if rest:
                        todo.insert(0, (rest[0], rest[-1] + 1))
        running = still
        if running:
            time.sleep(0.05)
    return [results[i] for i in sorted(results)], skipped


BUILTIN_NAMES = sorted(dir(builtins))


def run(ctx: vlib.Ctx):
    ctx.coverage["rule"] = (
        "schemas are generated as self-contained Python modules: family 'grammar' walks the whole type grammar of pack.py/unpack.py "
        "(scalars, bytes, datetime family, zoneinfo, uuid, Decimal/Fraction, ipaddress, pathlib/PathLike, Pattern, all enum kinds, NewType, Literal, "
        "list/Sequence/deque/set/frozenset/tuples incl. Unpack, NamedTuple (4 forms), dict/Mapping/OrderedDict/defaultdict/MappingProxyType/Counter/ChainMap, "
        "TypedDict (4 forms), Optional/Union/PEP604/Final/Annotated, nested/inherited/generic/self-referencing/forward-referencing dataclasses, "
        "SerializableType (3 forms), serialization strategies, pass_through, field options, hooks, discriminators (4 forms), every Config option and "
        "code-generation flag, dialects, all six mixins and all six codecs; classes defined at module level, inside a function, or by the functional API); "
        "family 'latename' puts a reference back to the class under construction (Self, its own name, a mutually recursive class) inside every "
        "construct that is compiled as a separate helper function (non-Optional unions, containers of unions, constrained TypeVars, discriminated "
        "unions, literals next to unions, nested holders) x mixin / codec (not nailed) / both x module / function scope, and demands an exact round trip; "
        "family 'multimod' spreads a schema over several user packages: same-named classes (incl. names living in the builder's namespace: Field, "
        "Alias, Dialect, Sentinel, ...) in different modules as fields of one holder; a generic base with a bare / wrapped TypeVar field whose "
        "argument comes from a foreign top-level package mentioned nowhere else; SerializableType / SerializationStrategy with use_annotations whose "
        "string annotations name user classes bare or through user module objects called types / enum / typing / math / ... ; ONE generic dataclass "
        "(one or two TypeVars) specialised with the same-named classes of two modules, in both argument orders, for two fields of one holder or two "
        "holders compiled one after the other, at container depth <= 3; x import style x "
        "mixin / codec; every such schema must build, round-trip exactly and bind the annotated classes; "
        "family 'defaults' gives omit_default classes (Config / Config.dialect / call-time dialect / codec default_dialect) default values the "
        "generated text has to mention: tuples, 1-tuples, nested, variable and optional tuples holding Paths, IP addresses, UUID, Decimal, Fraction, "
        "dates, Enum and Flag members, arbitrary objects, named tuples, dataclass instances, frozensets, lists, dicts, NaN, via default and "
        "default_factory, mixin and codec, module and function scope (exact round trip demanded); "
        "family 'identity' instantiates the adversarial shapes the property names (same-qualname local classes, clean_id collisions, functional "
        "Enum/NamedTuple/make_dataclass in a function, bogus __module__, re-bound names, MappingProxyType, defaultdict of a local class, pairs of local "
        "(or nested local) classes whose distinct names differ only in non-ASCII letters, class and "
        "module names shadowing names used by generated code) x class kind x position x entry point. Every schema is built under capture, every "
        "entry point is run on a valid value and on wire values with one position replaced by junk / deleted (error paths). "
        "distinct = distinct generated program texts (modulo uuid suffixes) + distinct schema tag sets; quantification over schemas is by sampling, "
        "over inputs and paths of each captured program by proof.")
    t_start = time.time()

    # ---- 1. theorems
    ctx.theorems("props/C17_closed.vo", ["C17_closed_sound", "C17_attrs_closed_sound", "C17_binding_partial", "C17_same_name_refuted",
                                          "C17_binding_refuted", "C17_clean_id_refuted", "C17_shard_sound", "C17_binding", "C17_first_import_wins_refuted",
                                          "C17_prepopulated_refuted", "C17_not_at_qualname_refuted", "C17_local_root_refuted",
                                          "C17_binding_chain_refuted", "C17_binding_ok_sound", "C17_assembly_ok_sound", "C17_render_named", "C17_render_chain"])
    ctx.theorems("props/C17_typeref.vo", ["C17_type_ident_local", "C17_type_ident_nonlocal", "C17_type_ident_alias_is_text",
                                           "C17_type_ident_chain_partial", "C17_type_ident_chain_refuted", "C17_local_rendering_not_chain",
                                           "C17_typeref_sites_partial", "C17_typeref_sites_refuted", "C17_typeref_known_raw_witnesses",
                                           "C17_collection_typerefs_are_identifiers", "C17_generic_serializable_typerefs_are_identifiers", "C17_class_reference_is_chain", "C17_local_class_alias",
                                           "C17_clean_id_model_is_kernel", "C17_local_render_is_type_ident", "C17_local_alias_binding_partial",
                                           "C17_local_alias_binding_refuted"], kernels=["K42", "K44"])
    ctx.theorems("props/C17_imports.vo", ["C17_imports_cover_partial", "C17_imports_cover_refuted", "C17_visited_imports", "C17_chain_root_is_package",
                                           "C17_chain_root_resolves"], kernels=["K46"])
    ctx.theorems("props/C17_speckey.vo", ["C17_spec_key_identity", "C17_short_key_refuted", "C17_spec_key_modules"], kernels=["K11"])
    ctx.coqchk(["VerifProps.C17_closed", "VerifProps.C17_cleanid", "VerifProps.C17_typeref", "VerifProps.C17_imports", "VerifProps.C17_speckey"], timeout=2400)
    ctx.trusted += [
        "harness/c17_translate.py: Python ast -> Closed.v AST (fail-closed; interning of names is injective by construction); "
        "the abstraction itself: expressions = tree of loaded names, attribute access / calls / operators never bind names",
        "Closed.v semantics as a model of CPython name resolution: function locals = parameters + every bound name (LOAD_FAST, no fall-through), "
        "comprehension targets in their own scope with the first iterable outside, module level code LOAD_NAME (locals dict, globals, builtins), "
        "`except .. as x` unbinds x on exit; generated code contains no global/nonlocal/del/with/while/lambda/nested def/walrus/generator expression "
        "(the translator rejects them)",
        "harness capture: rebinding the module global `exec` of builder/pack/unpack/common sees every generated program and its exact globals "
        "(checked each run: no other exec/eval call site in the package)",
        "the namespace of a program is fn.__globals__ of the function objects it defined (not the dict the builder keeps), snapshotted when the "
        "schema's build (or the call that compiled lazily) returns, and checked again at the end for every function reachable from the entry points; "
        "it only grows afterwards (setdefault never removes)",
        "harness/c17_run.py program_world / program_assembly: extraction of the object model (which objects the chains touch, recorded imports via "
        "run-time rebinding of CodeBuilder.ensure_object_imported / ensure_module_imported) and its serialisation into the shard files",
        "harness/c17_render.py: independent reading of typing objects into Render.rty (types outside the grammar - TypeVar, Unpack, ForwardRef, "
        "Callable - are skipped and counted); Render.render is compared with mashumaro's type_name on every field annotation of every generated "
        "schema and with the text of the generated MissingField paths / defaultdict factories",
        "kernel K42 (tools/kernels/k42_clean_id.py): the regular expression \\W|^(?=\\d) is read as a character map after checking that the pattern "
        "text and the body of clean_id are exactly the expected ones (fail closed); the \\w / \\d tables below code point 0x3000 come from Python's re "
        "with the pattern read from the source and are validated against the real clean_id exhaustively on every run; code points >= 0x3000 are outside the kernel",
        "kernel K44 (tools/kernels/k44_type_ident.py): get_type_name_identifier / is_local_type_name are read after checking that their bodies are exactly "
        "the expected ones (fail closed; marker string read from the source), as a function of the rendering type_name(typ); compared per run with the real "
        "method (text pasted + object registered + alias) on every class and field annotation of the generated schemas. The table of type reference sites is "
        "an AST scan by NAME (type_name / get_type_name_identifier / clean_id must not be aliased: checked) whose classification rules (build-time raise, "
        "print, `!r`-only variable, statically quoted text, clean_id(..) wrapper, argument kinds of the raw sites) are the trusted part; a rendering that "
        "reaches generated code through a variable is followed one assignment only when it is an f-string spliced by `!r`, otherwise the call site itself is judged",
        "kernel K46 (tools/kernels/k46_type_modules.py): add_type_modules / ensure_module_imported / ensure_object_imported read after checking that their "
        "bodies are exactly the expected ones (fail closed), as a function of what the method reads from a type (harness/c17_imports.py to_mty: origin is "
        "MappingProxyType, name of inspect.getmodule(t), is Literal, literal values / __args__ / __constraints__ / __bound__, recursively; Annotated and "
        "deeper than 7 levels skipped); compared per run with the real methods run on a recording globals (sequence of setdefault calls, module objects "
        "checked against sys.modules) on the field annotations of the generated schemas",
        "NsBind.clean_id models re.sub(r'\\W|^(?=\\d)', '_', s) for ASCII input only (compared with the implementation each run)",
    ]
    ctx.assumptions += [
        "quantification over schemas is by sampling (generated schemas of the stated grammar); for each captured program the closedness statement is "
        "proved for all inputs and all paths",
        "closedness = no NameError/UnboundLocalError and no AttributeError on a module / class / holder of the captured namespace: attribute chains rooted "
        "at a global are resolved in the model against the captured objects (Closed.world: kind + attribute table per object, existence by real getattr when "
        "the entry point becomes callable); chains rooted at a parameter/local are dynamic (input's business) and only covered by the attribute-name inclusion",
        "stated exception: a generated attribute read by a lazy stub (def f: CodeBuilder(..).add_..(); return x.f(..)) that was never called is recorded as "
        "installed by the preceding CodeBuilder call",
        "identity binding per program is judged for the renderings the harness re-states independently (module.qualname chain, clean_id alias) of the schema "
        "classes; an alias bound to the Annotated[...] form of the annotation or to the pre-slots original of a dataclass(slots=True) counts as that class",
    ]

    # ---- capture sanity
    from harness import c17_run
    outside = c17_run.exec_sites_outside_capture()
    ctx.obligation("capture covers every exec/eval site of the package", not outside, str(outside))
    if outside:
        ctx.not_shown("capture-coverage", f"exec/eval call sites outside the captured modules: {outside}")

    # ---- clean_id model vs implementation (M)
    clean_id_corr(ctx)

    # ---- 2+3. run the schemas in worker processes
    thorough = not ctx.quick()
    # (resource rule of the shared machine: at most 6 concurrent workers / coqc also in the thorough tier; budgets sized for that:
    #  two thorough runs with 2600 / 1300 grammar schemas were killed by the machine-wide OOM killer in round 6)
    n_grammar = ctx.budget(120, 500)
    n_ident = ctx.budget(48, 140)
    jobs = 4 if ctx.quick() else 6
    res_g, skip_g = run_family(ctx, "grammar", n_grammar, ctx.budget(24, 40), jobs, ctx.budget(10, 25), 8.0)
    res_i, skip_i = run_family(ctx, "identity", n_ident, ctx.budget(12, 20), jobs, ctx.budget(10, 20), 8.0)
    res_l, skip_l = run_family(ctx, "latename", ctx.budget(40, 150), ctx.budget(12, 20), jobs, ctx.budget(10, 25), 8.0)
    res_m, skip_m = run_family(ctx, "multimod", ctx.budget(50, 150), ctx.budget(10, 16), jobs, ctx.budget(10, 25), 8.0)
    res_d, skip_d = run_family(ctx, "defaults", ctx.budget(30, 100), ctx.budget(10, 16), jobs, ctx.budget(10, 25), 8.0)
    skip_i = skip_i + skip_l + skip_d + skip_m
    if skip_g or skip_i:
        ctx.notes.append(f"schemas skipped because a call did not return in time (library loops on some inputs; not a C17 matter): grammar {skip_g}, identity {skip_i}")
    ctx.hist("schemas", "skipped-timeout", len(skip_g) + len(skip_i))

    all_res = [("grammar", r) for r in res_g] + [("identity", r) for r in res_i] + [("latename", r) for r in res_l] + [("defaults", r) for r in res_d] + [("multimod", r) for r in res_m]
    reach = sum(r.get("reachable", 0) for _, r in all_res)
    unknown = sum(r.get("unknown_fns", 0) for _, r in all_res)
    ctx.hist("functions", "reachable-from-entry-points(checked against fn.__globals__)", reach)
    ctx.hist("functions", "reachable-but-not-captured", unknown)
    ctx.hist("programs", "exec-namespace-is-not-builder.globals", sum(r.get("ns_not_builder", 0) for _, r in all_res))
    ctx.obligation("every generated function reachable from an entry point was created by a captured exec", unknown == 0, f"{unknown} of {reach}")
    if unknown:
        ctx.not_shown("capture-completeness", f"{unknown} reachable generated functions were not created by a captured exec call")
    programs = []          # (family, schema idx, program dict)
    attr_cases = []
    texts = set()
    import re
    hexre = re.compile(r"[0-9a-f]{32}|attrs_\d+|attrs_registry_\d+|v_[0-9a-f]{32}")
    n_fail = 0
    for fam, r in all_res:
        if r.get("crash"):
            ctx.not_shown(f"harness crashed on schema {fam}/{r['idx']}", r["crash"])
            continue
        ctx.hist("schemas", fam + (":rejected-by-library" if r["build_error"] and not r["findings"] else ":built"))
        ctx.hist("defloc", r["defloc"])
        for t in r["tags"]:
            ctx.hist("tags", t)
        for k, v in r["errors_seen"].items():
            ctx.hist("exceptions-on-error-paths", k, v)
        ctx.count(("tags", fam, tuple(r["tags"])), n=r["calls"])
        for p in r["programs"]:
            norm = hexre.sub("#", p["code"])
            texts.add(norm)
            programs.append((fam, r["idx"], p))
        if r["attr_reads"] or r["attr_sets"]:
            attr_cases.append((fam, r["idx"], r["attr_reads"], r["attr_sets"]))
        for f in r["findings"]:
            n_fail += 1
            report_failure(ctx, fam, r, f)
    for t in texts:
        ctx.count(("prog", hash(t)), n=0)
    ctx.hist("programs", "captured", len(programs))
    ctx.hist("programs", "distinct-modulo-uuid", len(texts))

    # ---- type_name model vs implementation, and vs the text of the generated error paths
    render_corr(ctx, all_res)
    k44_corr(ctx, all_res)
    k46_corr(ctx, all_res)
    speckey_corr(ctx, all_res)

    # ---- per-program kernel-checked closedness (translation validation)
    t_workers = time.time() - t_start
    t1 = time.time()
    coq_programs(ctx, programs, attr_cases, all_res)
    ctx.notes.append(f"phase times: theorems+schemas {t_workers:.0f} s, translation + shard compilation {time.time() - t1:.0f} s (load {os.getloadavg()[0]:.0f})")

    for fam, r in all_res[:3]:
        if r["programs"]:
            ctx.sample({"family": fam, "schema": r["idx"], "tags": r["tags"][:12], "programs": len(r["programs"]),
                        "first_program": r["programs"][-1]["code"][:600]})
    shutil.rmtree(SCRATCH, ignore_errors=True)


def schema_source(seed: int, family: str, idx: int) -> dict:
    from harness import c17_worker
    return c17_worker.schema_for(seed, family, idx)


def report_failure(ctx, fam, r, f):
    s = schema_source(ctx.seed, fam, r["idx"])
    replay = {"entry": "c17-schema", "family": fam, "schema_idx": r["idx"], "schema_seed": ctx.seed, "schema_module": s["module"],
              "schema_src": s["src"], "schema_aux": s.get("aux", []), "must_build": s.get("must_build", False), "finding_kind": f["kind"], "finding_name": f.get("name"), "call": f.get("entry"), "input": f.get("input"),
              "observed": f["what"], "expected": "no NameError/AttributeError/SyntaxError of the library's own making; decoded objects are instances of the annotated class",
              "program": f.get("program")}
    ctx.fail(f"{f['kind']}: {f['what'][:200]} [schema {fam}/{r['idx']}, {r['defloc']}]", replay, f["signature"])


KF_UNRESOLVED_CAUSES = {"builtins-module-class", "class-module-not-importable"}


def coq_programs(ctx, programs, attr_cases, all_res):
    """one .v file per shard: bad_idx case_ok cases = [] by vm_compute (kernel-checked)"""
    # programs whose unresolved globals are completely explained by a reported failure are left out of
    # the proof obligation (they are reported through ctx.fail / KNOWN-FINDING, never silently)
    explained: dict[tuple, set] = {}
    for fam, r in all_res:
        for f in r.get("findings", []):
            if f["signature"].get("kind") in ("unresolved-name", "unresolved-attr") or f["kind"] == "static-holder-attr":
                explained.setdefault((fam, r["idx"]), set()).add(f.get("name"))
    syntax_reported = {(fam, r["idx"]) for fam, r in all_res for f in r.get("findings", [])
                       if f["signature"].get("kind") == "generated-syntax-error"}
    todo = []
    left_out = 0
    for fam, idx, p in programs:
        un = set(p["unres"]) | set(p.get("chains_unres", []))
        if un and un <= explained.get((fam, idx), set()):
            left_out += 1
            continue
        if (fam, idx) in syntax_reported and not _compiles(p["code"]):
            left_out += 1
            continue
        todo.append((fam, idx, p))
    ctx.hist("programs", "left-out-of-proof(reported-as-failure)", left_out)
    heaps = {(fam, r["idx"]): r.get("heap", []) for fam, r in all_res}
    br = vlib.coq_make(["theories/Wire.vo", "theories/ClosedProofs.vo", "theories/Binding.vo"])
    if not br.ok:
        ctx.not_shown("closedness proofs", "model does not build: " + (br.error or ""))
        return
    shard = 250
    files = []
    meta = []
    untranslated_total = []
    for si in range(0, len(todo), shard):
        chunk = todo[si:si + shard]
        # holder attribute cases of the schemas in this chunk ride along with the first shard that has them
        keys = {(fam, idx) for fam, idx, _ in chunk}
        acs = [(reads, sets) for fam, idx, reads, sets in attr_cases if (fam, idx) in keys and not getattr(coq_programs, "_seen", set()) & {(fam, idx)}]
        seen = getattr(coq_programs, "_seen", set())
        seen |= keys
        coq_programs._seen = seen
        txt, ok_idx, info = c17_translate.shard_file([dict(p, schema=(fam, idx)) for fam, idx, p in chunk], acs, BUILTIN_NAMES, heaps)
        for i, why in info["untranslated"].items():
            untranslated_total.append((chunk[i][0], chunk[i][1], why, chunk[i][2]["code"]))
        files.append((f"c17_closed_{ctx.seed}_{si // shard}", txt))
        meta.append((chunk, ok_idx, [(fam, idx) for fam, idx, reads, sets in attr_cases if (fam, idx) in keys], info))
    coq_programs._seen = set()
    jobs = 6
    res = coqc_many(files, timeout=900, jobs=jobs)
    # green shards: the kernel accepted `shard_closed`; for the others compile the diagnosis variant to learn which cases fail
    redo = [k for k, (ok, out) in enumerate(res) if not ok]
    if redo:
        res2 = coqc_many([(files[k][0] + "_diag", meta[k][3]["diag"]) for k in redo], timeout=900, jobs=jobs)
        for k, r2 in zip(redo, res2):
            res[k] = (False, r2[1])
    n_ok = 0
    bad_programs = []
    bad_attrs = []
    n_bind = n_notinj = n_asm = 0
    bad_bind = []
    bad_asm = []
    for (name, _), (ok, out), (chunk, ok_idx, akeys, info) in zip(files, res, meta):
        lists = _parse_lists(out)
        if ok and len(lists) == 1:
            lists = [[], [], [], lists[0], []]       # accepted by the kernel; only the out-of-domain count is printed
        if len(lists) < 5:
            ctx.not_shown(f"closedness shard {name}", "coqc failed: " + out[-1500:])
            continue
        n_bind += len(info["bkeys"])
        n_notinj += len(lists[3])
        n_asm += len(info["askeys"])
        for j in lists[2]:
            fam, idx, p = chunk[info["bkeys"][j]]
            bad_bind.append((fam, idx, p))
        for j in lists[4]:
            fam, idx, p = chunk[info["askeys"][j]]
            bad_asm.append((fam, idx, p))
        for j in lists[0]:
            fam, idx, p = chunk[ok_idx[j]]
            bad_programs.append((fam, idx, p["code"]))
        for j in lists[1]:
            bad_attrs.append(akeys[j] if j < len(akeys) else ("?", j))
        n_ok += len(ok_idx) - len(lists[0])
        if not ok and not any(lists[k] for k in (0, 1, 2, 4)):
            ctx.not_shown(f"closedness shard {name}", "coqc failed: " + out[-1500:])
    ctx.correspondence("per-program kernel-checked closedness (check_closed ns_i p_i = true)", len(todo), len(bad_programs) + len(untranslated_total),
                       f"shards={len(files)} accepted={n_ok} rejected={len(bad_programs)} untranslated={len(untranslated_total)}")
    ctx.obligation("every captured program is inside the translated subset", not untranslated_total,
                   "; ".join(f"{fam}/{idx}: {why}" for fam, idx, why, _ in untranslated_total[:5]))
    ctx.obligation("check_closed = true for every captured program (vm_compute, per shard)", not bad_programs and len(files) > 0,
                   f"{len(bad_programs)} rejected")
    ctx.obligation("holder attributes read are installed (attrs_closed = true per schema)", not bad_attrs, str(bad_attrs[:5]))
    ctx.correspondence("identity binding over the captured namespaces (inj_ok -> binding_ok, per program that mentions a schema class)", n_bind,
                       len(bad_bind), f"programs outside the domain of C17_binding (two schema classes with one rendering, or a root name the builder module already owns): {n_notinj}")
    ctx.obligation("binding_ok = true wherever renderings are injective (vm_compute, per shard)", not bad_bind,
                   "; ".join(f"{fam}/{idx}" for fam, idx, _ in bad_bind[:6]))
    ctx.correspondence("namespace assembly: setdefault model over the recorded imports vs fn.__globals__ (assembly_ok)", n_asm, len(bad_asm),
                       "; ".join(f"{fam}/{idx}" for fam, idx, _ in bad_asm[:6]))
    ctx.obligation("assembly_ok = true for every captured namespace (vm_compute, per shard)", not bad_asm, f"{len(bad_asm)} mismatching")
    for fam, idx, p in bad_bind[:4]:
        ctx.not_shown(f"identity binding in a program of schema {fam}/{idx}",
                      f"a rendered chain does not reach the schema class it was rendered from: expectations {p.get('expect')} globals {p.get('glob_f')}\n" + p["code"][:1500])
    for fam, idx, p in bad_asm[:4]:
        a = p.get("assembly") or {}
        real = dict(a.get("real", []))
        miss = [n for n, _ in a.get("imps", []) if n not in real]
        ctx.not_shown(f"namespace assembly of a program of schema {fam}/{idx}",
                      f"the function's real __globals__ differ from setdefault over the builder's imports; imported names missing from fn.__globals__: {sorted(set(miss))[:8]}\n" + p["code"][:1200])
    for fam, idx, why, code in untranslated_total[:5]:
        ctx.not_shown(f"closedness of a program of schema {fam}/{idx}", f"outside the translated subset ({why}):\n{code[:1500]}")
    for fam, idx, code in bad_programs[:8]:
        ctx.notes.append(f"check_closed=false for a program of schema {fam}/{idx}: " + code[:3000])
    for fam, idx, code in bad_programs[:5]:
        ctx.not_shown(f"closedness of a program of schema {fam}/{idx}",
                      "check_closed = false: some path loads a name that is unbound / not in the namespace:\n" + code[:2500])
    for k in bad_attrs[:5]:
        ctx.not_shown(f"holder attributes of schema {k}", "a generated attribute is read that no captured program installs")


def coqc_many(named: list[tuple[str, str]], timeout: int, jobs: int) -> list[tuple[bool, str]]:
    """compile case files in parallel; output goes to files (a failing lemma can print more than a pipe buffer holds)"""
    os.makedirs(vlib.CASES, exist_ok=True)
    results: list = [None] * len(named)
    pending = list(enumerate(named))
    running = []
    while pending or running:
        while pending and len(running) < jobs:
            i, (name, vtext) = pending.pop(0)
            with open(os.path.join(vlib.CASES, f"{name}.v"), "w") as f:
                f.write(vtext)
            logp = os.path.join(vlib.CASES, f"{name}.log")
            lf = open(logp, "w")
            p = subprocess.Popen(["timeout", str(timeout), "coqc"] + vlib.COQ_FLAGS + [os.path.join("cases", f"{name}.v")],
                                 cwd=vlib.COQ, stdout=lf, stderr=subprocess.STDOUT)
            running.append((i, p, lf, logp))
        still = []
        for i, p, lf, logp in running:
            if p.poll() is None:
                still.append((i, p, lf, logp))
            else:
                lf.close()
                with open(logp, errors="replace") as f:
                    out = f.read()
                results[i] = (p.returncode == 0, out[-20000:] if p.returncode == 0 else out[:6000] + "\n...\n" + out[-6000:])
                for ext in (".log", ".vo", ".vok", ".vos", ".glob"):
                    try:
                        os.remove(os.path.join(vlib.CASES, named[i][0] + ext))
                    except OSError:
                        pass
        running = still
        if running:
            time.sleep(0.05)
    return [r if r is not None else (False, "not run") for r in results]


def _compiles(code: str) -> bool:
    try:
        compile(code, "<string>", "exec")
        return True
    except SyntaxError:
        return False


def _parse_lists(out: str) -> list[list[int]]:
    import re
    res = []
    for m in re.finditer(r"=\s*(\[[^\]]*\])\s*(?:%nat)?\s*:\s*list nat", out, re.S):
        body = m.group(1).strip()[1:-1].strip()
        res.append([int(x.replace("%nat", "").strip()) for x in body.split(";")] if body else [])
    return res


def render_corr(ctx, all_res):
    cases = []
    checked = 0
    missing = []
    for fam, r in all_res:
        for term, exp in r.get("render_cases", []):
            cases.append((term, exp))
        rc = r.get("render_contain") or {}
        checked += rc.get("checked", 0)
        missing += [f"{fam}/{r['idx']} {m}" for m in rc.get("missing", [])]
    cs = list(dict.fromkeys(cases))
    ctx.hist("render", "annotations-read", len(cases))
    bad, log = vlib.coq_bad_idx(f"c17_render_{ctx.seed}", "Render", "", "", [f"({t}, {vlib.coq_str(e)})" for t, e in cs],
                                "fun c => String.eqb (render false (fst c)) (snd c)", "rty * string", shard=700, needs=["theories/Render.vo"])
    name = "Render.render (model of type_name) vs mashumaro type_name on the field annotations of the generated schemas"
    if bad is None:
        ctx.correspondence(name, len(cs), -1, log)
        ctx.not_shown("correspondence type_name model", log)
    else:
        ctx.correspondence(name, len(cs), len(bad), "; ".join(cs[i][1] for i in bad[:6]))
        if bad:
            ctx.not_shown("correspondence type_name model", "model and implementation render differently: " + "; ".join(f"{cs[i][1]!r} <- {cs[i][0][:200]}" for i in bad[:5]))
    ctx.correspondence("the rendering occurs verbatim (or through clean_id) in the MissingField path of the generated from_dict of every required field, and as the factory of every DefaultDict field",
                       checked, len(missing), "; ".join(missing[:6]))
    ctx.obligation("generated error paths contain the modelled rendering of the field type", not missing, "; ".join(missing[:6]))
    if missing:
        ctx.not_shown("rendering in generated error paths", "; ".join(missing[:10]))
    ctx.count(n=len(cs))


def speckey_corr(ctx, all_res):
    """the key of a generic specialisation: model md5(",".join(Render.render arg)) (C17SpecKey.spec_key) vs the real hash_type_args on
    every specialisation G[args] of a generic dataclass in the field annotations of the generated schemas; and, within one schema,
    two specialisations of one generic class with different argument OBJECTS never share the real key (a shared key means the second
    one reuses the function compiled for - and bound to the classes of - the first)"""
    import hashlib
    cases, labels = [], []
    hash_bad, shared = [], []
    n_spec = n_pairs = 0
    for fam, r in all_res:
        scs = r.get("spec_cases") or []
        for g, terms, real, ids, reprs, joined in scs:
            n_spec += 1
            if hashlib.md5(joined.encode()).hexdigest() != real:
                hash_bad.append(f"{fam}/{r['idx']} {g}[{', '.join(reprs)}]: hash_type_args = {real}, model md5({joined!r}) = {hashlib.md5(joined.encode()).hexdigest()}")
            if terms is not None:
                c = f"([{'; '.join(terms)}], {vlib.coq_str(joined)})"
                if c not in cases:
                    cases.append(c)
                    labels.append(f"{g}[{joined}]")
        for i in range(len(scs)):
            for j in range(i + 1, len(scs)):
                a, b = scs[i], scs[j]
                if a[0] == b[0] and a[3] != b[3]:
                    n_pairs += 1
                    if a[2] == b[2]:
                        shared.append(f"{fam}/{r['idx']} {a[0]}[{', '.join(a[4])}] and {b[0]}[{', '.join(b[4])}] share the key {a[2]}")
    ctx.hist("spec-key", "specialisations-of-generic-dataclasses", n_spec)
    ctx.hist("spec-key", "pairs-with-different-argument-objects", n_pairs)
    ctx.correspondence("real hash_type_args(args) = md5 of the modelled key text, on every specialisation of a generic dataclass in the generated schemas",
                       n_spec, len(hash_bad), "; ".join(hash_bad[:4]))
    ctx.obligation("the key of a generic specialisation is md5(','.join(rendered argument names))", not hash_bad, "; ".join(hash_bad[:4]))
    if hash_bad:
        ctx.not_shown("specialisation key model", "; ".join(hash_bad[:6]))
    ctx.obligation("two specialisations of one generic dataclass with different argument classes never share a key", not shared, "; ".join(shared[:4]))
    if shared:
        ctx.not_shown("specialisation key identity", "the second specialisation reuses the function bound to the classes of the first: " + "; ".join(shared[:6]))
    bad, log = vlib.coq_bad_idx(f"c17_speckey_{ctx.seed}", "Render SpecKey C17SpecKey", "", "", cases,
                                "fun c => String.eqb (SpecKey.join (key_names (fst c))) (snd c)", "list rty * string", shard=700,
                                needs=["theories/C17SpecKey.vo"])
    name = "C17SpecKey.key_names/join (model of the text hashed by hash_type_args) vs ','.join(type_name(arg)) on the specialisations of the generated schemas"
    if bad is None:
        ctx.correspondence(name, len(cases), -1, log)
        ctx.not_shown("correspondence specialisation key text", log)
    else:
        ctx.correspondence(name, len(cases), len(bad), "; ".join(labels[i] for i in bad[:6]))
        if bad:
            ctx.not_shown("correspondence specialisation key text", "; ".join(labels[i] for i in bad[:6]))
    ctx.count(n=len(cases))


def clean_id_corr(ctx):
    import random
    from mashumaro.core.meta.types.common import clean_id
    rng = random.Random(f"c17-cleanid-{ctx.seed}")
    alphabet = "abzAZ09_.<>-[], '\"\\/:+*()!~\x7f\x01"
    strs = ["", "_", "1", "9a", "a.b", "m.A_B", "m.A.B", "m.f.<locals>.K", "typing.List[int]", " ", "0", "a b", "Z_9"]
    for _ in range(ctx.budget(300, 3000)):
        strs.append("".join(rng.choice(alphabet) for _ in range(rng.randrange(0, 12))))
    cases = [f"({vlib.coq_str(s)}, {vlib.coq_str(clean_id(s))})" for s in strs]
    bad, log = vlib.coq_bad_idx("c17_cleanid", "NsBind", "", "", cases, "fun c => String.eqb (clean_id (fst c)) (snd c)",
                                "string * string", shard=1700, needs=["theories/NsBind.vo"])
    if bad is None:
        ctx.correspondence("clean_id-model-vs-implementation", len(cases), -1, log)
        ctx.not_shown("correspondence clean_id", log)
    else:
        ctx.correspondence("clean_id-model-vs-implementation", len(cases), len(bad), str([strs[i] for i in bad[:10]]))
        if bad:
            ctx.not_shown("correspondence clean_id", f"inputs {[strs[i] for i in bad[:10]]}")
    ctx.count(n=len(cases))
    k42_corr(ctx)


def k42_corr(ctx):
    """translated kernel K42 (clean_id as a character map) vs the real clean_id: every code point below 0x3000 alone (thorough: also
    after a letter and in front of a digit), plus random strings"""
    import random
    from mashumaro.core.meta.types.common import clean_id
    ctx.theorems("props/C17_cleanid.vo", ["C17_clean_id_identifier", "C17_clean_id_length", "C17_clean_id_kernel_refuted"], kernels=["K42"])
    if not ctx.kernel_report.get("K42", {}).get("ok"):
        return
    rng = random.Random(f"c17-k42-{ctx.seed}")
    strs = []
    for cp in range(0x3000):
        strs.append(chr(cp))          # alone: decides both tables (digit: "_" + c, other word character: c, non-word: "_")
        if not ctx.quick():
            strs.append("a" + chr(cp))
            strs.append(chr(cp) + "1")
    alphabet = "abzAZ09_.<>-[], '\"\\/:+*()!~\x7f\x01\u00b2\u00e9\u0660\u0966\u2160\u2028\u00aa\u0300\u2f00"
    for _ in range(ctx.budget(400, 4000)):
        strs.append("".join(rng.choice(alphabet) for _ in range(rng.randrange(0, 10))))

    def lst(x):
        return "[" + "; ".join(str(ord(ch)) for ch in x) + "]%N"
    cases = [f"({lst(x)}, {lst(clean_id(x))})" for x in strs]
    bad, log = vlib.coq_bad_idx(f"c17_k42_{ctx.seed}", "", "From VerifGen Require Import K42.", "", cases,
                                "fun c => if list_eq_dec N.eq_dec (K42.clean_id (fst c)) (snd c) then true else false",
                                "list N * list N", shard=7000, needs=["gen/K42.vo"])
    name = "K42 (clean_id translated as a character map) vs mashumaro clean_id: all code points below 0x3000 + random strings"
    if bad is None:
        ctx.correspondence(name, len(cases), -1, log)
        ctx.not_shown("translation validation K42", log)
    else:
        ctx.correspondence(name, len(cases), len(bad), str([strs[i] for i in bad[:8]]))
        if bad:
            ctx.not_shown("translation validation K42", f"inputs {[strs[i] for i in bad[:8]]!r}")
    ctx.count(n=len(cases))


def k44_corr(ctx, all_res):
    """translated kernel K44 (get_type_name_identifier as a function of the rendering) vs the real method on the classes and field
    annotations of the generated schemas, plus synthetic renderings around the marker"""
    import random
    from mashumaro.core.meta.helpers import is_local_type_name
    from mashumaro.core.meta.types.common import clean_id
    if not ctx.kernel_report.get("K44", {}).get("ok") or not ctx.kernel_report.get("K42", {}).get("ok"):
        return
    cases = []
    for fam, r in all_res:
        for rend, text, alias in r.get("ident_cases", []):
            cases.append((rend, text, alias))
    n_real = len(cases)
    has_local = any(c[2] is not None for c in cases)
    ctx.hist("type-ident", "real-calls", n_real)
    ctx.hist("type-ident", "real-calls-local", sum(1 for c in cases if c[2] is not None))
    # synthetic renderings: the marker, broken markers, marker at the ends, digits first (what the real functions say about the string)
    rng = random.Random(f"c17-k44-{ctx.seed}")
    parts = ["<locals>", "<local", "locals>", "<locals", "<", ">", ".", "m", "mk", "L", "_", "1", "typing.List[", "]", " ", "<<locals>>", "\u00e9", "K9"]
    synth = ["", "<locals>", "m.mk.<locals>.L", "m.L", "1m.<locals>.L", "typing.List[m.mk.<locals>.L]", "<locals", "m.<local>.L", "a<locals>"]
    for _ in range(ctx.budget(300, 3000)):
        synth.append("".join(rng.choice(parts) for _ in range(rng.randrange(1, 6))))
    for x in synth:
        if is_local_type_name(x):
            cases.append((x, clean_id(x), clean_id(x)))
        else:
            cases.append((x, x, None))
    cases = list(dict.fromkeys(c for c in cases if all(ord(ch) < 0x3000 for ch in c[0])))

    def lst(x):
        return "[" + "; ".join(str(ord(ch)) for ch in x) + "]%N"

    def opt(a):
        return "None" if a is None else f"(Some {lst(a)})"
    ccases = [f"({lst(r)}, ({lst(t)}, {opt(a)}))" for r, t, a in cases]
    defs = ("Definition lN_eqb (a b : list N) : bool := if list_eq_dec N.eq_dec a b then true else false.\n"
            "Definition oN_eqb (a b : option (list N)) : bool := match a, b with Some x, Some y => lN_eqb x y | None, None => true | _, _ => false end.\n")
    bad, log = vlib.coq_bad_idx(f"c17_k44_{ctx.seed}", "", "From VerifGen Require Import K42 K44.", defs, ccases,
                                "fun c => lN_eqb (fst (K44.type_ident (fst c))) (fst (snd c)) && oN_eqb (snd (K44.type_ident (fst c))) (snd (snd c))",
                                "list N * (list N * option (list N))", shard=2500, needs=["gen/K44.vo"])
    name = ("K44 (get_type_name_identifier translated: pasted text + registered alias as a function of the rendering) vs the real method on the classes "
            "and annotations of the generated schemas + synthetic renderings")
    if bad is None:
        ctx.correspondence(name, len(cases), -1, log)
        ctx.not_shown("translation validation K44", log)
    else:
        ctx.correspondence(name, len(cases), len(bad), str([cases[i] for i in bad[:6]]))
        if bad:
            ctx.not_shown("translation validation K44", f"rendering, real text, real alias: {[cases[i] for i in bad[:6]]!r}")
    ctx.obligation("the real get_type_name_identifier was exercised on local and non-local classes", n_real > 0 and has_local,
                   f"{n_real} real calls")
    ctx.count(n=len(cases))


def k46_corr(ctx, all_res):
    """translated kernel K46 (add_type_modules as a function of what it reads from a type) vs the real method on the field annotations
    of the generated schemas + a fixed list of typing shapes"""
    if not ctx.kernel_report.get("K46", {}).get("ok"):
        return
    from harness import c17_imports
    cases = []
    for fam, r in all_res:
        for term, ops in r.get("import_cases", []):
            cases.append((term, tuple((n, bool(m)) for n, m in ops)))
    n_real = len(cases)
    import collections, decimal, enum, pathlib, types, typing
    T1 = typing.TypeVar("T1", int, decimal.Decimal)
    T2 = typing.TypeVar("T2", bound=pathlib.PurePath)
    for t in [int, None, type(None), typing.Any, typing.List[int], typing.Dict[str, typing.Optional[decimal.Decimal]], types.MappingProxyType[str, int],
              typing.Literal[1, enum.Enum, "x"], typing.Literal[1, typing.Literal[2, 3]], typing.Tuple[int, ...], T1, T2, list[pathlib.Path], int | None,
              collections.OrderedDict[str, decimal.Decimal], typing.Union[int, str, None], typing.DefaultDict[str, types.MappingProxyType[str, T1]],
              typing.List[T2], collections.abc.Mapping[str, typing.Tuple[()]], typing.FrozenSet[enum.IntFlag]]:
        c = c17_imports.case(t)
        if c is not None:
            cases.append((c[0], tuple(c[1])))
    cases = list(dict.fromkeys(cases))
    ctx.hist("type-imports", "annotations-read", n_real)

    def ops(o):
        return "[" + "; ".join(f"OSet {vlib.coq_str(n)} {'true' if m else 'false'}" for n, m in o) + "]"
    ccases = [f"({t}, {ops(o)})" for t, o in cases]
    defs = ("Definition op_eqb (a b : op) : bool := match a, b with OSet n1 m1, OSet n2 m2 => String.eqb n1 n2 && Bool.eqb m1 m2 end.\n"
            "Fixpoint ops_eqb (a b : list op) : bool := match a, b with [], [] => true | x :: r, y :: s => op_eqb x y && ops_eqb r s | _, _ => false end.\n")
    bad, log = vlib.coq_bad_idx(f"c17_k46_{ctx.seed}", "", "From VerifGen Require Import K46.", defs, ccases,
                                "fun c => ops_eqb (K46.add_type_modules (fst c)) (snd c)", "mty * list op", shard=600, needs=["gen/K46.vo"])
    name = ("K46 (add_type_modules / ensure_module_imported / ensure_object_imported translated: sequence of globals.setdefault calls) vs the real methods on a "
            "recording globals, on the field annotations of the generated schemas + typing shapes")
    if bad is None:
        ctx.correspondence(name, len(cases), -1, log)
        ctx.not_shown("translation validation K46", log)
    else:
        ctx.correspondence(name, len(cases), len(bad), str([cases[i] for i in bad[:3]])[:1500])
        if bad:
            ctx.not_shown("translation validation K46", f"what the type looks like, real setdefault sequence: {[cases[i] for i in bad[:3]]!r}"[:3000])
    ctx.obligation("the real add_type_modules was exercised on annotations of the generated schemas", n_real > 0, f"{n_real} annotations")
    ctx.count(n=len(cases))


def replay(rep: dict) -> int:
    import random
    from harness import c17_run
    if rep.get("entry") != "c17-schema":
        print("unknown replay kind")
        return 2
    c17_run.install_capture()
    schema = {"src": rep["schema_src"], "module": rep["schema_module"], "tags": [], "defloc": "replay", "idx": rep.get("schema_idx", 0),
              "aux": rep.get("schema_aux", []), "must_build": rep.get("must_build", False)}
    rng = random.Random(f"c17-run-{rep.get('schema_seed', 0)}-{rep.get('family')}-{rep.get('schema_idx')}")
    sr = c17_run.run_schema(schema, rng, 40)
    d = sr.module.__dict__ if sr.module is not None else {}
    want = rep.get("signature") or {}
    hit = None
    for f in sr.findings:
        sig = c17_run.classify(f, d, schema["module"], schema["src"])
        if f["kind"] == rep.get("finding_kind") and (all(sig.get(k) == v for k, v in want.items()) if want else rep.get("finding_name") in (None, f.get("name"))):
            hit = f
            break
    if hit is None:
        for f in sr.findings:
            if c17_run.classify(f, d, schema["module"], schema["src"]) == want:
                hit = f
                break
    if hit:
        print("observed:", hit["kind"], hit["what"][:300])
        print("REPRODUCED")
        return 1
    print("not reproduced (findings now:", [f["kind"] for f in sr.findings][:5], ")")
    return 0
