"""C06 - generated JSON Schema accepts everything the serializer produces."""
from __future__ import annotations

import json
import math
import sys
import types

from harness import vlib
from harness.props import c06_gen as G

DIALECTS = ["DRAFT_2020_12", "OPEN_API_3_1"]
COMBOS = [(d, a) for d in DIALECTS for a in (False, True)]

KF_KINDS = {
    "flag": "schema-flag-combos",
    "nonstr-key": "schema-nonstr-keys",
    "bare-name": "schema-defs-by-bare-name",
    "set-collision": "schema-set-wire-collision",
    "tz": "schema-timezone-pattern",
    "init-false": "schema-init-false-field",
    "union-pack": "union-speculative-packer",
    "nt-ovc": "schema-nt-override-in-containers",
    "ovr-nullable": "schema-overridden-nullable",
}

_modn = [0]


def load_module(src: str):
    _modn[0] += 1
    name = f"_c06_case_{_modn[0]}"
    m = types.ModuleType(name)
    sys.modules[name] = m
    exec(compile(src, name, "exec", dont_inherit=True), m.__dict__)
    return m


def unload_module(m):
    sys.modules.pop(m.__name__, None)


def jround(x):
    return json.loads(json.dumps(x, allow_nan=False))


class SchemaBuildCrash(Exception):
    """build_json_schema did not answer: it neither returned a schema nor reported the type as unsupported"""


class _Alarm(BaseException):      # not an Exception: the library's `except Exception` / suppress blocks must not swallow it
    pass


BUILD_LIMIT_S = 60      # a schema is built in milliseconds; the limit only turns a hang into a finding (generous: loaded machines)
_crashes = [0]          # after three crashes / hangs in a run the limit drops (the run is a VIOLATION already; keep it short)


def unsupported_exc(e: BaseException) -> bool:
    """the ways the library says "no schema / no serializer for this type" (outside the property)"""
    return type(e).__module__.startswith("mashumaro") or isinstance(e, NotImplementedError)


def build_schema(T, dialect: str, all_refs: bool):
    """real schema as a plain JSON document a standard validator can resolve: for the
    OpenAPI dialect the definitions are moved to where its $refs point (#/components/schemas).
    A crash that is not the library's "unsupported" signal (RecursionError, ...) or a hang is a SchemaBuildCrash."""
    import signal
    import warnings
    from mashumaro.jsonschema import build_json_schema, DRAFT_2020_12, OPEN_API_3_1
    dl = DRAFT_2020_12 if dialect == "DRAFT_2020_12" else OPEN_API_3_1

    def on_alarm(signum, frame):
        raise _Alarm()
    limit = BUILD_LIMIT_S if _crashes[0] < 3 else 5
    old = signal.signal(signal.SIGALRM, on_alarm)
    signal.alarm(limit)
    try:
        with warnings.catch_warnings():
            warnings.simplefilter("ignore")     # "Type Any will be used ... Function doesn't have return annotation"
            s = build_json_schema(T, dialect=dl, all_refs=all_refs).to_dict()
    except _Alarm:
        _crashes[0] += 1
        raise SchemaBuildCrash(f"no answer within {limit} s") from None
    except (RecursionError, MemoryError) as e:
        _crashes[0] += 1
        raise SchemaBuildCrash(f"{type(e).__name__}: {str(e)[:200]}") from None
    finally:
        signal.alarm(0)
        signal.signal(signal.SIGALRM, old)
    try:
        s = jround(s)
    except RecursionError as e:
        raise SchemaBuildCrash(f"schema document too deep to dump: {type(e).__name__}") from None
    if dialect == "OPEN_API_3_1" and isinstance(s, dict) and "$defs" in s:
        s = dict(s)
        s["components"] = {"schemas": s.pop("$defs")}
    return s


def defs_of(s):
    if "$defs" in s:
        return s["$defs"]
    return s.get("components", {}).get("schemas", {})


def make_holder(m):
    """the value is serialized through a mixin dataclass field (dynamic dispatch), not through
    a codec of the bare type, so that codec-only defects (C02/C15) do not leak into this check"""
    src = ("from dataclasses import dataclass\nfrom mashumaro import DataClassDictMixin\n"
           "@dataclass\nclass _Holder(DataClassDictMixin):\n    r: ROOT\n")
    exec(compile(src, m.__name__ + ".holder", "exec", dont_inherit=True), m.__dict__)
    return m.__dict__["_Holder"]


def finite(x) -> bool:
    """stated exclusion: JSON cannot carry nan/inf (floats only appear as float values, enum
    values or timedelta seconds)"""
    if isinstance(x, float):
        return math.isfinite(x)
    if isinstance(x, dict):
        return all(finite(k) and finite(v) for k, v in x.items())
    if isinstance(x, (list, tuple)):
        return all(finite(v) for v in x)
    return True


# --------------------------------------------------------------------------
# sites of the known findings inside (type, real python value): JSON instance paths
# --------------------------------------------------------------------------
def json_key(k) -> str:
    return next(iter(jround({k: 0})))


class Sites:
    def __init__(self, tbl, m, all_refs, doc=None):
        self.tbl, self.m, self.all_refs, self.doc = tbl, m, all_refs, doc
        self.ntd = False        # the serializer writes named tuples as dicts at the current position
        self.nts = False        # ... the schema describes them as objects at the current position
        self.base = False       # class-wide option of the owning dataclass
        self.out: list[tuple[tuple, str]] = []
        self._enc = {}
        clash = {}
        for d in tbl.decls:
            if d["kind"] == "data":
                clash.setdefault(d["clsname"], set()).add(d["name"])
        self.clash_names = {n for n, s in clash.items() if len(s) > 1}

    def enc_key(self, t, k):
        from mashumaro.codecs.basic import BasicEncoder
        src = G.ty_src(t, self.tbl, [])
        if src not in self._enc:
            self._enc[src] = BasicEncoder(eval(src, self.m.__dict__))
        return self._enc[src].encode(k)

    def top_conforms(self, t, v) -> bool:
        k = t[0]
        ns = self.m.__dict__
        if k == "any":
            return True
        if k == "none":
            return v is None
        if k in ("bool", "str"):
            return type(v) is {"bool": bool, "str": str}[k]
        if k == "int":
            return type(v) is int
        if k == "float":
            return type(v) in (int, float)
        if k == "leaf":
            return isinstance(v, eval(G.LEAVES[t[1]], ns)) and not (t[1] == "date" and type(v).__name__ == "datetime")
        if k in ("enum", "data", "nt"):
            return type(v) is ns[t[1]]
        if k == "gdata":
            return type(v) is ns[t[1]]
        if k == "lit":
            return any(type(v) is type(eval(s, ns)) and v == eval(s, ns) for s in t[1])
        if k in ("list", "deque"):
            return type(v).__name__ == k
        if k == "seq":
            # a str is a Sequence[str] only
            return isinstance(v, (list, tuple)) or (isinstance(v, str) and t[1] == ("str",))
        if k in ("tuplevar", "tuple"):
            return type(v) is tuple
        if k in ("set", "frozenset"):
            return isinstance(v, (set, frozenset))
        if k in ("dict", "mapping", "ordereddict", "defaultdict", "td"):
            return isinstance(v, dict)
        if k == "counter":
            return type(v).__name__ == "Counter"
        if k == "chainmap":
            return type(v).__name__ == "ChainMap"
        if k == "opt":
            return v is None or self.top_conforms(t[1], v)
        if k == "union":
            return any(self.top_conforms(x, v) for x in t[1])
        if k == "newtype":
            return self.top_conforms(t[1], v)
        return False

    def walk(self, t, v, path: tuple, env=None):
        import enum as _enum
        t = G.subst(t, env or {})
        k = t[0]
        tbl = self.tbl
        if k in ("any", "none", "bool", "int", "float", "str", "lit"):
            return
        if k == "leaf":
            if t[1] == "timezone":
                off = v.utcoffset(None)
                import datetime as _dt
                if off.microseconds or off.seconds % 60 or v != _dt.timezone(off) or v.tzname(None) != _dt.timezone(off).tzname(None):
                    self.out.append((path, "tz"))
            return
        if k == "enum":
            d = tbl.by_name[t[1]]
            if d["base"] in ("Flag", "IntFlag") and v not in list(type(v)):
                self.out.append((path, "flag"))
            return
        if k in ("list", "seq", "deque", "tuplevar", "set", "frozenset"):
            items = list(v)
            if k in ("set", "frozenset"):
                encs = [json.dumps(jround(self.enc_key(t[1], x)), sort_keys=True) for x in items]
                if len(set(encs)) < len(encs):
                    self.out.append((path, "set-collision"))
            saved = self.ntd
            if k != "tuplevar":         # the serializer forgets a field's serialize override inside list/set elements
                self.ntd = self.base
            try:
                for i, x in enumerate(items):
                    self.walk(t[1], x, path + (i,))
            finally:
                self.ntd = saved
            return
        if k == "tuple":
            args = t[1]
            # split the flat value along the (single) unpack
            ui = [i for i, a in enumerate(args) if a[0] == "unpack"]
            if not ui:
                for i, (a, x) in enumerate(zip(args, v)):
                    self.walk(a, x, path + (i,))
                return
            u = ui[0]
            nafter = len(args) - u - 1
            for i in range(u):
                self.walk(args[i], v[i], path + (i,))
            mid = v[u:len(v) - nafter]
            self.walk_offset(args[u][1], tuple(mid), path, u)
            for j in range(nafter):
                i = len(v) - nafter + j
                self.walk(args[u + 1 + j], v[i], path + (i,))
            return
        if k in ("dict", "mapping", "ordereddict", "defaultdict"):
            saved = self.ntd
            self.ntd = self.base         # ... and inside mapping keys / values
            try:
                for kk, x in v.items():
                    ek = self.enc_key(t[1], kk)
                    js = json_key(ek)
                    if not isinstance(ek, str):
                        self.out.append((path, "nonstr-key"))
                    self.walk(t[1], kk, path)        # defects inside keys surface at the object
                    self.walk(t[2], x, path + (js,))
            finally:
                self.ntd = saved
            return
        if k == "counter":
            for kk in v:
                ek = self.enc_key(t[1], kk)
                if not isinstance(ek, str):
                    self.out.append((path, "nonstr-key"))
                self.walk(t[1], kk, path)
            return
        if k == "chainmap":
            for i, mp in enumerate(v.maps):
                self.walk(("dict", t[1], t[2]), mp, path + (i,))
            return
        if k == "opt":
            if v is not None:
                self.walk(t[1], v, path)
            return
        if k == "union":
            for x in t[1]:
                if self.top_conforms(x, v):
                    keep = len(self.out)
                    try:        # top_conforms is shallow: a member the value does not really belong to may not be walkable
                        self.walk(x, v, path)
                    except Exception:
                        del self.out[keep:]
            # pack_union is speculative: an earlier member's packer that does not raise wins even
            # if the value belongs to a later member (a serializer matter, C02/C11)
            if self.doc is not None:
                try:
                    here = self.doc
                    for pk in path:
                        here = here[pk]
                    own = []
                    for x in t[1]:
                        if self.top_conforms(x, v):
                            try:
                                own.append(jround(self.enc_key(x, v)))
                            except Exception:
                                pass
                    if own and all(o != here for o in own):
                        self.out.append((path, "union-pack"))
                except Exception:
                    pass
            return
        if k == "newtype":
            return self.walk(t[1], v, path)
        if k in ("data", "gdata"):
            d = tbl.by_name[t[1]]
            e2 = {"T": t[2][0]} if k == "gdata" else {}
            if self.all_refs and d["clsname"] in self.clash_names:
                self.out.append((path, "bare-name"))
            cfg = d.get("cfg") or {}
            saved = (self.ntd, self.nts, self.base)
            for f in d["fields"]:
                key = f["alias"] if f["alias"] is not None else f["name"]
                if not f["init"]:
                    self.out.append((path, "init-false"))
                if (f.get("ser") or ("",))[0] == "fn":
                    # the member is the (constant, finding-free) output of the user's function -- except that None of a
                    # nullable field is not passed to the function while the schema has no null alternative (known finding)
                    if getattr(v, f["name"]) is None and field_nullable(f, e2):
                        self.out.append((path + (key,), "ovr-nullable"))
                    continue
                fv = getattr(v, f["name"])
                if cfg.get("omit_none") and fv is None and field_nullable(f, e2):
                    continue        # the key is dropped (and, since /repo a5aab21, not required)
                # class-wide option of this owner, overridden per field; nested dataclasses use their own
                self.base = bool(cfg.get("nt_as_dict"))
                self.ntd = self.nts = {"as_dict": True, "as_list": False}.get(f.get("nt_override"), self.base)
                try:
                    self.walk(f["type"], fv, path + (key,), e2)
                finally:
                    self.ntd, self.nts, self.base = saved
            return
        if k == "nt":
            d = tbl.by_name[t[1]]
            if self.ntd != self.nts:
                self.out.append((path, "nt-ovc"))
            for i, f in enumerate(d["fields"]):
                self.walk(f["type"], v[i], path + ((f["name"],) if self.ntd else (i,)))
            return
        if k == "td":
            d = tbl.by_name[t[1]]
            for f in d["fields"]:
                if f["name"] in v:
                    self.walk(f["type"], v[f["name"]], path + (f["name"],))
            return
        raise KeyError(k)

    def walk_offset(self, t, v, path, off):
        """elements of an unpacked inner tuple type t sit at positions off.. of the outer array"""
        if t[0] == "tuplevar":
            for i, x in enumerate(v):
                self.walk(t[1], x, path + (off + i,))
            return
        args = t[1]
        ui = [i for i, a in enumerate(args) if a[0] == "unpack"]
        if not ui:
            for i, (a, x) in enumerate(zip(args, v)):
                self.walk(a, x, path + (off + i,))
            return
        u = ui[0]
        nafter = len(args) - u - 1
        for i in range(u):
            self.walk(args[i], v[i], path + (off + i,))
        self.walk_offset(args[u][1], tuple(v[u:len(v) - nafter]), path, off + u)
        for j in range(nafter):
            i = len(v) - nafter + j
            self.walk(args[u + 1 + j], v[i], path + (off + i,))


nullable_spec = G.nullable_spec


def field_nullable(f, env=None) -> bool:
    """CodeBuilder.is_field_nullable: nullable type (looking through Annotated/Final, which the specs do not carry) or default None"""
    return nullable_spec(G.subst(f["type"], env or {})) or (f["default"] is not None and f["default"][1] == "None")


VALIDATOR_OF = {"flag": {"enum", "const"}, "set-collision": {"uniqueItems"}, "tz": {"pattern"},
                "init-false": {"additionalProperties"}, "nt-ovc": {"type"}, "ovr-nullable": {"type"}}


def explain(err, sites) -> set:
    """kinds of known-finding sites that account for one validation error (empty: unexplained)"""
    ep = tuple(err.absolute_path)
    sp = list(err.absolute_schema_path)
    kinds = set()
    for path, kind in sites:
        if kind in ("bare-name", "union-pack"):
            if ep[:len(path)] == path or path[:len(ep)] == ep and err.validator == "anyOf":
                kinds.add(kind)
            continue
        if err.validator == "anyOf" and path[:len(ep)] == ep:
            kinds.add(kind)
            continue
        if ep != path:
            continue
        if kind == "nonstr-key":
            if "propertyNames" in sp:
                kinds.add(kind)
        elif err.validator in VALIDATOR_OF[kind]:
            if kind == "init-false" and "propertyNames" in sp:
                continue
            kinds.add(kind)
    return kinds


def schema_nodes(s):
    """all subschemas of a schema document (dict nodes reachable through schema-valued keywords)"""
    if not isinstance(s, dict):
        return
    yield s
    for k in ("items", "additionalProperties", "propertyNames", "contains"):
        if isinstance(s.get(k), dict):
            yield from schema_nodes(s[k])
    for k in ("anyOf", "prefixItems"):
        for x in s.get(k) or []:
            yield from schema_nodes(x)
    for k in ("properties", "$defs"):
        for x in (s.get(k) or {}).values():
            yield from schema_nodes(x)
    for x in (s.get("components", {}).get("schemas") or {}).values():
        yield from schema_nodes(x)


# --------------------------------------------------------------------------
# the direct oracle
# --------------------------------------------------------------------------
def type_tags(t, acc):
    acc.add(t[0] if t[0] != "leaf" else "leaf:" + t[1])
    for x in t[1:]:
        if isinstance(x, tuple):
            type_tags(x, acc)
        elif isinstance(x, list):
            for y in x:
                if isinstance(y, tuple):
                    type_tags(y, acc)


def run_case(ctx, tbl, root, vspecs, src, probe):
    """returns number of (value, combo) validations"""
    from jsonschema import Draft202012Validator
    try:
        m = load_module(src)
    except Exception as e:       # the generated program itself is wrong: a harness bug, never silent
        if type(e).__module__.startswith("mashumaro"):      # the serializer does not support the type: outside the property
            ctx.hist("skipped", "serializer-unsupported:" + type(e).__name__)
            return 0
        ctx.not_shown("generator produced an invalid program", f"{type(e).__name__}: {e}\n{src[-1500:]}")
        return 0
    n = 0
    try:
        T = m.ROOT
        schemas = {}
        try:
            for dl, ar in COMBOS:
                schemas[(dl, ar)] = build_schema(T, dl, ar)
        except SchemaBuildCrash as e:
            ctx.fail(f"build_json_schema crashed or hung on a supported type: {e} (type {G.ty_src(root, tbl, [])[:80]})",
                     {"entry": "build_json_schema(ROOT)", "source": src, "type": G.ty_src(root, tbl, []), "dialect": dl, "all_refs": ar,
                      "check": "build", "observed": str(e), "expected": "a schema, or the library's unsupported-type error"},
                     {"kind": "schema-build-crash"})
            return 0
        except Exception as e:
            if not unsupported_exc(e):
                ctx.hist("skipped", "schema-build-error:" + type(e).__name__)
                ctx.notes.append(f"schema build error {type(e).__name__}: {str(e)[:120]} for {G.ty_src(root, tbl, [])[:100]}")
            else:
                ctx.hist("skipped", "schema-unsupported:" + type(e).__name__)
            return 0
        try:
            H = make_holder(m)
        except Exception as e:
            ctx.hist("skipped", "serializer-unsupported:" + type(e).__name__)
            return 0
        tags = set()
        type_tags(root, tags)
        for d in tbl.decls:
            if d["kind"] != "enum":
                for f in d["fields"]:
                    type_tags(f["type"], tags)
        for tg in tags:
            ctx.hist("type_constructors", tg)
        base = {"entry": "jsonschema.validate(build_json_schema(ROOT), Holder(r=value).to_dict()['r'])",
                "source": src, "type": G.ty_src(root, tbl, [])}

        # ---- structural clauses -------------------------------------------------
        for (dl, ar), s in schemas.items():
            for node in schema_nodes(s):
                mn, mx = node.get("minItems"), node.get("maxItems")
                if mn is not None and mx is not None and mn > mx:
                    ctx.fail(f"unsatisfiable array schema minItems {mn} > maxItems {mx} for {base['type']}",
                             {**base, "dialect": dl, "all_refs": ar, "check": "satisfiable", "observed": node,
                              "expected": "minItems <= maxItems"}, {"kind": "unsatisfiable-array"})
            n += 1
        reach = G.reachable_data(root, tbl)
        names = {}
        for (pn, args) in reach:
            names.setdefault(tbl.by_name[pn]["clsname"], set()).add((pn, args))
        for (dl, ar), s in schemas.items():
            if not ar:
                continue
            defs = defs_of(s)
            # a definition may be absent (positions the schema does not describe), but every
            # definition must belong to exactly one reachable class / specialisation
            shared = sorted(k for k in defs if len(names.get(k, ())) > 1)
            stray = sorted(k for k in defs if k not in names)
            if shared or stray:
                ctx.fail(f"all_refs: definitions {shared or stray} are shared by / belong to no reachable dataclass type of {base['type'][:100]}",
                         {**base, "dialect": dl, "all_refs": ar, "check": "distinct-definitions", "observed": sorted(defs),
                          "shared": shared, "stray": stray,
                          "expected": {k: sorted(str(x) for x in v) for k, v in names.items()}},
                         {"kind": KF_KINDS["bare-name"] if shared and not stray else "definitions-stray"})
        for (pn, args) in reach:
            d = tbl.by_name[pn]
            if args:
                continue
            omit = bool((d.get("cfg") or {}).get("omit_none"))
            exp_req = [(f["alias"] if f["alias"] is not None else f["name"]) for f in d["fields"]
                       if f["init"] and f["default"] is None and not (omit and field_nullable(f))]
            exp_props = [(f["alias"] if f["alias"] is not None else f["name"]) for f in d["fields"] if f["init"]]
            try:
                ds = build_schema(m.__dict__[pn], "DRAFT_2020_12", False)
            except Exception as e:
                ctx.hist("skipped", "class-schema:" + type(e).__name__)
                continue
            got = ds.get("required", [])
            if got != exp_req or list(ds.get("properties", {})) != exp_props:
                ctx.fail(f"'required'/'properties' of {d['clsname']} are {got}/{list(ds.get('properties', {}))}, serialized keys of the fields "
                         f"without default are {exp_req} (all: {exp_props})",
                         {**base, "check": "required", "class": pn, "observed": {"required": got, "properties": list(ds.get('properties', {}))},
                          "expected": {"required": exp_req, "properties": exp_props}},
                         {"kind": "required-mismatch"})
            n += 1

        # ---- every value validates under every combo -----------------------------
        validators = {c: Draft202012Validator(s) for c, s in schemas.items()}
        for vs in vspecs:
            vsrc = G.val_src(vs)
            try:
                v = eval(vsrc, m.__dict__)
            except Exception as e:
                ctx.not_shown("generator produced an invalid value", f"{type(e).__name__}: {e}: {vsrc[:300]}")
                continue
            try:
                doc = H(v).to_dict()["r"]
                if not finite(doc):
                    ctx.hist("skipped", "non-finite-float")
                    continue
                doc = jround(doc)
            except Exception as e:
                ctx.hist("skipped", "serialize:" + type(e).__name__)
                continue
            sites_cache = {}
            for c, val in validators.items():
                n += 1
                errs = list(val.iter_errors(doc))
                if not errs:
                    continue
                ar = c[1]
                if ar not in sites_cache:
                    st = Sites(tbl, m, ar, doc)
                    try:
                        st.walk(root, v, ())
                    except Exception as e:       # cannot attribute: leave unexplained
                        st.out = []
                        ctx.notes.append(f"site walk failed: {type(e).__name__}: {e}")
                    sites_cache[ar] = st.out
                sites = sites_cache[ar]
                kinds_all = set()
                unexplained = []
                for e in errs:
                    ks = explain(e, sites)
                    if not ks:
                        unexplained.append(e)
                    kinds_all |= ks
                rep = {**base, "dialect": c[0], "all_refs": ar, "check": "validate", "value": vsrc, "document": doc,
                       "schema": schemas[c],
                       "observed": [{"validator": e.validator, "path": list(e.absolute_path), "message": e.message[:200]} for e in errs[:5]],
                       "expected": "no validation error"}
                if unexplained:
                    e = unexplained[0]
                    ctx.fail(f"serialized value rejected by its schema: {e.validator} at {list(e.absolute_path)}: {e.message[:120]} (type {base['type'][:80]})",
                             rep, {"kind": "unexplained", "validator": e.validator})
                else:
                    for kd in sorted(kinds_all):
                        ctx.fail(f"{KF_KINDS[kd]}: {errs[0].message[:100]}", rep, {"kind": KF_KINDS[kd]})
        return n
    finally:
        unload_module(m)


FIXED_CASES = [
    # (description, source of declarations, ROOT expr, [value exprs]) -- minimal inputs of the known findings and of D11a
    ("D11a tuple", "", "Tuple[int, Unpack[Tuple[str, float]]]", ["(1, 'a', 2.0)"]),
    ("tuple unpack middle", "", "Tuple[int, Unpack[Tuple[str, ...]], bool]", ["(1, True)", "(1, 'a', 'b', False)"]),
    ("flag", "class F(enum.Flag):\n    A = 1\n    B = 2\n", "F", ["F.A", "F.A | F.B"]),
    ("int keys", "", "Dict[int, str]", ["{}", "{1: 'a'}"]),
    ("annotated alias", "@dataclass\nclass B(DataClassDictMixin):\n    x: Annotated[int, Alias('ann_x')]\n    class Config(BaseConfig):\n"
                        "        serialize_by_alias = True\n", "B", ["B(1)"]),
    ("alias sources", "@dataclass\nclass A3(DataClassDictMixin):\n    y: Annotated[int, Alias('ann_y')] = field(metadata=field_options(alias='meta_y'))\n"
                      "    w: int = field(default=1, metadata=field_options(alias='meta_w'))\n    class Config(BaseConfig):\n"
                      "        serialize_by_alias = True\n        aliases = {'y': 'cfg_y', 'w': 'cfg_w'}\n", "A3", ["A3(2)", "A3(2, 3)"]),
    ("literal bool/int", "class LE(enum.IntEnum):\n    HI = 1\n", "Tuple[Literal[0, 1, False, True], Literal[True, 1], Literal[LE.HI, True, 'a']]",
     ["(False, 1, True)", "(0, True, LE.HI)", "(True, 1, 'a')"]),
    ("namedtuple option vs field override",
     "class Pt(NamedTuple):\n    a: int\n    b: Optional[str] = None\n@dataclass\nclass Sh(DataClassDictMixin):\n"
     "    p: Pt\n    l: Pt = field(metadata=field_options(serialize='as_list'))\n    d: List[Pt] = field(default_factory=list)\n"
     "    class Config(BaseConfig):\n        namedtuple_as_dict = True\n"
     "@dataclass\nclass Sh2(DataClassDictMixin):\n    p: Pt\n    o: Pt = field(metadata=field_options(serialize='as_dict'))\n",
     "Tuple[Sh, Sh2]", ["(Sh(Pt(1), Pt(2, 's'), [Pt(3)]), Sh2(Pt(4), Pt(5)))"]),
    ("omit_none owner, nested optionals",
     "@dataclass\nclass Sv(DataClassDictMixin):\n    a: List[Optional[int]]\n    m: Dict[str, Optional[str]]\n    t: Tuple[Optional[int], int]\n"
     "    o: Optional[int] = None\n    class Config(BaseConfig):\n        omit_none = True\n", "Sv",
     ["Sv([1, None], {'k': None}, (None, 2))", "Sv([], {}, (1, 2), 5)"]),
    ("omit_none owner, required nullable fields",
     "@dataclass\nclass On(DataClassDictMixin):\n    x: Optional[int]\n    y: Annotated[Optional[str], 'n']\n    z: int\n    a: Any\n"
     "    w: Literal[1, None] = None\n    class Config(BaseConfig):\n        omit_none = True\n", "On",
     ["On(None, None, 1, None)", "On(1, 's', 2, [1], 1)", "On(None, 's', 3, 'q', None)"]),
    ("omit_none owner, unions with a None member",
     "@dataclass\nclass Ou(DataClassDictMixin):\n    u: Union[int, None, str]\n    v: Annotated[Union[bytes, None, List[int], bool], 'n']\n    k: Union[int, str]\n"
     "    class Config(BaseConfig):\n        omit_none = True\n", "Ou",
     ["Ou(None, None, 1)", "Ou('s', [1], 'k')", "Ou(2, None, 3)"]),
    ("strategy by origin key",
     "def _ser(v) -> str:\n    return ','.join(map(str, v))\n@dataclass\nclass St(DataClassDictMixin):\n    x: List[int]\n"
     "    y: List[int] = field(default_factory=list, metadata={'serialize': _ser})\n"
     "    z: Annotated[Dict[str, int], 'm'] = field(default_factory=dict)\n    w: Dict[str, int] = field(default_factory=dict)\n"
     "    class Config(BaseConfig):\n        serialization_strategy = {list: {'serialize': _ser}, Annotated[Dict[str, int], 'm']: {'serialize': _ser}}\n",
     "St", ["St([1, 2])", "St([], [3], {'a': 1}, {'b': 2})"]),
    ("overridden serialization of a nullable field",
     "def _sr(v) -> str:\n    return 's'\n@dataclass\nclass Ov(DataClassDictMixin):\n"
     "    x: Optional[int] = field(metadata=field_options(serialize=_sr))\n    y: int = field(default=1, metadata=field_options(serialize=_sr))\n",
     "Ov", ["Ov(1)", "Ov(None)"]),
    ("field-level override with a container / missing return annotation (42523b8)",
     "def _fl(v) -> List[str]:\n    return [str(v)]\ndef _fd(v) -> Dict[str, List[int]]:\n    return {'a': [v]}\ndef _fu(v):\n    return v\n"
     "class _SS(SerializationStrategy):\n    def serialize(self, v) -> List[int]:\n        return [v]\n    def deserialize(self, v):\n        return v[0]\n"
     "@dataclass\nclass Fo(DataClassDictMixin):\n    x: int = field(metadata={'serialize': _fl})\n"
     "    y: int = field(metadata=field_options(serialize=_fd))\n"
     "    z: int = field(metadata=field_options(serialization_strategy={'serialize': lambda v: v}))\n"
     "    w: int = field(metadata=field_options(serialize=_fu))\n    u: int = field(metadata=field_options(serialization_strategy=_SS()))\n"
     "    t: List[int] = field(metadata=field_options(serialization_strategy={'serialize': _fl}))\n"
     "    l: List[List[int]] = field(default_factory=list, metadata=field_options(serialize=_fl))\n",
     "Fo", ["Fo(1, 2, 3, 4, 5, [6])", "Fo(1, 2, 3, 4, 5, [], [[7]])"]),
    ("same name", "def mk(t):\n    @dataclass\n    class P(DataClassDictMixin):\n        v: t\n    return P\nP1 = mk(int)\nP2 = mk(str)\n"
                  "@dataclass\nclass HP(DataClassDictMixin):\n    a: P1\n    b: P2\n", "HP", ["HP(P1(1), P2('s'))"]),
]


def oracle(ctx: vlib.Ctx, n_cases: int, n_values: int):
    r = ctx.rng
    total = 0
    for i in range(n_cases):
        probe = r.random() < 0.3
        depth = r.choice([1, 2, 2, 3, 3, 4])
        tbl, root = G.gen_case(r, depth, probe)
        src = G.module_src(tbl, root)
        if len(src) > 12000:        # stated size bound of the search (keeps memory and time predictable)
            ctx.hist("skipped", "program-too-large")
            continue
        vspecs = [G.gen_value(r, root, tbl, probe) for _ in range(n_values)]
        k = run_case(ctx, tbl, root, vspecs, src, probe)
        total += k
        ctx.count((G.ty_src(root, tbl, []), len(tbl.decls)), nontrivial=k > 0, n=k)
        ctx.hist("mode", "probe-known-findings" if probe else "clean")
        ctx.hist("depth", str(depth))
        if i < 3:
            ctx.sample({"type": G.ty_src(root, tbl, [])[:200], "values": [G.val_src(v)[:120] for v in vspecs[:2]]})
    return total


# --------------------------------------------------------------------------
# (T) validation of the translated kernel K6 against the Python original
# --------------------------------------------------------------------------
ELEMS = ["int", "str", "float", "bool", "datetime.date", "bytes", "None", "uuid.UUID"]


def k6_cases(r, n):
    """random Tuple[...] types: plain element types (identified by index) and Unpack[inner tuple];
    the inner schema is what the real code builds for the inner type"""
    import datetime, uuid
    from typing import Tuple
    from typing_extensions import Unpack
    from mashumaro.jsonschema import build_json_schema
    ns = {"datetime": datetime, "uuid": uuid, "Tuple": Tuple, "Unpack": Unpack}
    ids = {json.dumps(jround(build_json_schema(eval(e, ns)).to_dict()), sort_keys=True): i for i, e in enumerate(ELEMS)}

    def sid(s):
        return ids[json.dumps(s, sort_keys=True)]

    def inner(depth):
        c = r.random()
        if c < 0.3:
            return f"Tuple[{r.choice(ELEMS)}, ...]"
        if c < 0.4:
            return "Tuple[()]"
        args = [r.choice(ELEMS) for _ in range(r.randrange(0, 4))]
        if depth > 0 and r.random() < 0.5:
            args.insert(r.randrange(0, len(args) + 1), f"Unpack[{inner(depth - 1)}]")
        if not args:
            return "Tuple[()]"
        return "Tuple[" + ", ".join(args) + "]"

    cases = []
    descr = []
    tries = 0
    while len(cases) < n and tries < n * 5:
        tries += 1
        args = []
        nun = r.choice([0, 1, 1, 1, 2])
        for _ in range(r.randrange(0, 5)):
            args.append(("p", r.randrange(len(ELEMS))))
        for _ in range(nun):
            args.insert(r.randrange(0, len(args) + 1), ("u", inner(2)))
        if not args:
            continue
        if len(args) == 2 and args[1][0] == "p" and False:
            continue
        tsrc = "Tuple[" + ", ".join(ELEMS[a[1]] if a[0] == "p" else f"Unpack[{a[1]}]" for a in args) + "]"
        try:
            T = eval(tsrc, ns)
            real = jround(build_json_schema(T).to_dict())
            cargs = []
            for a in args:
                if a[0] == "p":
                    cargs.append(f"Plain {a[1]}%nat")
                else:
                    us = jround(build_json_schema(eval(a[1], ns)).to_dict())
                    cargs.append("Unpack (mkU " + copt_list(us.get("prefixItems"), sid) + " " + copt(us.get("items"), lambda s: f"{sid(s)}%nat") + " "
                                 + copt(us.get("minItems"), vlib.coq_z) + " " + copt(us.get("maxItems"), vlib.coq_z) + ")")
            exp = ("mkT " + copt_list(real.get("prefixItems"), sid) + " " + copt(real.get("items"), lambda s: f"{sid(s)}%nat") + " "
                   + copt(real.get("minItems"), vlib.coq_z) + " " + copt(real.get("maxItems"), vlib.coq_z))
        except Exception:
            continue        # typing rejects the type (e.g. two unbounded unpacks) or an element schema is not a plain one
        cases.append(f"({vlib.coq_list(cargs)}, {exp})")
        descr.append(tsrc)
    return cases, descr


def copt(x, f):
    return "None" if x is None else f"(Some {f(x)})"


def copt_list(x, sid):
    return "None" if x is None else "(Some [" + "; ".join(f"{sid(s)}%nat" for s in x) + "])"


def k6_part(ctx):
    ctx.theorems("props/C06_k6.vo", ["K6_spec", "K6_min_le_max", "K6_nesting_closed", "K6_accepts_lengths", "K6_pre_fix_refuted"], kernels=["K6"])
    if not ctx.kernel_report.get("K6", {}).get("ok"):
        return
    cases, descr = k6_cases(ctx.rng, ctx.budget(300, 3000))
    bad, log = vlib.coq_bad_idx("c06_k6", "PyK_tuple", "From VerifGen Require Import K6.", "", cases,
                                "fun c => tschema_nat_eqb (on_tuple_k (fst c)) (snd c)", "list (targ nat) * tschema nat",
                                shard=500, needs=["gen/K6.vo"])
    name = "K6-translation-vs-python(on_tuple)"
    if bad is None:
        ctx.correspondence(name, len(cases), -1, log)
        ctx.not_shown("translation validation K6", log)
    else:
        ctx.correspondence(name, len(cases), len(bad), str([descr[i] for i in bad[:8]]))
        if bad:
            ctx.not_shown("translation validation K6", f"types {[descr[i] for i in bad[:8]]}")
    ctx.count(n=len(cases))


def mutants(doc, r):
    """a few structurally mutated copies of a JSON document (mostly invalid instances)"""
    out = []

    def paths(x, p=()):
        yield p
        if isinstance(x, list):
            for i, y in enumerate(x):
                yield from paths(y, p + (i,))
        elif isinstance(x, dict):
            for k, y in x.items():
                yield from paths(y, p + (k,))

    def get(x, p):
        for k in p:
            x = x[k]
        return x

    def put(x, p, v):
        if not p:
            return v
        x = json.loads(json.dumps(x))
        y = x
        for k in p[:-1]:
            y = y[k]
        y[p[-1]] = v
        return x

    ps = list(paths(doc))
    for _ in range(3):
        p = r.choice(ps)
        cur = get(doc, p)
        c = r.random()
        if isinstance(cur, dict) and c < 0.5:
            nv = dict(cur)
            if nv and r.random() < 0.5:
                nv.pop(r.choice(list(nv)))
            else:
                nv["zz_extra"] = 1
        elif isinstance(cur, list) and c < 0.6:
            nv = list(cur)
            if nv and r.random() < 0.4:
                nv.pop()
            elif nv and r.random() < 0.5:
                nv.append(nv[0])
            else:
                nv.append("zz")
        else:
            nv = r.choice([None, True, 7, "zz", 1.5, [], {}, [1, "a"], {"a": 1}, -1, "UTC+25:00"])
        out.append(put(doc, p, nv))
    return out


def model_part(ctx: vlib.Ctx):
    """(M): the hand-written model against the implementation on generated cases:
       (a) schema_f / defs_f  ==  build_json_schema(...).to_dict()   (4 dialect x all_refs combos)
       (b) jvalid  ==  jsonschema.Draft202012Validator   on real schemas x (valid and mutated) documents
       (c) enc_ok admits the real serialization; where Coq says the case is in the theorem's domain
           (ty_ok && env_ok) the real validator accepted it"""
    from jsonschema import Draft202012Validator
    from harness.props import c06_model as M
    import py2gallina
    br = ctx.theorems("props/C06_schema.vo", ["C06_sound_partial", "C06_tz_pattern", "C06_required_iff_no_default", "C06_satisfiable",
                                              "C06_sound_full_refuted", "C06_flag_refuted", "C06_intkey_refuted", "C06_shared_defs_refuted",
                                              "C06_set_collision_refuted", "C06_init_false_refuted",
                                              "C06_nt_override_container_refuted", "C06_overridden_nullable_refuted",
                                              "C06_nt_mode_schema", "C06_nt_mode_pack"], kernels=["K6", "K6N"])
    r = ctx.rng
    want = ctx.budget(150, 1000)
    a_cases, b_cases, c_cases, a_descr, b_descr, c_descr = [], [], [], [], [], []
    c_src = []
    patterns = set()
    tries = 0
    while len(a_cases) < want and tries < want * 4:
        tries += 1
        probe = r.random() < 0.3
        tbl, root = G.gen_case(r, r.choice([1, 2, 2, 3, 3]), probe)
        if M.uses_generic(root, tbl):
            ctx.hist("model_cases", "generic-dataclass")
        src = G.module_src(tbl, root)
        if len(src) > 12000:
            ctx.hist("model_skipped", "program-too-large")
            continue
        try:
            m = load_module(src)
        except Exception as e:
            ctx.hist("model_skipped", "load:" + type(e).__name__)
            continue
        try:
            try:
                real = {c: build_schema(m.ROOT, *c) for c in COMBOS}
                H = make_holder(m)
            except Exception as e:
                ctx.hist("model_skipped", "unsupported:" + type(e).__name__)
                continue
            em = M.Emitter(tbl, m.__dict__)
            try:
                ty_t = em.ty(root)
                env_t = em.env()
                gen_names = [t[1] for t in em.specs.values()]
                clash = M.has_name_clash(tbl) or len(set(gen_names)) < len(gen_names)   # G[int] and G[str] share the name G
                combos = []
                for (dl, ar), s in real.items():
                    pre = "#/$defs" if dl == "DRAFT_2020_12" else "#/components/schemas"
                    dd = {} if clash else defs_of(s)
                    combos.append(f"({vlib.coq_str(pre)}, {M.cbool(ar)}, {M.schema_term(s)}, {M.defs_term(dd)})")
                a_cases.append(f"({env_t}, {ty_t}, {M.cl(combos)})")
                a_descr.append(G.ty_src(root, tbl, [])[:160])
            except M.OutOfModel as e:
                ctx.hist("model_skipped", "out-of-model:" + str(e)[:30])
                continue
            except M.UnknownKeyword as e:
                ctx.not_shown("correspondence schema-model-vs-build_json_schema", f"real schema uses keyword outside the model: {e} for {G.ty_src(root, tbl, [])[:200]}")
                continue
            for node_s in real.values():
                for nd in schema_nodes(node_s):
                    if "pattern" in nd:
                        patterns.add(nd["pattern"])
            vals = {c: Draft202012Validator(s) for c, s in real.items()}
            usafe = M.union_safe(root, tbl, em)
            if not usafe:
                ctx.hist("model_skipped", "enc_ok:speculative-union")
            for _ in range(3):
                vs = G.gen_value(r, root, tbl, probe)
                try:
                    v = eval(G.val_src(vs), m.__dict__)
                    doc = H(v).to_dict()["r"]
                    if not finite(doc):
                        continue
                    doc = jround(doc)
                    vt = em.value(root, v)
                    dt = M.json_term(doc)
                except M.OutOfModel as e:
                    ctx.hist("model_skipped", "value-out-of-model:" + str(e)[:30])
                    continue
                except Exception as e:
                    ctx.hist("model_skipped", "serialize:" + type(e).__name__)
                    continue
                real_valid = all(not list(val.iter_errors(doc)) for val in vals.values())
                st = Sites(tbl, m, False, doc)
                try:
                    st.walk(root, v, ())
                except Exception:
                    pass
                collide = any(kd == "set-collision" for _, kd in st.out)
                if collide:       # excluded by the conformance predicate (enc_ok demands distinct element encodings)
                    ctx.hist("model_skipped", "enc_ok:set-wire-collision")
                if usafe and not collide:
                    c_cases.append(f"({env_t}, {ty_t}, {vt}, {dt}, {M.cbool(real_valid)})")
                    c_descr.append(G.ty_src(root, tbl, [])[:120] + " | " + G.val_src(vs)[:120])
                    c_src.append({"source": src, "value": G.val_src(vs), "document": doc})
                combo = r.choice(COMBOS)
                s = real[combo]
                try:
                    st, dft = M.schema_term(s), M.defs_term(defs_of(s))
                except M.UnknownKeyword:
                    continue
                for inst in [doc] + mutants(doc, r):
                    try:
                        it = M.json_term(inst)
                    except M.OutOfModel:
                        continue
                    exp = not list(vals[combo].iter_errors(inst))
                    b_cases.append(f"({dft}, {st}, {it}, {M.cbool(exp)})")
                    b_descr.append(json.dumps(inst)[:120] + " | " + json.dumps(s)[:200])
                    ctx.hist("jvalid_cases", "valid" if exp else "invalid")
        finally:
            unload_module(m)
    ctx.trusted.append("harness/props/c06_model.py: emission of env/ty/value/json terms, parsing of the real schema into the model's schema "
                       "type (keyword order canonicalised; annotations `default`/`description` stripped), typing's Union flattening")
    ctx.trusted.append("modelled, not verified: stdlib rendering of leaves (isoformat/str/encodebytes, harness side), timezone.tzname (TzName.v), "
                       "regex semantics of `pattern` (Regex.v matcher on the pattern text found in the real schema)")
    if not br.ok:
        # the model does not build: correspondences cannot run (the oracle below still does)
        return
    # pattern oracle for the case files: the patterns found in the real schemas, run by the Regex.v matcher
    pdefs = []
    arms = "false"
    for i, p in enumerate(sorted(patterns)):
        try:
            pdefs.append(f"Definition pat_{i} : re := {py2gallina.regex_to_coq(p)}.")
            arms = f"if String.eqb p {vlib.coq_str(p)} then (match re_match pat_{i} x with Some _ => true | None => false end) else {arms}"
        except Exception as e:
            ctx.not_shown("correspondence jvalid-vs-jsonschema", f"pattern {p!r} outside the regex subset: {e}")
    defs = "\n".join(pdefs) + f"\nDefinition pm (p x: string) : bool := {arms}.\n"
    runs = [
        ("schema-model-vs-build_json_schema", "c06_a", a_cases, a_descr,
         "fun c => match c with (E, t, combos) => forallb (fun x => match x with (pre, ar, rs, rdefs) => "
         "match schema_f E (mkD pre) ar false 60 t with Some s => schema_eqb 60 s rs | None => false end && "
         "match defs_f E (mkD pre) ar 60 (classes E) with Some ds => forallb (fun kd => match assoc ds (fst kd) with "
         "Some s' => schema_eqb 60 s' (snd kd) | None => false end) rdefs | None => false end end) combos end",
         "env * ty * list (string * bool * schema * list (string * schema))", ""),
        ("jvalid-vs-jsonschema", "c06_b", b_cases, b_descr,
         "fun c => match c with (ds, s, j, e) => Bool.eqb (jvalid pm ds 200 s j) e end",
         "list (string * schema) * schema * json * bool", defs),
        ("enc_ok-admits-to_dict+domain", "c06_c", c_cases, c_descr,
         "fun c => match c with (E, t, v, j, rv) => enc_ok 100 E false false t v j && (negb (ty_ok 60 E false false t && env_ok E) || rv) end",
         "env * ty * value * json * bool", ""),
    ]
    for name, fname, cases, descr, okf, ctype, dfs in runs:
        bad, log = vlib.coq_bad_idx(fname, "JValid Schema PyK_tuple", "From VerifGen Require Import K6.", dfs, cases, okf, ctype,
                                    shard=100, needs=["theories/Schema.vo"], timeout=900)
        if bad is None:
            ctx.correspondence(name, len(cases), -1, log)
            ctx.not_shown("correspondence " + name, log)
        else:
            ctx.correspondence(name, len(cases), len(bad), str([descr[i] for i in bad[:6]]))
            if bad and fname == "c06_c":
                import os
                os.makedirs(vlib.REPLAYS, exist_ok=True)
                with open(os.path.join(vlib.REPLAYS, f"C06-{ctx.seed}-enc_ok-mismatch.json"), "w") as fh:
                    json.dump([c_src[i] for i in bad[:5]], fh, indent=1, default=str)
            if bad:
                ctx.not_shown("correspondence " + name, f"{len(bad)} of {len(cases)} cases differ, e.g. {[descr[i] for i in bad[:4]]}; first case term: {cases[bad[0]][:1800]}")
        ctx.count(n=len(cases))


def alias_part(ctx):
    """field keys: K6A (schema side) against K4 (serializer side); (T) validation of the K6A translation"""
    ctx.theorems("props/C06_alias.vo", ["C06_schema_alias_spec", "C06_alias_agrees"],
                 kernels=["K4", "K6A"])
    if not ctx.kernel_report.get("K6A", {}).get("ok"):
        return
    from mashumaro.jsonschema import build_json_schema
    r = ctx.rng
    cases, descr = [], []
    names = ["x", "id", "unit_price", "é", "a b", "type"]
    vals = ["X", "itemId", "unitPrice", "k-1", "$ref", "x", "ü"]
    for _ in range(ctx.budget(60, 400)):
        fname = r.choice(names[:3]) + str(r.randrange(3))
        meta = r.choice(vals) + "m" if r.random() < 0.5 else None
        cfg = r.choice(vals) + "c" if r.random() < 0.5 else None
        ann = r.choice(vals) + "a" if r.random() < 0.3 else None
        other = r.choice(vals) + "o" if r.random() < 0.5 else None      # Config.aliases entry of another field
        ts = "int" if ann is None else f"Annotated[int, 'note', Alias({ann!r})]"
        fsrc = f"    {fname}: {ts}" + (f" = field(metadata=field_options(alias={meta!r}))" if meta is not None else "")
        al = {}
        if other is not None:
            al["zz"] = other
        if cfg is not None:
            al[fname] = cfg
        src = (G.PRELUDE2 + "@dataclass\nclass K(DataClassDictMixin):\n" + fsrc + "\n    class Config(BaseConfig):\n"
               f"        serialize_by_alias = True\n        aliases = {al!r}\nROOT = K\n")
        try:
            m = load_module(src)
        except Exception as e:
            ctx.not_shown("generator produced an invalid program", f"{type(e).__name__}: {e}\n{src[-600:]}")
            continue
        try:
            key = next(iter(build_json_schema(m.K).to_dict()["properties"]))
        except Exception as e:
            ctx.hist("skipped", "alias-schema:" + type(e).__name__)
            continue
        finally:
            unload_module(m)
        md = "(KDict [])" if meta is None else f"(KDict [(KStr \"alias\", KStr {vlib.coq_str(meta)})])"
        alt = vlib.coq_list([f"({vlib.coq_str(k)}, {vlib.coq_str(v)})" for k, v in al.items()])
        anns = "(KTuple [])" if ann is None else f"(KTuple [enc_ann AOther; enc_ann (AAlias {vlib.coq_str(ann)})])"
        cases.append(f"({md}, {anns}, {alt}, {vlib.coq_str(fname)}, {vlib.coq_str(key)})")
        descr.append(f"{fname}: meta={meta} ann={ann} cfg={cfg} -> {key}")
        ctx.hist("alias_sources", "+".join(x for x, y in (("meta", meta), ("ann", ann), ("cfg", cfg)) if y is not None) or "none")
    okf = ("fun c => match c with (md, anns, al, fname, exp) => match schema_alias md anns (enc_aliases al) (KStr fname) with "
           "Ok (KStr s) => String.eqb s exp | _ => false end end")
    bad, log = vlib.coq_bad_idx("c06_k6a", "PyK_alias KeyModel KeyImpl", "From VerifGen Require Import K6A.", "", cases, okf,
                                "kv * kv * list (string * string) * string * string", shard=500, needs=["gen/K6A.vo", "theories/KeyImpl.vo"])
    name = "K6A-translation-vs-python(Instance.alias)"
    if bad is None:
        ctx.correspondence(name, len(cases), -1, log)
        ctx.not_shown("translation validation K6A", log)
    else:
        ctx.correspondence(name, len(cases), len(bad), str([descr[i] for i in bad[:8]]))
        if bad:
            ctx.not_shown("translation validation K6A", f"fields {[descr[i] for i in bad[:8]]}")
    ctx.count(n=len(cases))


def required_part(ctx):
    """`required` and nullability: kernels K20 (CodeBuilder.is_field_nullable) and K6R (on_dataclass) against the
    model; (T) validation of both translations on sampled field declarations"""
    ctx.theorems("props/C06_required.vo", ["K20_spec", "K20_wrappers_transparent", "C06_schema_requires_spec",
                                           "C06_fnullable_is_K20", "C06_frequired_is_K6R", "C06_fnullable_typevar_is_K20",
                                           "C06_frequired_typevar_is_K6R", "C06_unbound_typevar_nullable"], kernels=["K20", "K6R"])
    kr = ctx.kernel_report
    if not (kr.get("K20", {}).get("ok") and kr.get("K6R", {}).get("ok")):
        return
    from mashumaro.core.meta.code.builder import CodeBuilder
    from mashumaro.jsonschema import build_json_schema
    r = ctx.rng
    # observations (hand-written, per declaration): (ftype in (Any, NoneType, None), is_type_var_any(real_type), is_optional(ftype, params),
    #   ftype is a union with a None member, real_type in (Any, NoneType, None), real_type is a union with a None member)
    # real_type = the written type with the type variables of the specialisation substituted
    def same(a, o, u):
        return (a, 0, o, u, a, u)
    cores = [("int", None, same(0, 0, 0)), ("Optional[int]", None, same(0, 1, 1)), ("Any", None, same(1, 0, 0)), ("None", None, same(1, 0, 0)),
             ("Literal[1, None]", None, same(0, 0, 0)), ("Union[int, None, str]", None, same(0, 0, 1)), ("Union[int, str]", None, same(0, 0, 0)),
             ("List[Optional[int]]", None, same(0, 0, 0)), ("str", None, same(0, 0, 0)),
             # generic dataclass K(Generic[T]) specialised as K[arg] ("" = used without arguments): since /repo 4da7e9e the
             # nullability of `x: T` is that of what T is bound to
             ("T", "int", (0, 0, 0, 0, 0, 0)), ("T", "Optional[int]", (0, 0, 0, 0, 0, 1)), ("T", "None", (0, 0, 0, 0, 1, 0)),
             ("T", "Any", (0, 0, 0, 0, 1, 0)), ("T", "Union[int, None, str]", (0, 0, 0, 0, 0, 1)), ("T", "", (0, 1, 0, 0, 0, 0)),
             ("T", "List[Optional[int]]", (0, 0, 0, 0, 0, 0)), ("T", "Union[int, str]", (0, 0, 0, 0, 0, 0)),
             ("Optional[T]", "int", (0, 0, 1, 1, 0, 1)), ("Optional[T]", "Optional[str]", (0, 0, 1, 1, 0, 1)),
             ("Union[T, int]", "str", (0, 0, 0, 0, 0, 0)), ("Union[T, int]", "Optional[str]", (0, 0, 0, 0, 0, 1)),
             ("Union[T, int]", "None", (0, 0, 1, 0, 0, 1)), ("List[T]", "Optional[int]", (0, 0, 0, 0, 0, 0))]
    stacks = [[], ["A"], ["F"], ["F", "A"], ["A", "A"], ["A", "F"]]
    cases, descr = [], []
    cb_ = lambda b: "true" if b else "false"
    n_samples = ctx.budget(90, 400)
    for i in range(n_samples):
        # every declaration at least once (plain), then random declarations under random wrapper stacks
        core, targ, obs = cores[i] if i < len(cores) else r.choice(cores)
        st = [] if i < len(cores) else r.choice(stacks)
        dflt = None if i < len(cores) else r.choice([None, None, "None", "1"])
        omit = True if i < len(cores) else r.random() < 0.6
        if targ is not None and dflt == "1":
            dflt = None
        ts = core
        for w in reversed(st):
            ts = f"Annotated[{ts}, 'n']" if w == "A" else f"Final[{ts}]"
        src = (G.PRELUDE2 + "T = TypeVar('T')\n@dataclass\nclass K(DataClassDictMixin" + (", Generic[T]" if targ is not None else "") + "):\n"
               + f"    x: {ts}" + (f" = {dflt}" if dflt is not None else "")
               + ("\n    class Config(BaseConfig):\n        omit_none = True" if omit else "")
               + "\nROOT = K" + (f"[{targ}]" if targ else "") + "\n")
        try:
            m = load_module(src)
        except Exception:
            ctx.hist("skipped", "required-sample-unsupported")
            continue
        try:
            import typing
            cb = CodeBuilder(m.K, type_args=typing.get_args(m.ROOT))
            cb.reset()
            ft = cb.get_field_types(include_extras=True)["x"]
            en = bool(cb.is_field_nullable("x", ft))
            er = "x" in build_json_schema(m.ROOT).to_dict().get("required", [])
            # the serializer's side of the same decision: under omit_none the key of a None value is dropped iff nullable
            dropped = None
            if omit:
                from mashumaro.codecs.basic import BasicEncoder
                try:
                    dropped = "x" not in BasicEncoder(m.ROOT).encode(m.K(None))
                except Exception as e:
                    ctx.hist("skipped", "required-sample-encode:" + type(e).__name__)
        except Exception as e:
            ctx.hist("skipped", "required-sample:" + type(e).__name__)
            continue
        finally:
            unload_module(m)
        if dropped is not None and dropped != en:
            ctx.fail(f"omit_none: the key of x: {ts} = None (specialisation {targ!r}) is {'dropped' if dropped else 'kept'} but is_field_nullable says {en}",
                     {"entry": "required-sample", "source": src, "check": "omit-none-vs-nullable", "observed": {"dropped": dropped, "nullable": en},
                      "expected": "dropped == nullable"}, {"kind": "omit-none-nullable-mismatch"})
        ctx.hist("required_samples", "typevar-field" if targ is not None else "plain-field")
        term = "(FCore (mkCore " + " ".join(cb_(x) for x in obs) + "))"
        for w in reversed(st):
            term = f"(FAnnotated {term})" if w == "A" else f"(FFinal (Some {term}))"
        cases.append(f"({term}, {cb_(dflt == 'None')}, {cb_(dflt is not None)}, {cb_(omit)}, {cb_(en)}, {cb_(er)})")
        descr.append(f"x: {ts}{' = ' + dflt if dflt else ''} in K{'[' + targ + ']' if targ else ''} omit_none={omit} -> nullable {en}, required {er}")
    okf = ("fun c => match c with (t, d, h, o, en, er) => Bool.eqb (is_field_nullable t d) en && "
           "match schema_requires (KBool h) (KBool o) (KBool (is_field_nullable t d)) with Ok (KBool b) => Bool.eqb b er | _ => false end end")
    bad, log = vlib.coq_bad_idx("c06_k20", "PyK_nullable", "From VerifGen Require Import K20 K6R.", "", cases, okf,
                                "fty * bool * bool * bool * bool * bool", shard=500, needs=["gen/K20.vo", "gen/K6R.vo"])
    name = "K20+K6R-translation-vs-python(is_field_nullable, required)"
    if bad is None:
        ctx.correspondence(name, len(cases), -1, log)
        ctx.not_shown("translation validation K20/K6R", log)
    else:
        ctx.correspondence(name, len(cases), len(bad), str([descr[i] for i in bad[:8]]))
        if bad:
            ctx.not_shown("translation validation K20/K6R", f"fields {[descr[i] for i in bad[:8]]}")
    ctx.count(n=len(cases))


def fixed_part(ctx):
    """minimal inputs of D11a and of the known findings, always run"""
    for descr, decl, rootsrc, vals in FIXED_CASES:
        tbl = G.Table()
        src = G.PRELUDE2 + decl + f"ROOT = {rootsrc}\n"
        run_fixed(ctx, descr, src, vals)


def run_fixed(ctx, descr, src, vals):
    from jsonschema import Draft202012Validator
    m = load_module(src)
    try:
        H = make_holder(m)
        for dl, ar in COMBOS:
            try:
                s = build_schema(m.ROOT, dl, ar)
            except SchemaBuildCrash as e:
                ctx.fail(f"{descr}: build_json_schema crashed or hung: {e}",
                         {"entry": "fixed", "source": src, "dialect": dl, "all_refs": ar, "check": "build", "observed": str(e),
                          "expected": "a schema"}, {"kind": "schema-build-crash"})
                break
            for node in schema_nodes(s):
                mn, mx = node.get("minItems"), node.get("maxItems")
                if mn is not None and mx is not None and mn > mx:
                    ctx.fail(f"unsatisfiable array schema minItems {mn} > maxItems {mx} ({descr})",
                             {"entry": "fixed", "source": src, "dialect": dl, "all_refs": ar, "check": "satisfiable",
                              "observed": node, "expected": "minItems <= maxItems"}, {"kind": "unsatisfiable-array"})
            val = Draft202012Validator(s)
            for vsrc in vals:
                v = eval(vsrc, m.__dict__)
                doc = jround(H(v).to_dict()["r"])
                errs = list(val.iter_errors(doc))
                ctx.count(("fixed", descr, vsrc, dl, ar))
                if errs:
                    e = errs[0]
                    kind = {"flag": "flag", "int keys": "nonstr-key", "same name": "bare-name",
                            "overridden serialization of a nullable field": "ovr-nullable"}.get(descr)
                    ok_kf = (kind == "flag" and e.validator == "enum" and vsrc == "F.A | F.B") or \
                            (kind == "nonstr-key" and "propertyNames" in list(e.absolute_schema_path) and vsrc == "{1: 'a'}") or \
                            (kind == "bare-name" and ar) or \
                            (kind == "ovr-nullable" and e.validator == "type" and list(e.absolute_path) == ["x"] and vsrc == "Ov(None)")
                    ctx.fail(f"{descr}: {vsrc} rejected: {e.message[:100]}",
                             {"entry": "fixed", "source": src, "dialect": dl, "all_refs": ar, "check": "validate", "value": vsrc,
                              "document": doc, "schema": s, "observed": e.message[:200], "expected": "no validation error"},
                             {"kind": KF_KINDS[kind] if ok_kf else "unexplained"})
    finally:
        unload_module(m)


def coqchk_part(ctx: vlib.Ctx):
    """thorough tier: the compiled property files are re-checked by the independent checker coqchk"""
    import re
    mods = ["VerifProps.C06_schema", "VerifProps.C06_k6", "VerifProps.C06_alias", "VerifProps.C06_required"]
    rc, out, secs = vlib.run(["timeout", "1500", "coqchk", "-silent", "-o", "-Q", "theories", "Verif", "-Q", "gen", "VerifGen",
                              "-Q", "props", "VerifProps"] + mods, cwd=vlib.COQ, timeout=1600)
    m = re.search(r"\* Axioms:\s*(.*?)\n\s*\n", out, re.S)
    axioms = " ".join(m.group(1).split()) if m else "?"
    clean = rc == 0 and axioms == "<none>" and all(f"relying on {x}: <none>" in " ".join(out.split())
                                                     for x in ("type-in-type", "unsafe (co)fixpoints"))
    ctx.obligation("coqchk -o " + " ".join(mods), clean, f"exit {rc}, Axioms: {axioms}, {secs:.0f}s")
    ctx.trusted.append(f"coqchk -o on {', '.join(mods)}: Axioms: {axioms} (exit {rc})")
    if not clean:
        ctx.not_shown("coqchk", out[-1500:])


def run(ctx: vlib.Ctx):
    ctx.coverage["rule"] = ("random class tables + root types over the supported grammar (scalars, 19 stdlib leaves, 5 enum bases, Literal lists "
                            "with ==-equal members, List/Sequence/Deque/Set/FrozenSet/Tuple var+fixed+Unpack (nested), Dict/Mapping/OrderedDict/"
                            "DefaultDict/Counter/ChainMap, Optional/Union/NewType/Final, dataclasses with three alias sources, defaults/factories, "
                            "init=False, generic specialisations, same __name__, class options omit_none / namedtuple_as_dict (Config or dialect), "
                            "field serialize overrides (as_list/as_dict, function with return annotation, pass_through), NamedTuple, TypedDict "
                            "total/Required/NotRequired), several conforming values each, validated under 2 dialects x all_refs; distinct = distinct "
                            "(root type, table size); 30% of the cases probe the known-finding inputs")
    ctx.assumptions += [
        "conforming value: exact scalar classes (bool is not offered at int positions), ints are offered at float positions, floats are finite "
        "(JSON cannot carry nan/inf)",
        "the schema document is the JSON round trip of build_json_schema(...).to_dict(); for the OPEN_API_3_1 dialect its definitions are placed "
        "at #/components/schemas where its $refs point (the document is meant to be embedded in an OpenAPI file)",
        "values are serialized through a field of a mixin dataclass (default options; serialize_by_alias=True on classes that declare aliases)",
    ]
    ctx.trusted.append("jsonschema 4.x Draft202012Validator as the standard validator (oracle; jvalid is differentially checked against it)")
    k6_part(ctx)
    alias_part(ctx)
    required_part(ctx)
    model_part(ctx)
    fixed_part(ctx)
    if not ctx.quick():
        coqchk_part(ctx)
    n = oracle(ctx, ctx.budget(250, 2000), 4)
    ctx.notes.append(f"oracle validations: {n}")


def replay(rep: dict) -> int:
    from jsonschema import Draft202012Validator
    m = load_module(rep["source"])
    try:
        chk = rep.get("check")
        if chk == "validate":
            H = make_holder(m)
            s = build_schema(m.ROOT, rep["dialect"], rep["all_refs"])
            v = eval(rep["value"], m.__dict__)
            doc = jround(H(v).to_dict()["r"])
            errs = list(Draft202012Validator(s).iter_errors(doc))
            print("document:", json.dumps(doc)[:500])
            print("schema:", json.dumps(s)[:1500])
            for e in errs[:5]:
                print("error:", e.validator, list(e.absolute_path), e.message[:200])
            print("REPRODUCED" if errs else "not reproduced")
            return 1 if errs else 0
        if chk == "build":
            try:
                build_schema(m.ROOT, rep["dialect"], rep["all_refs"])
            except SchemaBuildCrash as e:
                print("build_json_schema:", e)
                print("REPRODUCED")
                return 1
            print("not reproduced")
            return 0
        if chk == "satisfiable":
            s = build_schema(m.ROOT, rep["dialect"], rep["all_refs"])
            bad = [nd for nd in schema_nodes(s) if nd.get("minItems") is not None and nd.get("maxItems") is not None and nd["minItems"] > nd["maxItems"]]
            print("schema:", json.dumps(s)[:1500])
            print("REPRODUCED" if bad else "not reproduced")
            return 1 if bad else 0
        if chk == "distinct-definitions":
            s = build_schema(m.ROOT, rep["dialect"], rep["all_refs"])
            got = sorted(defs_of(s))
            print("definitions:", got, "classes by name:", rep["expected"])
            bad = [k for k in got if len(rep["expected"].get(k, [])) != 1]
            print("REPRODUCED" if bad else "not reproduced")
            return 1 if bad else 0
        if chk == "required":
            ds = build_schema(m.__dict__[rep["class"]], "DRAFT_2020_12", False)
            got = {"required": ds.get("required", []), "properties": list(ds.get("properties", {}))}
            print("observed", got, "expected", rep["expected"])
            bad = got != rep["expected"]
            print("REPRODUCED" if bad else "not reproduced")
            return 1 if bad else 0
        print("unknown replay kind")
        return 2
    finally:
        unload_module(m)
